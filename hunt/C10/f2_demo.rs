// C10 / finding 2: register_extension() validates the prefix but not the URL.
// URLs that cannot be represented next to the other declarations are stored anyway.
use e57::{E57Reader, E57Writer, Extension, RawValues, Record, RecordDataType, RecordName, RecordValue, Result};
use std::io::Cursor;

/// Registers the extensions, writes one cloud with X, Y, Z and one extension record and
/// returns the file (None if any writer call refused, which is a legal outcome).
fn write(extensions: &[(&str, &str)], record: RecordName) -> Option<Vec<u8>> {
    let mut device = Cursor::new(Vec::new());
    {
        let mut writer = E57Writer::new(&mut device, "file-guid").unwrap();
        for (prefix, url) in extensions {
            if writer.register_extension(Extension::new(prefix, url)).is_err() {
                return None;
            }
        }
        let prototype = vec![
            Record::CARTESIAN_X_F32,
            Record::CARTESIAN_Y_F32,
            Record::CARTESIAN_Z_F32,
            Record { name: record, data_type: RecordDataType::F32 },
        ];
        let mut pc = writer.add_pointcloud("pc-guid", prototype).ok()?;
        pc.add_point(vec![
            RecordValue::Single(1.0),
            RecordValue::Single(2.0),
            RecordValue::Single(3.0),
            RecordValue::Single(9.0),
        ])
        .ok()?;
        pc.finalize().ok()?;
        writer.finalize().ok()?;
    }
    Some(device.into_inner())
}

fn unknown(namespace: &str, name: &str) -> RecordName {
    RecordName::Unknown { namespace: namespace.to_owned(), name: name.to_owned() }
}

fn read_names(bytes: Vec<u8>) -> Result<Vec<RecordName>> {
    let mut reader = E57Reader::new(Cursor::new(bytes))?;
    let pc = reader.pointclouds().remove(0);
    let points: Result<Vec<RawValues>> = reader.pointcloud_raw(&pc)?.collect();
    assert_eq!(points?.len(), 1);
    Ok(pc.prototype.into_iter().map(|r| r.name).collect())
}

/// Two prefixes bound to the same URL: the record written as b:foo comes back as a:foo.
#[test]
fn record_namespace_is_silently_altered_when_two_extensions_share_a_url() {
    let written = unknown("b", "foo");
    if let Some(file) = write(&[("a", "http://example.com/x"), ("b", "http://example.com/x")], written.clone()) {
        let names = read_names(file).unwrap();
        assert_eq!(names[3], written, "the extension record changed its namespace");
    }
}

/// The E57 namespace URL registered as extension: ext:intensity comes back as the standard
/// intensity record, ext:cartesianX as a second CartesianX.
#[test]
fn extension_record_turns_into_standard_record() {
    let url = "http://www.astm.org/COMMIT/E57/2010-e57-v1.0";
    let written = unknown("ext", "intensity");
    if let Some(file) = write(&[("ext", url)], written.clone()) {
        let names = read_names(file).unwrap();
        assert_eq!(names[3], written, "the extension record became a standard record");
    }
}

/// URLs that no prefix may be bound to (reserved by the XML namespace spec) or that contain
/// characters XML cannot carry: every call succeeds but the file does not open any more.
#[test]
fn unrepresentable_urls_produce_files_that_do_not_open() {
    for url in [
        "http://www.w3.org/2000/xmlns/",
        "http://www.w3.org/XML/1998/namespace",
        "http://example.com/\u{1}",
    ] {
        if let Some(file) = write(&[("ext", url)], unknown("ext", "foo")) {
            let names = read_names(file);
            assert!(
                names.is_ok(),
                "all writer calls succeeded for URL {url:?} but the file cannot be read: {:?}",
                names.err()
            );
        }
    }
}
