// C10 / finding 3: inverted or NaN limits of Float records (and NaN scale of ScaledInteger
// records) pass validate_prototype(), only inverted Integer ranges are refused.
// For intensity/colour the limits are copied into intensityLimits/colorLimits and the
// simple reader of this crate then refuses the point cloud.
use e57::{E57Reader, E57Writer, Point, Record, RecordDataType, RecordName, RecordValue, Result};
use std::io::Cursor;

fn check(name: RecordName, data_type: RecordDataType, value: RecordValue) {
    let mut device = Cursor::new(Vec::new());
    {
        let mut writer = E57Writer::new(&mut device, "file-guid").unwrap();
        let mut prototype = vec![
            Record::CARTESIAN_X_F32,
            Record::CARTESIAN_Y_F32,
            Record::CARTESIAN_Z_F32,
        ];
        let mut values = vec![RecordValue::Single(1.0), RecordValue::Single(2.0), RecordValue::Single(3.0)];
        if name == RecordName::ColorRed {
            for n in [RecordName::ColorRed, RecordName::ColorGreen, RecordName::ColorBlue] {
                prototype.push(Record { name: n, data_type: data_type.clone() });
                values.push(value.clone());
            }
        } else {
            prototype.push(Record { name, data_type: data_type.clone() });
            values.push(value);
        }
        // Refusing the prototype is the behaviour the property asks for
        let mut pc = match writer.add_pointcloud("pc-guid", prototype) {
            Ok(pc) => pc,
            Err(_) => return,
        };
        if pc.add_point(values).is_err() || pc.finalize().is_err() || writer.finalize().is_err() {
            return;
        }
    }

    // Everything succeeded, so the file has to read back with both readers
    let mut reader = E57Reader::new(Cursor::new(device.into_inner())).unwrap();
    let pc = reader.pointclouds().remove(0);
    let raw = reader.pointcloud_raw(&pc).unwrap().count();
    assert_eq!(raw, 1);
    let simple = reader
        .pointcloud_simple(&pc)
        .and_then(|iter| iter.collect::<Result<Vec<Point>>>());
    assert!(
        simple.is_ok(),
        "writer accepted {data_type:?} but the written point cloud cannot be read: {:?}",
        simple.err()
    );
}

#[test]
fn inverted_single_limits_on_intensity() {
    check(
        RecordName::Intensity,
        RecordDataType::Single { min: Some(1.0), max: Some(0.0) },
        RecordValue::Single(0.5),
    );
}

#[test]
fn inverted_double_limits_on_color() {
    check(
        RecordName::ColorRed,
        RecordDataType::Double { min: Some(255.0), max: Some(0.0) },
        RecordValue::Double(10.0),
    );
}

#[test]
fn nan_limit_on_intensity() {
    check(
        RecordName::Intensity,
        RecordDataType::Double { min: Some(f64::NAN), max: Some(1.0) },
        RecordValue::Double(0.5),
    );
}

#[test]
fn nan_scale_on_intensity() {
    check(
        RecordName::Intensity,
        RecordDataType::ScaledInteger { min: 0, max: 10, scale: f64::NAN, offset: 0.0 },
        RecordValue::ScaledInteger(5),
    );
}
