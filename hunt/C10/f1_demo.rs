// C10 / finding 1: the file writer keeps no "already finalized" state.
// A second successful E57Writer::finalize() (or add_pointcloud + finalize after a finalize)
// writes at offset 48, right over the binary sections, and reports success.
use e57::{E57Reader, E57Writer, RawValues, Record, RecordValue, Result};
use std::io::Cursor;

fn prototype() -> Vec<Record> {
    vec![
        Record::CARTESIAN_X_F32,
        Record::CARTESIAN_Y_F32,
        Record::CARTESIAN_Z_F32,
    ]
}

fn point(i: usize) -> RawValues {
    vec![
        RecordValue::Single(i as f32),
        RecordValue::Single(i as f32 + 0.25),
        RecordValue::Single(i as f32 + 0.5),
    ]
}

fn read_clouds(bytes: Vec<u8>) -> Result<Vec<(Option<String>, Vec<RawValues>)>> {
    let mut reader = E57Reader::new(Cursor::new(bytes))?;
    let mut clouds = Vec::new();
    for pc in reader.pointclouds() {
        let points: Result<Vec<RawValues>> = reader.pointcloud_raw(&pc)?.collect();
        clouds.push((pc.guid.clone(), points?));
    }
    Ok(clouds)
}

/// finalize(); finalize(); - both calls return Ok, afterwards the point data is gone.
#[test]
fn second_file_finalize_must_not_destroy_the_file() {
    let expected: Vec<RawValues> = (0..100).map(point).collect();

    let mut device = Cursor::new(Vec::new());
    let second;
    {
        let mut writer = E57Writer::new(&mut device, "file-guid").unwrap();
        let mut pc = writer.add_pointcloud("pc-guid", prototype()).unwrap();
        for p in &expected {
            pc.add_point(p.clone()).unwrap();
        }
        pc.finalize().unwrap();
        writer.finalize().unwrap();
        second = writer.finalize();
    }

    // The property allows exactly two outcomes: the second call is refused,
    // or everything succeeded and then the file must read back.
    if second.is_ok() {
        let clouds = read_clouds(device.into_inner())
            .expect("all writer calls succeeded, so the file must open and read back");
        assert_eq!(clouds.len(), 1);
        assert_eq!(clouds[0].1, expected);
    }
}

/// finalize(); add_pointcloud(); ...; finalize(); - the new section lands on top of the old one.
#[test]
fn adding_a_cloud_after_finalize_must_not_destroy_the_first_cloud() {
    let first: Vec<RawValues> = (0..100).map(point).collect();
    let second: Vec<RawValues> = (500..510).map(point).collect();

    let mut device = Cursor::new(Vec::new());
    let mut all_ok = true;
    {
        let mut writer = E57Writer::new(&mut device, "file-guid").unwrap();
        let mut pc = writer.add_pointcloud("pc-1", prototype()).unwrap();
        for p in &first {
            pc.add_point(p.clone()).unwrap();
        }
        pc.finalize().unwrap();
        writer.finalize().unwrap();

        match writer.add_pointcloud("pc-2", prototype()) {
            Ok(mut pc) => {
                for p in &second {
                    all_ok &= pc.add_point(p.clone()).is_ok();
                }
                all_ok &= pc.finalize().is_ok();
            }
            Err(_) => all_ok = false,
        }
        all_ok &= writer.finalize().is_ok();
    }

    if all_ok {
        let clouds = read_clouds(device.into_inner())
            .expect("all writer calls succeeded, so the file must open and read back");
        assert_eq!(clouds.len(), 2);
        assert_eq!(clouds[0].1, first, "points of the first cloud were overwritten");
        assert_eq!(clouds[1].1, second);
    }
}

/// Secondary: PointCloudWriter::finalize() twice registers the same section twice,
/// the file then contains two point clouds (same guid) although only one was written.
#[test]
fn second_pointcloud_finalize_must_not_duplicate_the_cloud() {
    let mut device = Cursor::new(Vec::new());
    let second;
    {
        let mut writer = E57Writer::new(&mut device, "file-guid").unwrap();
        let mut pc = writer.add_pointcloud("pc-guid", prototype()).unwrap();
        pc.add_point(point(1)).unwrap();
        pc.finalize().unwrap();
        second = pc.finalize();
        writer.finalize().unwrap();
    }
    if second.is_ok() {
        let clouds = read_clouds(device.into_inner()).unwrap();
        assert_eq!(clouds.len(), 1, "one point cloud was written, {} are in the file", clouds.len());
    }
}
