//! C09 demo 1: opening a small file whose XML section contains nested elements that each
//! declare one more XML namespace prefix needs cubic time and quadratic memory.
//!
//! Run with: cargo test --offline --test f1_demo -- --nocapture
use std::alloc::{GlobalAlloc, Layout, System};
use std::io::Cursor;
use std::sync::atomic::{AtomicUsize, Ordering};
use std::time::Instant;

// ---------- allocator that tracks the peak of live heap bytes ----------
struct Counting;
static CUR: AtomicUsize = AtomicUsize::new(0);
static PEAK: AtomicUsize = AtomicUsize::new(0);
unsafe impl GlobalAlloc for Counting {
    unsafe fn alloc(&self, l: Layout) -> *mut u8 {
        let p = System.alloc(l);
        if !p.is_null() {
            let c = CUR.fetch_add(l.size(), Ordering::Relaxed) + l.size();
            PEAK.fetch_max(c, Ordering::Relaxed);
        }
        p
    }
    unsafe fn dealloc(&self, p: *mut u8, l: Layout) {
        CUR.fetch_sub(l.size(), Ordering::Relaxed);
        System.dealloc(p, l)
    }
    unsafe fn realloc(&self, p: *mut u8, l: Layout, new: usize) -> *mut u8 {
        let q = System.realloc(p, l, new);
        if !q.is_null() {
            if new > l.size() {
                let c = CUR.fetch_add(new - l.size(), Ordering::Relaxed) + new - l.size();
                PEAK.fetch_max(c, Ordering::Relaxed);
            } else {
                CUR.fetch_sub(l.size() - new, Ordering::Relaxed);
            }
        }
        q
    }
}
#[global_allocator]
static ALLOC: Counting = Counting;

// ---------- minimal E57 file builder (header + XML, 1024 byte CRC pages) ----------
fn crc32c(data: &[u8]) -> u32 {
    let mut crc = !0u32;
    for b in data {
        crc ^= *b as u32;
        for _ in 0..8 {
            crc = if crc & 1 != 0 { (crc >> 1) ^ 0x82F6_3B78 } else { crc >> 1 };
        }
    }
    !crc
}

fn build_file(xml: &str) -> Vec<u8> {
    let mut logical = vec![0u8; 48];
    logical.extend_from_slice(xml.as_bytes());
    while logical.len() % 1020 != 0 {
        logical.push(0);
    }
    let phys_len = (logical.len() / 1020 * 1024) as u64;
    logical[0..8].copy_from_slice(b"ASTM-E57");
    logical[8..12].copy_from_slice(&1u32.to_le_bytes());
    logical[12..16].copy_from_slice(&0u32.to_le_bytes());
    logical[16..24].copy_from_slice(&phys_len.to_le_bytes());
    logical[24..32].copy_from_slice(&48u64.to_le_bytes()); // XML directly behind the header
    logical[32..40].copy_from_slice(&(xml.len() as u64).to_le_bytes());
    logical[40..48].copy_from_slice(&1024u64.to_le_bytes());
    let mut file = Vec::new();
    for chunk in logical.chunks(1020) {
        file.extend_from_slice(chunk);
        file.extend_from_slice(&crc32c(chunk).to_be_bytes());
    }
    file
}

/// Well-formed E57 XML with `depth` nested extension elements, each declaring one namespace prefix.
fn xml_with_nested_namespaces(depth: usize) -> String {
    let mut xml = String::from(
        "<?xml version=\"1.0\" encoding=\"UTF-8\"?>\n\
         <e57Root type=\"Structure\" xmlns=\"http://www.astm.org/COMMIT/E57/2010-e57-v1.0\">\
         <formatName type=\"String\">ASTM E57 3D Imaging Data File</formatName>\
         <guid type=\"String\">guid</guid>\
         <versionMajor type=\"Integer\">1</versionMajor>\
         <versionMinor type=\"Integer\">0</versionMinor>",
    );
    for i in 0..depth {
        xml += &format!("<a xmlns:p{i}=\"u\">");
    }
    for _ in 0..depth {
        xml += "</a>";
    }
    xml += "</e57Root>";
    xml
}

/// Returns (file size, seconds, peak heap bytes) for E57Reader::new
fn open(depth: usize) -> (usize, f64, usize) {
    let file = build_file(&xml_with_nested_namespaces(depth));
    let size = file.len();
    let base = CUR.load(Ordering::Relaxed);
    PEAK.store(base, Ordering::Relaxed);
    let start = Instant::now();
    let reader = e57::E57Reader::new(Cursor::new(file));
    let secs = start.elapsed().as_secs_f64();
    let peak = PEAK.load(Ordering::Relaxed) - base;
    assert!(reader.is_ok(), "the file is accepted as valid E57: {:?}", reader.err());
    drop(reader);
    println!(
        "depth={depth:5} file={size:7} bytes  open={secs:9.3}s  peak heap={peak:9} bytes  ({:.0} bytes per input byte)",
        peak as f64 / size as f64
    );
    (size, secs, peak)
}

fn run() {
    let (size_s, secs_s, peak_s) = open(400);
    let (size_l, secs_l, peak_l) = open(1600);
    let growth = size_l as f64 / size_s as f64; // about 4

    // Memory: a bound of the form c * size + k means that the peak per input byte cannot grow.
    let per_byte_s = peak_s as f64 / size_s as f64;
    let per_byte_l = peak_l as f64 / size_l as f64;
    let memory_ok = per_byte_l <= 1.5 * per_byte_s;
    // Time: linear would be a factor of ~4, we allow a factor of 4 on top of that.
    let time_ok = secs_l <= 4.0 * growth * secs_s.max(0.001);
    assert!(
        memory_ok && time_ok,
        "opening is not linear in the input size, the second file is only {growth:.1} times bigger: \
         peak memory {per_byte_s:.0} -> {per_byte_l:.0} heap bytes per input byte (linear: {memory_ok}), \
         time {secs_s:.3}s -> {secs_l:.3}s (linear: {time_ok})"
    );
}

#[test]
fn open_is_linear_in_time_and_memory_for_nested_namespace_declarations() {
    // Big stack so that the recursion depth of the XML parser is not what is tested here
    std::thread::Builder::new()
        .stack_size(1 << 30)
        .spawn(run)
        .unwrap()
        .join()
        .unwrap();
}
