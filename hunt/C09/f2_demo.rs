//! C09 demo 2: one single `next()` call of a point iterator needs time that is quadratic in the
//! size of the file when the data packets carry bytes in the byte stream of a record that has
//! a bit size of zero (Integer or ScaledInteger with minimum == maximum).
//!
//! Run with: cargo test --offline --test f2_demo -- --nocapture
use std::io::Cursor;
use std::time::Instant;

// ---------- minimal E57 file builder (1024 byte CRC pages) ----------
fn crc_table() -> [u32; 256] {
    let mut table = [0u32; 256];
    for i in 0..256u32 {
        let mut c = i;
        for _ in 0..8 {
            c = if c & 1 != 0 { (c >> 1) ^ 0x82F6_3B78 } else { c >> 1 };
        }
        table[i as usize] = c;
    }
    table
}

fn crc32c(table: &[u32; 256], data: &[u8]) -> u32 {
    let mut crc = !0u32;
    for b in data {
        crc = table[((crc ^ *b as u32) & 0xff) as usize] ^ (crc >> 8);
    }
    !crc
}

/// Physical offset of a logical offset (every page has 1020 payload bytes and 4 CRC bytes)
fn phys(logical: u64) -> u64 {
    logical + (logical / 1020) * 4
}

/// Layout: file header (48 bytes) | compressed vector section | XML
fn build_file(section: &[u8], xml: &str) -> Vec<u8> {
    let mut logical = vec![0u8; 48];
    logical.extend_from_slice(section);
    assert!(logical.len() % 4 == 0);
    let xml_offset = logical.len() as u64;
    logical.extend_from_slice(xml.as_bytes());
    while logical.len() % 1020 != 0 {
        logical.push(0);
    }
    let phys_len = (logical.len() / 1020 * 1024) as u64;
    logical[0..8].copy_from_slice(b"ASTM-E57");
    logical[8..12].copy_from_slice(&1u32.to_le_bytes());
    logical[12..16].copy_from_slice(&0u32.to_le_bytes());
    logical[16..24].copy_from_slice(&phys_len.to_le_bytes());
    logical[24..32].copy_from_slice(&phys(xml_offset).to_le_bytes());
    logical[32..40].copy_from_slice(&(xml.len() as u64).to_le_bytes());
    logical[40..48].copy_from_slice(&1024u64.to_le_bytes());
    let table = crc_table();
    let mut file = Vec::with_capacity(phys_len as usize);
    for chunk in logical.chunks(1020) {
        file.extend_from_slice(chunk);
        file.extend_from_slice(&crc32c(&table, chunk).to_be_bytes());
    }
    file
}

/// A point cloud with two records (first: integer, second: double) and `packets` data packets.
/// Every data packet has 10 bytes in the byte stream of the first record and none in the second.
fn file_with_packets(packets: usize, first_record: &str) -> Vec<u8> {
    const STREAM0: usize = 10;
    const PACKET: usize = 6 + 2 * 2 + STREAM0; // header + two stream sizes + data = 20 bytes
    let mut section = Vec::new();
    let mut header = [0u8; 32];
    header[0] = 1; // compressed vector section ID
    header[8..16].copy_from_slice(&((32 + packets * PACKET) as u64).to_le_bytes());
    header[16..24].copy_from_slice(&phys(48 + 32).to_le_bytes()); // data offset
    section.extend_from_slice(&header);
    for _ in 0..packets {
        section.push(1); // data packet
        section.push(0); // flags
        section.extend_from_slice(&((PACKET - 1) as u16).to_le_bytes());
        section.extend_from_slice(&2u16.to_le_bytes()); // byte stream count
        section.extend_from_slice(&(STREAM0 as u16).to_le_bytes());
        section.extend_from_slice(&0u16.to_le_bytes());
        section.extend_from_slice(&[0xAA; STREAM0]);
    }
    let xml = format!(
        "<?xml version=\"1.0\" encoding=\"UTF-8\"?>\n\
         <e57Root type=\"Structure\" xmlns=\"http://www.astm.org/COMMIT/E57/2010-e57-v1.0\">\
         <formatName type=\"String\">ASTM E57 3D Imaging Data File</formatName>\
         <guid type=\"String\">guid</guid>\
         <versionMajor type=\"Integer\">1</versionMajor>\
         <versionMinor type=\"Integer\">0</versionMinor>\
         <data3D type=\"Vector\" allowHeterogeneousChildren=\"1\">\
         <vectorChild type=\"Structure\"><guid type=\"String\">pc</guid>\
         <points type=\"CompressedVector\" fileOffset=\"{}\" recordCount=\"1000\">\
         <prototype type=\"Structure\">{first_record}<cartesianY type=\"Float\"/></prototype>\
         </points></vectorChild></data3D></e57Root>",
        phys(48)
    );
    build_file(&section, &xml)
}

/// Returns (file size, seconds needed by the first call of next())
fn first_step(name: &str, packets: usize, first_record: &str) -> (usize, f64) {
    let file = file_with_packets(packets, first_record);
    let size = file.len();
    let mut reader = e57::E57Reader::new(Cursor::new(file)).expect("file can be opened");
    let pc = reader.pointclouds().remove(0);
    let mut iter = reader.pointcloud_raw(&pc).expect("iterator can be created");
    let start = Instant::now();
    let first = iter.next();
    let secs = start.elapsed().as_secs_f64();
    // The second record never gets any data, so the step ends with an error behind the last packet
    assert!(matches!(first, Some(Err(_))), "unexpected result: {first:?}");
    println!("{name:32} file={size:8} bytes  packets={packets:7}  first next()={secs:8.3}s");
    (size, secs)
}

#[test]
fn a_single_step_is_linear_in_time_with_bytes_in_zero_bit_streams() {
    // Zero bits per value: minimum == maximum
    let zero_bits = "<cartesianX type=\"Integer\" minimum=\"5\" maximum=\"5\"/>";
    // Reference with exactly the same bytes in the file (besides the maximum), eight bits per value
    let eight_bits = "<cartesianX type=\"Integer\" minimum=\"5\" maximum=\"260\"/>";

    let (size_s, secs_s) = first_step("zero bit record, small", 20_000, zero_bits);
    let (size_l, secs_l) = first_step("zero bit record, large", 160_000, zero_bits);
    let (size_r, secs_r) = first_step("eight bit record, large", 160_000, eight_bits);
    let growth = size_l as f64 / size_s as f64; // about 8

    // Two inputs of the same size and the same packet layout must not differ by orders of magnitude
    assert!(
        secs_l <= 10.0 * secs_r.max(0.001),
        "one call of next() needs {secs_l:.3}s for a file with {size_l} bytes, \
         the same file ({size_r} bytes) with an eight bit record needs {secs_r:.3}s"
    );

    // Linear would be a factor of ~8, we allow three times that.
    assert!(
        secs_l <= 3.0 * growth * secs_s.max(0.001),
        "time of one step is not linear in the input size: {secs_s:.3}s -> {secs_l:.3}s for {growth:.1} times the input"
    );
}
