//! C09 demo 3: opening a file whose XML section contains one element with many attributes
//! needs time that is quadratic in the size of the file.
//!
//! Run with: cargo test --offline --test f3_demo -- --nocapture
use std::alloc::{GlobalAlloc, Layout, System};
use std::io::Cursor;
use std::sync::atomic::{AtomicUsize, Ordering};
use std::time::Instant;

// ---------- allocator that tracks the peak of live heap bytes ----------
struct Counting;
static CUR: AtomicUsize = AtomicUsize::new(0);
static PEAK: AtomicUsize = AtomicUsize::new(0);
unsafe impl GlobalAlloc for Counting {
    unsafe fn alloc(&self, l: Layout) -> *mut u8 {
        let p = System.alloc(l);
        if !p.is_null() {
            let c = CUR.fetch_add(l.size(), Ordering::Relaxed) + l.size();
            PEAK.fetch_max(c, Ordering::Relaxed);
        }
        p
    }
    unsafe fn dealloc(&self, p: *mut u8, l: Layout) {
        CUR.fetch_sub(l.size(), Ordering::Relaxed);
        System.dealloc(p, l)
    }
    unsafe fn realloc(&self, p: *mut u8, l: Layout, new: usize) -> *mut u8 {
        let q = System.realloc(p, l, new);
        if !q.is_null() {
            if new > l.size() {
                let c = CUR.fetch_add(new - l.size(), Ordering::Relaxed) + new - l.size();
                PEAK.fetch_max(c, Ordering::Relaxed);
            } else {
                CUR.fetch_sub(l.size() - new, Ordering::Relaxed);
            }
        }
        q
    }
}
#[global_allocator]
static ALLOC: Counting = Counting;

// ---------- minimal E57 file builder (header + XML, 1024 byte CRC pages) ----------
fn crc32c(data: &[u8]) -> u32 {
    let mut crc = !0u32;
    for b in data {
        crc ^= *b as u32;
        for _ in 0..8 {
            crc = if crc & 1 != 0 { (crc >> 1) ^ 0x82F6_3B78 } else { crc >> 1 };
        }
    }
    !crc
}

fn build_file(xml: &str) -> Vec<u8> {
    let mut logical = vec![0u8; 48];
    logical.extend_from_slice(xml.as_bytes());
    while logical.len() % 1020 != 0 {
        logical.push(0);
    }
    let phys_len = (logical.len() / 1020 * 1024) as u64;
    logical[0..8].copy_from_slice(b"ASTM-E57");
    logical[8..12].copy_from_slice(&1u32.to_le_bytes());
    logical[12..16].copy_from_slice(&0u32.to_le_bytes());
    logical[16..24].copy_from_slice(&phys_len.to_le_bytes());
    logical[24..32].copy_from_slice(&48u64.to_le_bytes()); // XML directly behind the header
    logical[32..40].copy_from_slice(&(xml.len() as u64).to_le_bytes());
    logical[40..48].copy_from_slice(&1024u64.to_le_bytes());
    let mut file = Vec::new();
    for chunk in logical.chunks(1020) {
        file.extend_from_slice(chunk);
        file.extend_from_slice(&crc32c(chunk).to_be_bytes());
    }
    file
}

const XML_HEAD: &str = "<?xml version=\"1.0\" encoding=\"UTF-8\"?>\n\
     <e57Root type=\"Structure\" xmlns=\"http://www.astm.org/COMMIT/E57/2010-e57-v1.0\" xmlns:ext=\"http://example.com/ext\">\
     <formatName type=\"String\">ASTM E57 3D Imaging Data File</formatName>\
     <guid type=\"String\">guid</guid>\
     <versionMajor type=\"Integer\">1</versionMajor>\
     <versionMinor type=\"Integer\">0</versionMinor>";

/// One extension element that carries `count` attributes.
fn xml_one_element(count: usize) -> String {
    let mut xml = String::from(XML_HEAD);
    xml += "<ext:info type=\"Structure\"";
    for i in 0..count {
        xml += &format!(" a{i:07}=\"\"");
    }
    xml += "/></e57Root>";
    xml
}

/// Reference with the same number of attributes and about the same size, but 10 attributes per element.
fn xml_many_elements(count: usize) -> String {
    let mut xml = String::from(XML_HEAD);
    for i in 0..count {
        if i % 10 == 0 {
            xml += "<ext:info";
        }
        xml += &format!(" a{i:07}=\"\"");
        if i % 10 == 9 {
            xml += "/>";
        }
    }
    xml += "</e57Root>";
    xml
}

/// Returns (file size, seconds, peak heap bytes) for E57Reader::new
fn open(name: &str, xml: &str) -> (usize, f64, usize) {
    let file = build_file(xml);
    let size = file.len();
    let base = CUR.load(Ordering::Relaxed);
    PEAK.store(base, Ordering::Relaxed);
    let start = Instant::now();
    let reader = e57::E57Reader::new(Cursor::new(file));
    let secs = start.elapsed().as_secs_f64();
    let peak = PEAK.load(Ordering::Relaxed) - base;
    assert!(reader.is_ok(), "the file is accepted as valid E57: {:?}", reader.err());
    drop(reader);
    println!("{name:28} file={size:8} bytes  open={secs:9.3}s  peak heap={peak:9} bytes");
    (size, secs, peak)
}

#[test]
fn open_is_linear_in_time_for_an_element_with_many_attributes() {
    let small = 4_000;
    let large = 32_000;
    let (size_s, secs_s, _) = open("one element, 4000 attrs", &xml_one_element(small));
    let (size_l, secs_l, _) = open("one element, 32000 attrs", &xml_one_element(large));
    let (size_r, secs_r, _) = open("3200 elements, 32000 attrs", &xml_many_elements(large));
    let growth = size_l as f64 / size_s as f64; // about 8

    // Two inputs of the same size with the same attributes must not differ by orders of magnitude
    assert!(
        secs_l <= 10.0 * secs_r.max(0.001),
        "{size_l} bytes with all attributes on one element need {secs_l:.3}s to open, \
         {size_r} bytes with the same attributes on many elements need {secs_r:.3}s"
    );

    // Linear would be a factor of ~8, we allow three times that.
    assert!(
        secs_l <= 3.0 * growth * secs_s.max(0.001),
        "open time is not linear in the input size: {secs_s:.3}s -> {secs_l:.3}s for {growth:.1} times the input"
    );
}
