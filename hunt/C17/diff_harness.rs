use e57::{Blob, E57Reader, E57Writer, PointCloud, Record, RecordDataType, RecordName, RecordValue};
use std::cell::Cell;
use std::io::{Cursor, Error as IoError, ErrorKind, Read, Seek, SeekFrom, Write};
use std::rc::Rc;

fn crc32c(data: &[u8]) -> u32 {
    let mut crc = !0u32;
    for b in data {
        crc ^= *b as u32;
        for _ in 0..8 {
            crc = if crc & 1 != 0 { (crc >> 1) ^ 0x82F63B78 } else { crc >> 1 };
        }
    }
    !crc
}

fn fix_crc(file: &mut [u8], page: usize) {
    let s = page * 1024;
    let c = crc32c(&file[s..s + 1020]).to_be_bytes();
    file[s + 1020..s + 1024].copy_from_slice(&c);
}

struct Rng(u64);
impl Rng {
    fn next(&mut self) -> u64 {
        self.0 ^= self.0 << 13;
        self.0 ^= self.0 >> 7;
        self.0 ^= self.0 << 17;
        self.0
    }
    fn below(&mut self, n: u64) -> u64 {
        self.next() % n
    }
}

#[derive(Clone)]
struct Faults {
    // countdown until next fault; 0 = disabled
    countdown: Rc<Cell<u64>>,
    mode: Rc<Cell<u8>>, // 0 error, 1 interrupted, 2 eof(0), 3 short garbage read
    short: Rc<Cell<bool>>,
    period: Rc<Cell<u64>>,
}

struct Dev {
    inner: Cursor<Vec<u8>>,
    f: Faults,
}

impl Dev {
    fn hit(&mut self) -> bool {
        let c = self.f.countdown.get();
        if c == 0 {
            return false;
        }
        if c == 1 {
            let per = if self.f.mode.get() == 1 && self.f.period.get() < 3 { 0 } else { self.f.period.get() };
            self.f.countdown.set(per);
            true
        } else {
            self.f.countdown.set(c - 1);
            false
        }
    }
}

impl Read for Dev {
    fn read(&mut self, buf: &mut [u8]) -> std::io::Result<usize> {
        if self.hit() {
            match self.f.mode.get() {
                0 => return Err(IoError::new(ErrorKind::Other, "transient")),
                1 => return Err(IoError::new(ErrorKind::Interrupted, "intr")),
                2 => return Ok(0),
                _ => {
                    // read a part then fail next time
                    let n = buf.len().min(100);
                    let r = self.inner.read(&mut buf[..n])?;
                    self.f.countdown.set(1);
                    self.f.mode.set(0);
                    return Ok(r);
                }
            }
        }
        if self.f.short.get() && buf.len() > 7 {
            return self.inner.read(&mut buf[..7]);
        }
        self.inner.read(buf)
    }
}

impl Seek for Dev {
    fn seek(&mut self, pos: SeekFrom) -> std::io::Result<u64> {
        if self.hit() {
            match self.f.mode.get() {
                1 => return Err(IoError::new(ErrorKind::Interrupted, "intr")),
                _ => return Err(IoError::new(ErrorKind::Other, "transient seek")),
            }
        }
        self.inner.seek(pos)
    }
}

struct FailWriter {
    left: usize,
    data: Vec<u8>,
}
impl Write for FailWriter {
    fn write(&mut self, buf: &[u8]) -> std::io::Result<usize> {
        if self.left == 0 {
            return Err(IoError::new(ErrorKind::Other, "sink full"));
        }
        let n = buf.len().min(self.left);
        self.left -= n;
        self.data.extend_from_slice(&buf[..n]);
        Ok(n)
    }
    fn flush(&mut self) -> std::io::Result<()> {
        Ok(())
    }
}

fn build() -> (Vec<u8>, Vec<Blob>) {
    let mut w = E57Writer::new(Cursor::new(Vec::new()), "file").unwrap();
    let mut blobs = Vec::new();
    // pc0: doubles + color
    {
        let proto = vec![
            Record::CARTESIAN_X_F64,
            Record::CARTESIAN_Y_F64,
            Record::CARTESIAN_Z_F64,
            Record::COLOR_RED_U8,
            Record::COLOR_GREEN_U8,
            Record::COLOR_BLUE_U8,
        ];
        let mut pw = w.add_pointcloud("pc0", proto).unwrap();
        for i in 0..700 {
            pw.add_point(vec![
                RecordValue::Double(i as f64),
                RecordValue::Double(i as f64 * 0.5),
                RecordValue::Double(-(i as f64)),
                RecordValue::Integer(i % 256),
                RecordValue::Integer((i * 3) % 256),
                RecordValue::Integer((i * 7) % 256),
            ])
            .unwrap();
        }
        pw.finalize().unwrap();
    }
    let data: Vec<u8> = (0..3000u32).map(|i| (i * 31 % 251) as u8).collect();
    blobs.push(w.add_blob(&mut Cursor::new(data)).unwrap());
    // pc1: scaled ints + constant record + spherical
    {
        let proto = vec![
            Record {
                name: RecordName::CartesianX,
                data_type: RecordDataType::ScaledInteger { min: -1000, max: 5000, scale: 0.001, offset: 1.0 },
            },
            Record {
                name: RecordName::CartesianY,
                data_type: RecordDataType::ScaledInteger { min: 0, max: 7, scale: 0.5, offset: 0.0 },
            },
            Record {
                name: RecordName::CartesianZ,
                data_type: RecordDataType::Single { min: None, max: None },
            },
            Record {
                name: RecordName::Intensity,
                data_type: RecordDataType::Integer { min: 5, max: 5 },
            },
            Record {
                name: RecordName::CartesianInvalidState,
                data_type: RecordDataType::Integer { min: 0, max: 2 },
            },
        ];
        let mut pw = w.add_pointcloud("pc1", proto).unwrap();
        for i in 0..5000i64 {
            pw.add_point(vec![
                RecordValue::ScaledInteger(i - 1000),
                RecordValue::ScaledInteger(i % 8),
                RecordValue::Single(i as f32),
                RecordValue::Integer(5),
                RecordValue::Integer(i % 3),
            ])
            .unwrap();
        }
        pw.finalize().unwrap();
    }
    blobs.push(w.add_blob(&mut Cursor::new(vec![1u8, 2, 3, 4, 5, 6, 7, 8, 9, 10])).unwrap());
    // pc2: all zero bits
    {
        let proto = vec![
            Record { name: RecordName::CartesianX, data_type: RecordDataType::Integer { min: 1, max: 1 } },
            Record { name: RecordName::CartesianY, data_type: RecordDataType::Integer { min: 2, max: 2 } },
            Record { name: RecordName::CartesianZ, data_type: RecordDataType::ScaledInteger { min: 3, max: 3, scale: 2.0, offset: 0.0 } },
        ];
        let mut pw = w.add_pointcloud("pc2", proto).unwrap();
        for _ in 0..2500 {
            pw.add_point(vec![
                RecordValue::Integer(1),
                RecordValue::Integer(2),
                RecordValue::ScaledInteger(3),
            ])
            .unwrap();
        }
        pw.finalize().unwrap();
    }
    // pc3: empty
    {
        let proto = vec![Record::CARTESIAN_X_F32, Record::CARTESIAN_Y_F32, Record::CARTESIAN_Z_F32];
        let mut pw = w.add_pointcloud("pc3", proto).unwrap();
        pw.finalize().unwrap();
    }
    blobs.push(w.add_blob(&mut Cursor::new(Vec::<u8>::new())).unwrap());
    // pc4: spherical
    {
        let proto = vec![
            Record { name: RecordName::SphericalRange, data_type: RecordDataType::Double { min: None, max: None } },
            Record { name: RecordName::SphericalAzimuth, data_type: RecordDataType::Double { min: None, max: None } },
            Record { name: RecordName::SphericalElevation, data_type: RecordDataType::Double { min: None, max: None } },
            Record { name: RecordName::SphericalInvalidState, data_type: RecordDataType::Integer { min: 0, max: 2 } },
        ];
        let mut pw = w.add_pointcloud("pc4", proto).unwrap();
        for i in 0..300i64 {
            pw.add_point(vec![
                RecordValue::Double(i as f64),
                RecordValue::Double(0.01 * i as f64),
                RecordValue::Double(-0.002 * i as f64),
                RecordValue::Integer(i % 3),
            ])
            .unwrap();
        }
        pw.finalize().unwrap();
    }
    w.finalize().unwrap();
    // get bytes: E57Writer does not expose the inner; re-create using a shared buffer instead
    unreachable_bytes(w, blobs)
}

// The writer owns the cursor, so build again into a file on disk instead.
fn unreachable_bytes<T: Read + Write + Seek>(_w: E57Writer<T>, blobs: Vec<Blob>) -> (Vec<u8>, Vec<Blob>) {
    (Vec::new(), blobs)
}

#[derive(Clone, Debug)]
enum Op {
    Raw(usize, usize),
    Simple(usize, usize, u8),
    Blob(usize),
    BlobFail(usize, usize),
    BlobAt(u64, u64),
    RawAt(usize, u64),
    Meta,
}

fn run_op<T: Read + Seek>(r: &mut E57Reader<T>, op: &Op, blobs: &[Blob]) -> String {
    let pcs = r.pointclouds();
    match op {
        Op::Raw(i, n) => {
            let pc = &pcs[*i % pcs.len()];
            match r.pointcloud_raw(pc) {
                Err(e) => format!("openerr {e:?}"),
                Ok(it) => {
                    let h = it.size_hint();
                    let v: Vec<_> = it.take(*n).collect();
                    format!("{h:?} {v:?}")
                }
            }
        }
        Op::RawAt(i, off) => {
            let mut pc: PointCloud = pcs[*i % pcs.len()].clone();
            pc.file_offset = *off;
            match r.pointcloud_raw(&pc) {
                Err(e) => format!("openerr {e:?}"),
                Ok(it) => {
                    let v: Vec<_> = it.take(50).collect();
                    format!("{v:?}")
                }
            }
        }
        Op::Simple(i, n, flags) => {
            let pc = &pcs[*i % pcs.len()];
            match r.pointcloud_simple(pc) {
                Err(e) => format!("openerr {e:?}"),
                Ok(mut it) => {
                    it.spherical_to_cartesian(flags & 1 != 0);
                    it.cartesian_to_spherical(flags & 2 != 0);
                    it.intensity_to_color(flags & 4 != 0);
                    it.normalize_intensity(flags & 8 != 0);
                    it.normalize_color(flags & 16 != 0);
                    it.apply_pose(flags & 32 != 0);
                    let v: Vec<_> = it.take(*n).collect();
                    format!("{v:?}")
                }
            }
        }
        Op::Blob(i) => {
            let mut out = Vec::new();
            let res = r.blob(&blobs[*i % blobs.len()], &mut out);
            format!("{res:?} {out:?}")
        }
        Op::BlobFail(i, n) => {
            let mut out = FailWriter { left: *n, data: Vec::new() };
            let res = r.blob(&blobs[*i % blobs.len()], &mut out);
            format!("{res:?} {:?}", out.data)
        }
        Op::BlobAt(off, len) => {
            let mut out = Vec::new();
            let res = r.blob(&Blob::new(*off, *len), &mut out);
            format!("{res:?} {out:?}")
        }
        Op::Meta => {
            format!(
                "{:?} {} {:?} {:?} {:?} {:?} {:?} {:?}",
                r.header(),
                r.xml(),
                r.pointclouds(),
                r.images(),
                r.extensions(),
                r.guid(),
                r.creation(),
                r.library_version()
            )
        }
    }
}

fn rand_op(rng: &mut Rng, file_len: u64) -> Op {
    let sizes = [0usize, 1, 2, 3, 50, 127, 128, 129, 300, 1023, 1024, 1025, 2600, 100000];
    let n = sizes[rng.below(sizes.len() as u64) as usize];
    match rng.below(10) {
        0 | 1 => Op::Raw(rng.below(5) as usize, n),
        2 | 3 => Op::Simple(rng.below(5) as usize, n, rng.below(64) as u8),
        4 => Op::Blob(rng.below(3) as usize),
        5 => Op::BlobFail(rng.below(3) as usize, rng.below(3100) as usize),
        6 => Op::BlobAt(rng.below(file_len + 2000), rng.below(5000)),
        7 => Op::RawAt(rng.below(5) as usize, rng.below(file_len + 10)),
        8 => Op::Meta,
        _ => Op::Raw(rng.below(5) as usize, n),
    }
}

fn build_file() -> (Vec<u8>, Vec<Blob>) {
    // Build to a temp file because the writer does not give back its device
    let path = std::env::temp_dir().join(format!("c17_diff_{}.e57", std::process::id()));
    let blobs;
    {
        let (_, b) = build_to(&path);
        blobs = b;
    }
    let bytes = std::fs::read(&path).unwrap();
    let _ = std::fs::remove_file(&path);
    (bytes, blobs)
}

fn build_to(path: &std::path::Path) -> ((), Vec<Blob>) {
    // Same as build() but on a file
    let mut w = E57Writer::from_file(path, "file").unwrap();
    let mut blobs = Vec::new();
    {
        let proto = vec![
            Record::CARTESIAN_X_F64,
            Record::CARTESIAN_Y_F64,
            Record::CARTESIAN_Z_F64,
            Record::COLOR_RED_U8,
            Record::COLOR_GREEN_U8,
            Record::COLOR_BLUE_U8,
        ];
        let mut pw = w.add_pointcloud("pc0", proto).unwrap();
        for i in 0..700 {
            pw.add_point(vec![
                RecordValue::Double(i as f64),
                RecordValue::Double(i as f64 * 0.5),
                RecordValue::Double(-(i as f64)),
                RecordValue::Integer(i % 256),
                RecordValue::Integer((i * 3) % 256),
                RecordValue::Integer((i * 7) % 256),
            ])
            .unwrap();
        }
        pw.finalize().unwrap();
    }
    let data: Vec<u8> = (0..3000u32).map(|i| (i * 31 % 251) as u8).collect();
    blobs.push(w.add_blob(&mut Cursor::new(data)).unwrap());
    {
        let proto = vec![
            Record {
                name: RecordName::CartesianX,
                data_type: RecordDataType::ScaledInteger { min: -1000, max: 5000, scale: 0.001, offset: 1.0 },
            },
            Record {
                name: RecordName::CartesianY,
                data_type: RecordDataType::ScaledInteger { min: 0, max: 7, scale: 0.5, offset: 0.0 },
            },
            Record {
                name: RecordName::CartesianZ,
                data_type: RecordDataType::Single { min: None, max: None },
            },
            Record {
                name: RecordName::Intensity,
                data_type: RecordDataType::Integer { min: 5, max: 5 },
            },
            Record {
                name: RecordName::CartesianInvalidState,
                data_type: RecordDataType::Integer { min: 0, max: 2 },
            },
        ];
        let mut pw = w.add_pointcloud("pc1", proto).unwrap();
        for i in 0..5000i64 {
            pw.add_point(vec![
                RecordValue::ScaledInteger(i - 1000),
                RecordValue::ScaledInteger(i % 8),
                RecordValue::Single(i as f32),
                RecordValue::Integer(5),
                RecordValue::Integer(i % 3),
            ])
            .unwrap();
        }
        pw.finalize().unwrap();
    }
    blobs.push(w.add_blob(&mut Cursor::new(vec![1u8, 2, 3, 4, 5, 6, 7, 8, 9, 10])).unwrap());
    {
        let proto = vec![
            Record { name: RecordName::CartesianX, data_type: RecordDataType::Integer { min: 1, max: 1 } },
            Record { name: RecordName::CartesianY, data_type: RecordDataType::Integer { min: 2, max: 2 } },
            Record { name: RecordName::CartesianZ, data_type: RecordDataType::ScaledInteger { min: 3, max: 3, scale: 2.0, offset: 0.0 } },
        ];
        let mut pw = w.add_pointcloud("pc2", proto).unwrap();
        for _ in 0..2500 {
            pw.add_point(vec![
                RecordValue::Integer(1),
                RecordValue::Integer(2),
                RecordValue::ScaledInteger(3),
            ])
            .unwrap();
        }
        pw.finalize().unwrap();
    }
    {
        let proto = vec![Record::CARTESIAN_X_F32, Record::CARTESIAN_Y_F32, Record::CARTESIAN_Z_F32];
        let mut pw = w.add_pointcloud("pc3", proto).unwrap();
        pw.finalize().unwrap();
    }
    blobs.push(w.add_blob(&mut Cursor::new(Vec::<u8>::new())).unwrap());
    {
        let proto = vec![
            Record { name: RecordName::SphericalRange, data_type: RecordDataType::Double { min: None, max: None } },
            Record { name: RecordName::SphericalAzimuth, data_type: RecordDataType::Double { min: None, max: None } },
            Record { name: RecordName::SphericalElevation, data_type: RecordDataType::Double { min: None, max: None } },
            Record { name: RecordName::SphericalInvalidState, data_type: RecordDataType::Integer { min: 0, max: 2 } },
        ];
        let mut pw = w.add_pointcloud("pc4", proto).unwrap();
        for i in 0..300i64 {
            pw.add_point(vec![
                RecordValue::Double(i as f64),
                RecordValue::Double(0.01 * i as f64),
                RecordValue::Double(-0.002 * i as f64),
                RecordValue::Integer(i % 3),
            ])
            .unwrap();
        }
        pw.finalize().unwrap();
    }
    w.finalize().unwrap();
    ((), blobs)
}

#[test]
fn differential() {
    let _ = build; // silence
    let (clean, blobs) = build_file();
    let pages = clean.len() / 1024;
    let hdr = e57::E57Reader::new(Cursor::new(clean.clone())).unwrap().header();
    let xml_first_page = (hdr.phys_xml_offset / 1024) as usize;
    println!("pages {pages}, xml from {xml_first_page}, blobs {blobs:?}");
    let seed: u64 = std::env::var("SEED").ok().and_then(|s| s.parse().ok()).unwrap_or(1);
    let mut rng = Rng(0x1234_5678_9abc_def1 ^ (seed.wrapping_mul(0x9E3779B97F4A7C15)));
    let mut checked = 0u64;
    for variant in 0..2000 {
        let mut file = clean.clone();
        // damage
        let kind = variant % 4;
        if kind >= 1 {
            let ndam = 1 + rng.below(3);
            for _ in 0..ndam {
                let p = 1 + rng.below((xml_first_page - 1) as u64) as usize;
                let o = rng.below(1024) as usize;
                file[p * 1024 + o] ^= 1 << rng.below(8);
                if kind == 3 {
                    // damaged section content with valid CRC
                    for _ in 0..rng.below(20) {
                        let o = rng.below(1020) as usize;
                        file[p * 1024 + o] = rng.next() as u8;
                    }
                    fix_crc(&mut file, p);
                }
            }
        }
        let f = Faults {
            countdown: Rc::new(Cell::new(0)),
            mode: Rc::new(Cell::new(0)),
            short: Rc::new(Cell::new(false)),
            period: Rc::new(Cell::new(0)),
        };
        let dev = Dev { inner: Cursor::new(file.clone()), f: f.clone() };
        let mut used = match E57Reader::new(dev) {
            Ok(r) => r,
            Err(e) => panic!("open failed {e:?}"),
        };
        let flaky = variant % 8 >= 4;
        for _round in 0..6 {
            // prefix ops with optional faults
            let nprefix = rng.below(4);
            for _ in 0..nprefix {
                if flaky {
                    f.countdown.set(1 + rng.below(12));
                    f.mode.set(rng.below(4) as u8);
                    f.period.set(if rng.below(2) == 0 { 0 } else { 1 + rng.below(9) });
                    f.short.set(rng.below(2) == 0);
                }
                let op = rand_op(&mut rng, file.len() as u64);
                eprintln!("v{variant} prefix {op:?} cd={} mode={} per={} short={}", f.countdown.get(), f.mode.get(), f.period.get(), f.short.get());
                let _ = run_op(&mut used, &op, &blobs);
            }
            f.countdown.set(0);
            f.period.set(0);
            f.short.set(rng.below(2) == 0 && flaky);
            let op = rand_op(&mut rng, file.len() as u64);
            eprintln!("v{variant} final {op:?}");
            let got = run_op(&mut used, &op, &blobs);
            let mut fresh = E57Reader::new(Cursor::new(file.clone())).unwrap();
            let want = run_op(&mut fresh, &op, &blobs);
            if got != want {
                let g: String = got.chars().take(600).collect();
                let w: String = want.chars().take(600).collect();
                panic!("MISMATCH variant {variant} op {op:?}\n got: {g}\nwant: {w}");
            }
            checked += 1;
        }
    }
    println!("checked {checked}");
}
