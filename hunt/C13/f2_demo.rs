// C13 demo 2: intensity limits that are BOTH given are silently ignored (and the range of
// the attribute's data type is used instead) when the two limit values are not of the same
// type or are scaled integers.
use e57::{
    E57Reader, E57Writer, IntensityLimits, Point, Record, RecordDataType, RecordName, RecordValue,
};
use std::io::Cursor;

fn roundtrip(
    data_type: RecordDataType,
    limits: IntensityLimits,
    values: Vec<RecordValue>,
) -> (e57::PointCloud, Vec<Point>) {
    let mut device = Cursor::new(Vec::new());
    {
        let mut writer = E57Writer::new(&mut device, "file-guid").unwrap();
        let proto = vec![
            Record::CARTESIAN_X_F32,
            Record::CARTESIAN_Y_F32,
            Record::CARTESIAN_Z_F32,
            Record {
                name: RecordName::Intensity,
                data_type,
            },
        ];
        let mut pcw = writer.add_pointcloud("pc-guid", proto).unwrap();
        pcw.set_intensity_limits(Some(limits));
        for v in values {
            pcw.add_point(vec![
                RecordValue::Single(1.0),
                RecordValue::Single(2.0),
                RecordValue::Single(3.0),
                v,
            ])
            .unwrap();
        }
        pcw.finalize().unwrap();
        writer.finalize().unwrap();
    }
    let mut reader = E57Reader::new(Cursor::new(device.into_inner())).unwrap();
    let pc = reader.pointclouds().remove(0);
    let iter = reader.pointcloud_simple(&pc).unwrap(); // normalisation is enabled by default
    let points = iter.collect::<e57::Result<Vec<Point>>>().unwrap();
    (pc, points)
}

/// Minimum given as single precision float, maximum as double precision float.
#[test]
fn limits_of_different_float_precision_are_used() {
    let (pc, points) = roundtrip(
        RecordDataType::Single {
            min: None,
            max: None,
        },
        IntensityLimits {
            intensity_min: Some(RecordValue::Single(0.0)),
            intensity_max: Some(RecordValue::Double(10.0)),
        },
        vec![
            RecordValue::Single(0.0),
            RecordValue::Single(2.5),
            RecordValue::Single(10.0),
        ],
    );

    // Both limits made it through the file and are visible to the caller
    let limits = pc.intensity_limits.as_ref().unwrap();
    assert_eq!(limits.intensity_min, Some(RecordValue::Single(0.0)));
    assert_eq!(limits.intensity_max, Some(RecordValue::Double(10.0)));

    // (value - 0) / (10 - 0)
    let got: Vec<f32> = points.iter().map(|p| p.intensity.unwrap()).collect();
    assert_eq!(got, vec![0.0, 0.25, 1.0]);
}

/// Minimum given as integer, maximum as float.
#[test]
fn integer_minimum_and_float_maximum_are_used() {
    let (_, points) = roundtrip(
        RecordDataType::U16,
        IntensityLimits {
            intensity_min: Some(RecordValue::Integer(0)),
            intensity_max: Some(RecordValue::Double(1000.0)),
        },
        vec![
            RecordValue::Integer(0),
            RecordValue::Integer(500),
            RecordValue::Integer(1000),
        ],
    );
    let got: Vec<f32> = points.iter().map(|p| p.intensity.unwrap()).collect();
    assert_eq!(got, vec![0.0, 0.5, 1.0]);
}

/// Scaled integer limits (raw 0..=500 of an attribute with scale 0.001, i.e. 0.0..=0.5).
#[test]
fn scaled_integer_limits_are_used() {
    let (_, points) = roundtrip(
        RecordDataType::ScaledInteger {
            min: 0,
            max: 1000,
            scale: 0.001,
            offset: 0.0,
        },
        IntensityLimits {
            intensity_min: Some(RecordValue::ScaledInteger(0)),
            intensity_max: Some(RecordValue::ScaledInteger(500)),
        },
        vec![
            RecordValue::ScaledInteger(0),
            RecordValue::ScaledInteger(500), // stored value 0.5 == the given maximum
        ],
    );
    let got: Vec<f32> = points.iter().map(|p| p.intensity.unwrap()).collect();
    assert_eq!(got[0], 0.0);
    // If the limit is understood as scaled value (0.5) the maximum must map to 1.0; if it is
    // understood as the plain number 500 the result would be 0.5 / 500 = 0.001.
    // The library delivers 0.5 because it normalises with the data type range 0.0..=1.0.
    assert!(
        got[1] == 1.0 || got[1] == 0.001,
        "limits were not used at all, got {}",
        got[1]
    );
}
