// C13 demo 1: with colour normalisation ENABLED the simple iterator delivers colour
// components far outside [0,1] when the colour comes from the intensity fallback
// (intensity_to_color, enabled by default) and intensity normalisation is disabled.
use e57::{E57Reader, E57Writer, Point, Record, RecordValue};
use std::io::Cursor;

fn build_file() -> Vec<u8> {
    let mut device = Cursor::new(Vec::new());
    {
        let mut writer = E57Writer::new(&mut device, "file-guid").unwrap();
        let proto = vec![
            Record::CARTESIAN_X_F32,
            Record::CARTESIAN_Y_F32,
            Record::CARTESIAN_Z_F32,
            Record::INTENSITY_U16, // Integer 0..=65535, no colour records at all
        ];
        let mut pcw = writer.add_pointcloud("pc-guid", proto).unwrap();
        for v in [0_i64, 1000, 40000, 65535] {
            pcw.add_point(vec![
                RecordValue::Single(1.0),
                RecordValue::Single(2.0),
                RecordValue::Single(3.0),
                RecordValue::Integer(v),
            ])
            .unwrap();
        }
        pcw.finalize().unwrap();
        writer.finalize().unwrap();
    }
    device.into_inner()
}

#[test]
fn colour_normalisation_enabled_but_components_not_in_unit_interval() {
    let bytes = build_file();
    let mut reader = E57Reader::new(Cursor::new(bytes)).unwrap();
    let pc = reader.pointclouds().remove(0);

    let mut iter = reader.pointcloud_simple(&pc).unwrap();
    iter.normalize_intensity(false); // caller wants the raw intensity ...
    iter.normalize_color(true); // ... but normalised colours (this is also the default)
    let points: Vec<Point> = iter.collect::<e57::Result<Vec<Point>>>().unwrap();
    assert_eq!(points.len(), 4);

    let stored = [0.0_f32, 1000.0, 40000.0, 65535.0];
    for (p, raw) in points.iter().zip(stored) {
        // Intensity normalisation is disabled: stored value unchanged as f32 (this part holds)
        assert_eq!(p.intensity, Some(raw));

        // Colour normalisation is enabled: every delivered colour component must be in [0,1]
        if let Some(c) = &p.color {
            for (name, comp) in [("red", c.red), ("green", c.green), ("blue", c.blue)] {
                assert!(
                    (0.0..=1.0).contains(&comp),
                    "colour normalisation is enabled but {name} = {comp} was delivered for stored intensity {raw}"
                );
            }
            // ... and equal to (value - min) / (max - min) of the value it was derived from
            assert_eq!(c.red, raw / 65535.0);
        }
    }
}
