// C13 demo 3: integer attributes and integer limits are converted to f64 BEFORE the
// subtraction, so for big integers (>= 2^53) a perfectly non-degenerate range collapses:
// the maximum is delivered as 0 instead of 1 and values in between jump between 0 and 1.
use e57::{E57Reader, E57Writer, Point, Record, RecordDataType, RecordName, RecordValue};
use std::io::Cursor;

fn normalised_intensities(min: i64, max: i64, values: &[i64]) -> Vec<f32> {
    let mut device = Cursor::new(Vec::new());
    {
        let mut writer = E57Writer::new(&mut device, "file-guid").unwrap();
        let proto = vec![
            Record::CARTESIAN_X_F32,
            Record::CARTESIAN_Y_F32,
            Record::CARTESIAN_Z_F32,
            Record {
                name: RecordName::Intensity,
                data_type: RecordDataType::Integer { min, max },
            },
        ];
        let mut pcw = writer.add_pointcloud("pc-guid", proto).unwrap();
        for v in values {
            pcw.add_point(vec![
                RecordValue::Single(1.0),
                RecordValue::Single(2.0),
                RecordValue::Single(3.0),
                RecordValue::Integer(*v),
            ])
            .unwrap();
        }
        pcw.finalize().unwrap();
        writer.finalize().unwrap();
    }
    let mut reader = E57Reader::new(Cursor::new(device.into_inner())).unwrap();
    let pc = reader.pointclouds().remove(0);

    // The stored values come back exactly, so this is not a storage problem
    let raw: Vec<i64> = reader
        .pointcloud_raw(&pc)
        .unwrap()
        .map(|p| p.unwrap()[3].to_i64(&pc.prototype[3].data_type).unwrap())
        .collect();
    assert_eq!(raw, values);

    let iter = reader.pointcloud_simple(&pc).unwrap(); // normalisation enabled by default
    let points = iter.collect::<e57::Result<Vec<Point>>>().unwrap();
    points.iter().map(|p| p.intensity.unwrap()).collect()
}

#[test]
fn one_at_the_maximum_of_a_two_value_range() {
    let min = 1_i64 << 53;
    let max = min + 1; // min != max, the range is not degenerate
    let got = normalised_intensities(min, max, &[min, max]);
    assert_eq!(got[0], 0.0, "0 at the minimum");
    assert_eq!(got[1], 1.0, "1 at the maximum");
}

#[test]
fn eight_bit_range_on_a_big_base_value() {
    let min = 1_i64 << 60;
    let max = min + 255;
    let values = [min, min + 64, min + 100, min + 127, min + 200, max];
    let got = normalised_intensities(min, max, &values);
    for (v, g) in values.iter().zip(&got) {
        let expected = ((v - min) as f64 / (max - min) as f64) as f32;
        assert!(
            (g - expected).abs() <= 1e-6,
            "value min+{}: expected {expected}, got {g}",
            v - min
        );
    }
}
