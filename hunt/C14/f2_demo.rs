// C14: every point read back must lie within the stored Cartesian bounds, which must be the
// exact minimum / maximum of the attribute as a real value.
// Integer typed Cartesian records above 2^53 are rounded to the NEAREST f64, so the stored
// maximum can be smaller (and the stored minimum bigger) than a point of the cloud.
use e57::{E57Reader, E57Writer, Record, RecordDataType, RecordName, RecordValue};
use std::io::Cursor;

#[test]
fn integer_cartesian_points_lie_inside_bounds() {
    let range = RecordDataType::Integer {
        min: i64::MIN,
        max: i64::MAX,
    };
    let prototype = vec![
        Record {
            name: RecordName::CartesianX,
            data_type: range.clone(),
        },
        Record {
            name: RecordName::CartesianY,
            data_type: range.clone(),
        },
        Record {
            name: RecordName::CartesianZ,
            data_type: range,
        },
    ];
    let big = (1_i64 << 53) + 1; // 9007199254740993, not representable as f64
    let points = vec![
        vec![
            RecordValue::Integer(big),
            RecordValue::Integer(-big),
            RecordValue::Integer(0),
        ],
        vec![
            RecordValue::Integer(5),
            RecordValue::Integer(-5),
            RecordValue::Integer(0),
        ],
    ];

    let mut cursor = Cursor::new(Vec::new());
    {
        let mut writer = E57Writer::new(&mut cursor, "file-guid").unwrap();
        let mut pc = writer.add_pointcloud("pc-guid", prototype).unwrap();
        for p in &points {
            pc.add_point(p.clone()).unwrap();
        }
        pc.finalize().unwrap();
        drop(pc);
        writer.finalize().unwrap();
    }

    let mut reader = E57Reader::new(Cursor::new(cursor.into_inner())).unwrap();
    let pc = reader.pointclouds().remove(0);
    let bounds = pc.cartesian_bounds.clone().unwrap();
    let x_max = bounds.x_max.unwrap();
    let y_min = bounds.y_min.unwrap();

    // f64 values of this magnitude are integers, so the conversion to i128 is exact
    for p in reader.pointcloud_raw(&pc).unwrap() {
        let p = p.unwrap();
        if let (RecordValue::Integer(x), RecordValue::Integer(y)) = (&p[0], &p[1]) {
            assert!(
                (*x as i128) <= (x_max as i128),
                "x={x} read back is above the stored xMaximum {x_max}"
            );
            assert!(
                (*y as i128) >= (y_min as i128),
                "y={y} read back is below the stored yMinimum {y_min}"
            );
        } else {
            panic!("unexpected value types");
        }
    }
}
