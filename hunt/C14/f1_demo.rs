// C14: default colour / intensity limits must equal the declared range of the attribute type.
// The writer silently drops ALL default limits as soon as one single end of one channel is undeclared.
use e57::{
    E57Reader, E57Writer, Record, RecordDataType, RecordName, RecordValue,
};
use std::io::Cursor;

fn write(prototype: Vec<Record>, points: Vec<Vec<RecordValue>>) -> Vec<u8> {
    let mut cursor = Cursor::new(Vec::new());
    {
        let mut writer = E57Writer::new(&mut cursor, "file-guid").unwrap();
        let mut pc = writer.add_pointcloud("pc-guid", prototype).unwrap();
        for p in points {
            pc.add_point(p).unwrap();
        }
        pc.finalize().unwrap();
        drop(pc);
        writer.finalize().unwrap();
    }
    cursor.into_inner()
}

#[test]
fn declared_red_and_blue_range_survives_unbounded_green() {
    // red and blue declare [0, 1], green is a plain f32 without declared limits
    let prototype = vec![
        Record::CARTESIAN_X_F64,
        Record::CARTESIAN_Y_F64,
        Record::CARTESIAN_Z_F64,
        Record::COLOR_RED_UNIT_F32,
        Record {
            name: RecordName::ColorGreen,
            data_type: RecordDataType::F32,
        },
        Record::COLOR_BLUE_UNIT_F32,
    ];
    let point = vec![
        RecordValue::Double(1.0),
        RecordValue::Double(2.0),
        RecordValue::Double(3.0),
        RecordValue::Single(0.5),
        RecordValue::Single(0.5),
        RecordValue::Single(0.5),
    ];
    let data = write(prototype, vec![point]);
    let reader = E57Reader::new(Cursor::new(data)).unwrap();
    let pc = reader.pointclouds().remove(0);

    // No override was given, so the limits of red and blue must be the declared range [0, 1]
    let limits = pc
        .color_limits
        .expect("colour limits missing although red and blue declare a range");
    assert_eq!(limits.red_min, Some(RecordValue::Single(0.0)));
    assert_eq!(limits.red_max, Some(RecordValue::Single(1.0)));
    assert_eq!(limits.blue_min, Some(RecordValue::Single(0.0)));
    assert_eq!(limits.blue_max, Some(RecordValue::Single(1.0)));
}

#[test]
fn declared_intensity_minimum_survives_missing_maximum() {
    // intensity declares only a minimum of zero
    let prototype = vec![
        Record::CARTESIAN_X_F64,
        Record::CARTESIAN_Y_F64,
        Record::CARTESIAN_Z_F64,
        Record {
            name: RecordName::Intensity,
            data_type: RecordDataType::Double {
                min: Some(0.0),
                max: None,
            },
        },
    ];
    let data = write(prototype, vec![]);
    let reader = E57Reader::new(Cursor::new(data)).unwrap();
    let pc = reader.pointclouds().remove(0);

    let limits = pc
        .intensity_limits
        .expect("intensity limits missing although the intensity type declares a minimum");
    assert_eq!(limits.intensity_min, Some(RecordValue::Double(0.0)));
}
