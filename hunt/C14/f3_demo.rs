// C14: every point read back lies within the stored bounds, for all non-NaN sequences
// including extreme ones. A cloud WITHOUT any pose that contains an infinite coordinate
// (non-NaN, extreme) gets correct bounds, but the simple iterator with its default settings
// multiplies the infinity with the zeros of an identity rotation and returns NaN coordinates.
use e57::{CartesianCoordinate, E57Reader, E57Writer, Record, RecordValue};
use std::io::Cursor;

#[test]
fn infinite_coordinate_is_read_back_inside_bounds() {
    let prototype = vec![
        Record::CARTESIAN_X_F64,
        Record::CARTESIAN_Y_F64,
        Record::CARTESIAN_Z_F64,
    ];
    let points = vec![
        vec![
            RecordValue::Double(1.0),
            RecordValue::Double(f64::INFINITY),
            RecordValue::Double(-2.0),
        ],
        vec![
            RecordValue::Double(-1.0),
            RecordValue::Double(0.0),
            RecordValue::Double(2.0),
        ],
    ];

    let mut cursor = Cursor::new(Vec::new());
    {
        let mut writer = E57Writer::new(&mut cursor, "file-guid").unwrap();
        let mut pc = writer.add_pointcloud("pc-guid", prototype).unwrap();
        for p in &points {
            pc.add_point(p.clone()).unwrap();
        }
        pc.finalize().unwrap();
        drop(pc);
        writer.finalize().unwrap();
    }

    let mut reader = E57Reader::new(Cursor::new(cursor.into_inner())).unwrap();
    let pc = reader.pointclouds().remove(0);
    assert!(pc.transform.is_none());
    let b = pc.cartesian_bounds.clone().unwrap();
    // The bounds themselves are right
    assert_eq!((b.x_min, b.x_max), (Some(-1.0), Some(1.0)));
    assert_eq!((b.y_min, b.y_max), (Some(0.0), Some(f64::INFINITY)));
    assert_eq!((b.z_min, b.z_max), (Some(-2.0), Some(2.0)));

    for p in reader.pointcloud_simple(&pc).unwrap() {
        let p = p.unwrap();
        if let CartesianCoordinate::Valid { x, y, z } = p.cartesian {
            assert!(
                x >= b.x_min.unwrap() && x <= b.x_max.unwrap(),
                "x={x} outside of stored bounds"
            );
            assert!(
                y >= b.y_min.unwrap() && y <= b.y_max.unwrap(),
                "y={y} outside of stored bounds"
            );
            assert!(
                z >= b.z_min.unwrap() && z <= b.z_max.unwrap(),
                "z={z} outside of stored bounds"
            );
        } else {
            panic!("point must be valid");
        }
    }
}
