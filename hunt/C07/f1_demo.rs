// Demo: E57Reader::raw_xml() uses the XML offset / XML length / page size fields of the file
// header WITHOUT validating the checksum of the page that holds the header (page 0).
// A single bit flip in the payload of page 0 therefore makes raw_xml() succeed with data
// that differs from what it returns on the unaltered file.

use e57::E57Reader;
use std::io::Cursor;

fn check(original: &[u8], altered: Vec<u8>, what: &str) {
    // Sanity: the alteration is detected by whole-file validation and by the normal reader,
    // so the page really is a page "whose stored checksum does not match its content".
    assert!(
        E57Reader::validate_crc(Cursor::new(altered.clone())).is_err(),
        "{what}: validate_crc must fail on the altered file"
    );
    assert!(
        E57Reader::new(Cursor::new(altered.clone())).is_err(),
        "{what}: E57Reader::new must fail on the altered file"
    );

    let expected = E57Reader::raw_xml(Cursor::new(original.to_vec())).unwrap();
    match E57Reader::raw_xml(Cursor::new(altered)) {
        Err(_) => {} // failing is fine
        Ok(got) => assert!(
            got == expected,
            "{what}: raw_xml succeeded on a file with a corrupted page 0 and returned {} bytes \
             that differ from the {} bytes of the unaltered file",
            got.len(),
            expected.len()
        ),
    }
}

#[test]
fn raw_xml_single_bit_flip_in_xml_length() {
    let original = std::fs::read("testdata/bunnyDouble.e57").unwrap();
    // XML length is the u64 at offset 32 of the header. Clear its lowest set bit.
    let len = u64::from_le_bytes(original[32..40].try_into().unwrap());
    let bit = len.trailing_zeros() as usize;
    let mut altered = original.clone();
    altered[32 + bit / 8] ^= 1 << (bit % 8);
    check(&original, altered, "single bit flip in header.xml_length");
}

#[test]
fn raw_xml_single_bit_flip_in_xml_offset() {
    let original = std::fs::read("testdata/bunnyDouble.e57").unwrap();
    // XML offset is the u64 at offset 24 of the header. Flip bit 0 (shifts the XML by one byte).
    let mut altered = original.clone();
    altered[24] ^= 1;
    check(&original, altered, "single bit flip in header.phys_xml_offset");
}
