// Demo: a single burst of 30 bits (4 consecutive bytes) that straddles the boundary between the
// payload and the stored checksum of a page is NOT detected. The CRC-32C value is stored
// big-endian, i.e. byte-reversed with respect to the bit order in which the (reflected) CRC
// polynomial division runs over the page, so the page is not a cyclic code word any more and the
// burst guarantee of the CRC does not hold across the payload/checksum boundary.
//
// The CRC is linear, so the same XOR pattern works on every page of every file:
//   page[1019] ^= 0x5D   (last payload byte)
//   page[1020] ^= 0xEE   (checksum byte 0)
//   page[1021] ^= 0x0D   (checksum byte 1)
//   page[1022] ^= 0x96   (checksum byte 2)
// First altered bit: bit 6 of byte 1019, last altered bit: bit 1 of byte 1022 -> 30 bits span.

use e57::E57Reader;
use std::io::Cursor;

const PATTERN: [u8; 4] = [0x5D, 0xEE, 0x0D, 0x96];

fn alter(file: &mut [u8], page: usize) {
    for (i, p) in PATTERN.iter().enumerate() {
        file[page * 1024 + 1019 + i] ^= p;
    }
}

#[test]
fn burst_over_payload_checksum_boundary_is_detected_by_validate_crc() {
    let original = std::fs::read("testdata/bunnyDouble.e57").unwrap();
    assert!(E57Reader::validate_crc(Cursor::new(original.clone())).is_ok());
    let pages = original.len() / 1024;
    for page in 0..pages {
        let mut altered = original.clone();
        alter(&mut altered, page);
        assert!(
            E57Reader::validate_crc(Cursor::new(altered)).is_err(),
            "one burst of 30 bits in page {page} was not detected by whole-file validation"
        );
    }
}

#[test]
fn burst_over_payload_checksum_boundary_never_yields_data() {
    let original = std::fs::read("testdata/bunnyDouble.e57").unwrap();
    let expected = E57Reader::raw_xml(Cursor::new(original.clone())).unwrap();

    // First page of the XML section, its last payload byte is part of the XML
    let xml_offset = u64::from_le_bytes(original[24..32].try_into().unwrap()) as usize;
    let page = xml_offset / 1024;
    let mut altered = original.clone();
    alter(&mut altered, page);

    match E57Reader::raw_xml(Cursor::new(altered)) {
        Err(_) => {} // failing is fine
        Ok(got) => assert!(
            got == expected,
            "XML read from a page altered by one 30 bit burst was handed to the caller"
        ),
    }
}
