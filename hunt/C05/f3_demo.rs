// C05 demo 3: the `apply_pose` switch (enabled by default) changes the Cartesian coordinates of
// point clouds that have NO pose at all (and of point clouds with the identity pose).
// The implementation multiplies every valid point with an identity matrix; the zero entries of
// that matrix turn an infinite (or NaN) coordinate of ONE axis into NaN values on the OTHER axes
// (0 * inf = NaN). The documented view is "value as stored" if there is nothing to apply.

use e57::{CartesianCoordinate, E57Reader, E57Writer, Point, Record, RecordValue};
use std::io::Cursor;

fn build_file() -> Vec<u8> {
    let mut device = Cursor::new(Vec::new());
    {
        let mut e57 = E57Writer::new(&mut device, "file_guid").unwrap();
        let prototype = vec![
            Record::CARTESIAN_X_F64,
            Record::CARTESIAN_Y_F64,
            Record::CARTESIAN_Z_F64,
        ];
        let mut pcw = e57.add_pointcloud("pc_guid", prototype).unwrap();
        // No call of set_transform(): the point cloud has no pose
        pcw.add_point(vec![
            RecordValue::Double(1.0),
            RecordValue::Double(f64::INFINITY),
            RecordValue::Double(2.0),
        ])
        .unwrap();
        pcw.add_point(vec![
            RecordValue::Double(4.0),
            RecordValue::Double(5.0),
            RecordValue::Double(6.0),
        ])
        .unwrap();
        pcw.finalize().unwrap();
        e57.finalize().unwrap();
    }
    device.into_inner()
}

fn read(apply_pose: bool) -> Vec<Point> {
    let mut reader = E57Reader::new(Cursor::new(build_file())).unwrap();
    let pc = reader.pointclouds().pop().unwrap();
    assert!(pc.transform.is_none(), "the file has no pose");
    let raw: Vec<_> = reader
        .pointcloud_raw(&pc)
        .unwrap()
        .collect::<e57::Result<Vec<_>>>()
        .unwrap();
    assert_eq!(raw[0][0], RecordValue::Double(1.0));
    assert_eq!(raw[0][1], RecordValue::Double(f64::INFINITY));
    assert_eq!(raw[0][2], RecordValue::Double(2.0));
    let mut iter = reader.pointcloud_simple(&pc).unwrap();
    iter.apply_pose(apply_pose);
    iter.collect::<e57::Result<Vec<Point>>>().unwrap()
}

#[test]
fn apply_pose_without_pose_keeps_the_stored_coordinates() {
    let expected = CartesianCoordinate::Valid {
        x: 1.0,
        y: f64::INFINITY,
        z: 2.0,
    };

    // Works when the switch is off
    let off = read(false);
    assert_eq!(off[0].cartesian, expected);

    // Default setting: there is no pose, so there is nothing that could change the values
    let on = read(true);
    println!("apply_pose(true): {:?}", on[0].cartesian);
    assert_eq!(on[1].cartesian, off[1].cartesian);
    assert_eq!(on[0].cartesian, expected);
}
