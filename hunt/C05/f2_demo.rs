// C05 demo 2: intensity (and colour) limits of type ScaledInteger are silently ignored by the
// simple iterator. The documentation of `Point::intensity` / `Color` says that the normalization
// uses the limits of the point cloud and that the range of the record data type is only the
// fallback "if there are no intensity limits" (the crate's own test says: "Normalized values
// should be according limits, not type range!"). That works for Integer, Single and Double limits,
// but for ScaledInteger limits the data type range is used instead.

use e57::{
    ColorLimits, E57Reader, E57Writer, IntensityLimits, Point, Record, RecordDataType, RecordName,
    RecordValue,
};
use std::io::Cursor;

fn scaled(name: RecordName, max: i64) -> Record {
    // scale 1 and offset 0: raw and scaled values are identical, so there is no doubt
    // about how the limit values have to be interpreted
    Record {
        name,
        data_type: RecordDataType::ScaledInteger {
            min: 0,
            max,
            scale: 1.0,
            offset: 0.0,
        },
    }
}

fn build_file() -> Vec<u8> {
    let mut device = Cursor::new(Vec::new());
    {
        let mut e57 = E57Writer::new(&mut device, "file_guid").unwrap();
        let prototype = vec![
            Record::CARTESIAN_X_F64,
            Record::CARTESIAN_Y_F64,
            Record::CARTESIAN_Z_F64,
            // A 12 bit sensor stored in 16 bit fields
            scaled(RecordName::Intensity, 65535),
            scaled(RecordName::ColorRed, 65535),
            scaled(RecordName::ColorGreen, 65535),
            scaled(RecordName::ColorBlue, 65535),
        ];
        let mut pcw = e57.add_pointcloud("pc_guid", prototype).unwrap();
        for v in [0_i64, 2048, 4096] {
            pcw.add_point(vec![
                RecordValue::Double(1.0),
                RecordValue::Double(2.0),
                RecordValue::Double(3.0),
                RecordValue::ScaledInteger(v),
                RecordValue::ScaledInteger(v),
                RecordValue::ScaledInteger(v),
                RecordValue::ScaledInteger(v),
            ])
            .unwrap();
        }
        let lo = Some(RecordValue::ScaledInteger(0));
        let hi = Some(RecordValue::ScaledInteger(4096));
        pcw.set_intensity_limits(Some(IntensityLimits {
            intensity_min: lo.clone(),
            intensity_max: hi.clone(),
        }));
        pcw.set_color_limits(Some(ColorLimits {
            red_min: lo.clone(),
            red_max: hi.clone(),
            green_min: lo.clone(),
            green_max: hi.clone(),
            blue_min: lo.clone(),
            blue_max: hi.clone(),
        }));
        pcw.finalize().unwrap();
        e57.finalize().unwrap();
    }
    device.into_inner()
}

#[test]
fn scaled_integer_limits_are_used_for_normalization() {
    let mut reader = E57Reader::new(Cursor::new(build_file())).unwrap();
    let pc = reader.pointclouds().pop().unwrap();

    // The limits are part of the metadata of the file that was read
    let limits = pc.intensity_limits.clone().unwrap();
    assert_eq!(limits.intensity_min, Some(RecordValue::ScaledInteger(0)));
    assert_eq!(limits.intensity_max, Some(RecordValue::ScaledInteger(4096)));
    assert_eq!(
        pc.color_limits.clone().unwrap().red_max,
        Some(RecordValue::ScaledInteger(4096))
    );

    let points: Vec<Point> = reader
        .pointcloud_simple(&pc)
        .unwrap()
        .collect::<e57::Result<Vec<Point>>>()
        .unwrap();
    assert_eq!(points.len(), 3);
    let intensities: Vec<f32> = points.iter().map(|p| p.intensity.unwrap()).collect();
    let reds: Vec<f32> = points.iter().map(|p| p.color.clone().unwrap().red).collect();
    println!("intensities: {intensities:?}, reds: {reds:?}");

    // Normalization with the limits 0..4096 (NOT with the data type range 0..65535)
    assert_eq!(intensities, vec![0.0, 0.5, 1.0]);
    assert_eq!(reds, vec![0.0, 0.5, 1.0]);
}
