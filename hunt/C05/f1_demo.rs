// C05 demo 1: after the simple iterator reported an out-of-set invalid-state value for ONE record,
// it "forgets" that this record was consumed. At the end of the point cloud it therefore tries to
// read a further packet behind the last one and reports additional failures (again and again, the
// iterator never ends), although the raw iterator reads the same file completely, without any
// failure, and ends after the last record.

use e57::{E57Reader, E57Writer, Extension, Record, RecordDataType, RecordName, RecordValue};
use std::io::Cursor;

/// Writes a file with five points whose `cartesianInvalidState` values are 0,0,3,0,0.
/// The state record is declared as Integer 0..3 (like files of other producers that declare
/// a wider range than needed), so the value 3 is a perfectly storable raw value.
fn build_file() -> Vec<u8> {
    let mut device = Cursor::new(Vec::new());
    {
        let mut e57 = E57Writer::new(&mut device, "file_guid").unwrap();
        e57.register_extension(Extension::new("demo", "http://example.com/demo"))
            .unwrap();
        let prototype = vec![
            Record::CARTESIAN_X_F64,
            Record::CARTESIAN_Y_F64,
            Record::CARTESIAN_Z_F64,
            Record {
                name: RecordName::Unknown {
                    namespace: "demo".into(),
                    name: "state".into(),
                },
                data_type: RecordDataType::Integer { min: 0, max: 3 },
            },
        ];
        let states = [0_i64, 0, 3, 0, 0];
        let mut pcw = e57.add_pointcloud("pc_guid", prototype).unwrap();
        for (i, s) in states.iter().enumerate() {
            pcw.add_point(vec![
                RecordValue::Double(i as f64),
                RecordValue::Double(10.0 + i as f64),
                RecordValue::Double(20.0 + i as f64),
                RecordValue::Integer(*s),
            ])
            .unwrap();
        }
        pcw.finalize().unwrap();
        // Rename the helper record into the standard invalid state record
        e57.finalize_customized_xml(|xml| {
            assert!(xml.contains("<demo:state ") && xml.contains("</demo:state>"));
            Ok(xml
                .replace("<demo:state ", "<cartesianInvalidState ")
                .replace("</demo:state>", "</cartesianInvalidState>"))
        })
        .unwrap();
    }
    device.into_inner()
}

#[test]
fn simple_iterator_ends_after_all_records_were_consumed() {
    let mut reader = E57Reader::new(Cursor::new(build_file())).unwrap();
    let pc = reader.pointclouds().pop().unwrap();
    assert_eq!(pc.records, 5);
    assert_eq!(pc.prototype[3].name, RecordName::CartesianInvalidState);

    // The raw iterator reads all five records without failure and ends
    let raw: Vec<_> = reader.pointcloud_raw(&pc).unwrap().collect();
    assert_eq!(raw.len(), 5);
    assert!(raw.iter().all(|r| r.is_ok()));
    assert_eq!(raw[2].as_ref().unwrap()[3], RecordValue::Integer(3));

    // The simple iterator may fail for record #2 (invalid state 3 is outside of 0..=2),
    // but nowhere else, and it must end after the five records.
    let items: Vec<_> = reader.pointcloud_simple(&pc).unwrap().take(12).collect();
    let pattern: String = items
        .iter()
        .map(|i| if i.is_ok() { 'P' } else { 'E' })
        .collect();
    for (i, item) in items.iter().enumerate() {
        if let Err(e) = item {
            println!("item {i}: {e}");
        }
    }
    assert_eq!(
        pattern, "PPEPP",
        "simple iterator must yield one item per record and fail only at the broken record"
    );
}
