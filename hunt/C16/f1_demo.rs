//! C16 demo 1: a single ordinary device error inside `PointCloudWriter::finalize()` is reported
//! by that call, but it leaves the page writer in an inconsistent state (device cursor, page
//! buffer and in-page offset no longer belong together). The following top-level
//! `E57Writer::finalize()` reports SUCCESS although the device does not hold a complete file:
//! a blob that was added successfully before is overwritten / the page grid is destroyed.

use e57::{E57Reader, E57Writer, RawValues, Record, RecordValue};
use std::cell::RefCell;
use std::io::{Cursor, Error, ErrorKind, Read, Result as IoResult, Seek, SeekFrom, Write};
use std::rc::Rc;

#[derive(Clone, Copy, PartialEq)]
enum Op {
    Read,
    Write,
}

struct Dev {
    cur: Cursor<Vec<u8>>,
    chunk: usize,
    // Fail the n-th (0-based) operation of the given type counted from the moment of arming, once.
    armed: Option<(Op, usize)>,
    injected: usize,
}

/// In-memory device with optional short transfers and exactly one injected error.
#[derive(Clone)]
struct Handle(Rc<RefCell<Dev>>);

impl Handle {
    fn new(chunk: usize) -> Self {
        Handle(Rc::new(RefCell::new(Dev {
            cur: Cursor::new(Vec::new()),
            chunk,
            armed: None,
            injected: 0,
        })))
    }
    fn arm(&self, op: Op, nth: usize) {
        self.0.borrow_mut().armed = Some((op, nth));
    }
    fn check(&self, op: Op) -> IoResult<()> {
        let mut d = self.0.borrow_mut();
        if let Some((o, n)) = d.armed {
            if o == op {
                if n == 0 {
                    d.armed = None;
                    d.injected += 1;
                    return Err(Error::new(ErrorKind::Other, "injected device error"));
                }
                d.armed = Some((o, n - 1));
            }
        }
        Ok(())
    }
    fn contents(&self) -> Vec<u8> {
        self.0.borrow().cur.get_ref().clone()
    }
    fn injected(&self) -> usize {
        self.0.borrow().injected
    }
}

impl Read for Handle {
    fn read(&mut self, buf: &mut [u8]) -> IoResult<usize> {
        self.check(Op::Read)?;
        let mut d = self.0.borrow_mut();
        let n = buf.len().min(d.chunk);
        d.cur.read(&mut buf[..n])
    }
}

impl Write for Handle {
    fn write(&mut self, buf: &[u8]) -> IoResult<usize> {
        self.check(Op::Write)?;
        let mut d = self.0.borrow_mut();
        let n = buf.len().min(d.chunk);
        d.cur.write(&buf[..n])
    }
    fn flush(&mut self) -> IoResult<()> {
        Ok(())
    }
}

impl Seek for Handle {
    fn seek(&mut self, pos: SeekFrom) -> IoResult<u64> {
        self.0.borrow_mut().cur.seek(pos)
    }
}

fn blob_data(len: usize) -> Vec<u8> {
    (0..len).map(|i| (i as u8).wrapping_mul(31).wrapping_add(7)).collect()
}

fn point(i: usize) -> RawValues {
    vec![
        RecordValue::Double(i as f64 + 0.5),
        RecordValue::Double(i as f64 * 2.0 + 0.5),
        RecordValue::Double(i as f64 * 3.0 + 0.5),
    ]
}

/// Writer program: one blob, then one point cloud whose finalize() is hit by the single
/// injected device error. The program reacts to the error by giving up on the point cloud
/// and completing the file with the top-level finalize().
/// Returns None if `nth` is beyond the last device operation of that type in pc.finalize().
fn scenario(chunk: usize, op: Op, nth: usize) -> Option<Result<(), String>> {
    let dev = Handle::new(chunk);
    let mut writer = E57Writer::new(dev.clone(), "file-guid").unwrap();

    let data = blob_data(1500);
    let blob = writer.add_blob(&mut Cursor::new(data.clone())).unwrap();

    let prototype = vec![
        Record::CARTESIAN_X_F64,
        Record::CARTESIAN_Y_F64,
        Record::CARTESIAN_Z_F64,
    ];
    let mut pc = writer.add_pointcloud("pc-guid", prototype).unwrap();
    for i in 0..300 {
        pc.add_point(point(i)).unwrap();
    }

    // The single injected device error happens inside this library call...
    dev.arm(op, nth);
    let pc_result = pc.finalize();
    if dev.injected() == 0 {
        return None;
    }
    // ... and the call in progress reports it (this part of the property holds).
    assert!(pc_result.is_err());
    drop(pc);

    // No further device errors from here on.
    let top = writer.finalize();
    drop(writer);

    if top.is_err() {
        // Refusing to complete the file is fine for the property.
        return Some(Ok(()));
    }

    // Top-level finalize reported success: the device must hold the complete file.
    Some(check_complete_file(dev.contents(), &blob, &data))
}

fn check_complete_file(bytes: Vec<u8>, blob: &e57::Blob, data: &[u8]) -> Result<(), String> {
    if bytes.len() % 1024 != 0 {
        return Err(format!(
            "file size {} is not a multiple of the page size",
            bytes.len()
        ));
    }
    let mut reader = E57Reader::new(Cursor::new(bytes))
        .map_err(|e| format!("the file cannot be opened: {e}"))?;
    let mut read_back = Vec::new();
    reader
        .blob(blob, &mut read_back)
        .map_err(|e| format!("the successfully added blob cannot be read: {e}"))?;
    if read_back != data {
        return Err("the successfully added blob was overwritten".to_string());
    }
    for pc in reader.pointclouds() {
        let iter = reader
            .pointcloud_raw(&pc)
            .map_err(|e| format!("a listed point cloud cannot be opened: {e}"))?;
        for p in iter {
            p.map_err(|e| format!("a listed point cloud cannot be read: {e}"))?;
        }
    }
    Ok(())
}

/// Runs the scenario for every position of the error among the operations of the given type.
fn exhaustive(chunk: usize, op: Op) {
    let mut violations = Vec::new();
    let mut nth = 0;
    while let Some(result) = scenario(chunk, op, nth) {
        if let Err(msg) = result {
            violations.push(format!(
                "error at device op #{nth} of pc.finalize(): top-level finalize() returned Ok but {msg}"
            ));
        }
        nth += 1;
    }
    assert!(nth > 0);
    assert!(
        violations.is_empty(),
        "{} of {nth} error positions violate the property:\n{}",
        violations.len(),
        violations.join("\n")
    );
}

/// Full-size transfers, single device READ error. The bad position is the read that re-loads
/// the page holding the section header (`PagedWriter::physical_seek` -> `read_current_page`).
#[test]
fn read_error_in_pointcloud_finalize_then_top_level_finalize() {
    exhaustive(usize::MAX, Op::Read);
}

/// Short transfers of at most 300 bytes, single device WRITE error. If the error hits a later
/// chunk of a page, a partial page is left on the device and the cursor is no longer aligned.
#[test]
fn write_error_with_short_writes_then_top_level_finalize() {
    exhaustive(300, Op::Write);
}
