//! C16 demo 3: "whenever top-level finalize reports success the device holds the complete file".
//! After a successful `E57Writer::finalize()` the page writer is left positioned inside the file
//! header (physical offset 48 of page 0). A second `finalize()` call (no device fault needed, any
//! chunking) writes the XML right there, over the binary sections that follow the header, points
//! the header to it and reports SUCCESS. The file that was complete is now broken.

use e57::{E57Reader, E57Writer, RawValues, Record, RecordValue};
use std::io::Cursor;

fn point(i: usize) -> RawValues {
    vec![
        RecordValue::Double(i as f64 + 0.5),
        RecordValue::Double(i as f64 * 2.0 + 0.5),
        RecordValue::Double(i as f64 * 3.0 + 0.5),
    ]
}

fn check_complete_file(bytes: &[u8], blob: &e57::Blob, data: &[u8]) -> Result<(), String> {
    let mut reader = E57Reader::new(Cursor::new(bytes.to_vec()))
        .map_err(|e| format!("the file cannot be opened: {e}"))?;
    let mut read_back = Vec::new();
    reader
        .blob(blob, &mut read_back)
        .map_err(|e| format!("the blob cannot be read: {e}"))?;
    if read_back != data {
        return Err("the blob content differs from what was written".to_string());
    }
    let pcs = reader.pointclouds();
    if pcs.len() != 1 {
        return Err(format!("expected one point cloud, found {}", pcs.len()));
    }
    let iter = reader
        .pointcloud_raw(&pcs[0])
        .map_err(|e| format!("the point cloud cannot be opened: {e}"))?;
    let mut count = 0;
    for (i, p) in iter.enumerate() {
        let p = p.map_err(|e| format!("point {i} cannot be read: {e}"))?;
        if p != point(i) {
            return Err(format!("point {i} differs from what was written"));
        }
        count += 1;
    }
    if count != 100 {
        return Err(format!("expected 100 points, got {count}"));
    }
    Ok(())
}

#[test]
fn second_successful_finalize_must_not_break_the_file() {
    let mut device = Cursor::new(Vec::new());
    let data: Vec<u8> = (0..1500).map(|i| (i % 251) as u8).collect();

    let mut writer = E57Writer::new(&mut device, "file-guid").unwrap();
    let blob = writer.add_blob(&mut Cursor::new(data.clone())).unwrap();
    let prototype = vec![
        Record::CARTESIAN_X_F64,
        Record::CARTESIAN_Y_F64,
        Record::CARTESIAN_Z_F64,
    ];
    let mut pc = writer.add_pointcloud("pc-guid", prototype).unwrap();
    for i in 0..100 {
        pc.add_point(point(i)).unwrap();
    }
    pc.finalize().unwrap();
    drop(pc);

    // First finalize: success, and the device really holds the complete file.
    writer.finalize().unwrap();

    // Second finalize: the property allows an error, or success with a complete file.
    let second = writer.finalize();
    drop(writer);

    let bytes = device.into_inner();
    if second.is_ok() {
        if let Err(msg) = check_complete_file(&bytes, &blob, &data) {
            panic!("the second finalize() returned Ok but the device does not hold the complete file: {msg}");
        }
    }
}

#[test]
fn sanity_first_finalize_gives_complete_file() {
    let mut device = Cursor::new(Vec::new());
    let data: Vec<u8> = (0..1500).map(|i| (i % 251) as u8).collect();
    let mut writer = E57Writer::new(&mut device, "file-guid").unwrap();
    let blob = writer.add_blob(&mut Cursor::new(data.clone())).unwrap();
    let prototype = vec![
        Record::CARTESIAN_X_F64,
        Record::CARTESIAN_Y_F64,
        Record::CARTESIAN_Z_F64,
    ];
    let mut pc = writer.add_pointcloud("pc-guid", prototype).unwrap();
    for i in 0..100 {
        pc.add_point(point(i)).unwrap();
    }
    pc.finalize().unwrap();
    drop(pc);
    writer.finalize().unwrap();
    drop(writer);
    check_complete_file(&device.into_inner(), &blob, &data).unwrap();
}
