//! C16 demo 2: the device reports a single error of kind `ErrorKind::Interrupted` on a READ
//! (or on a SEEK) that the page writer issues from inside its `Write::write` implementation.
//! The error escapes from `PagedWriter::write` AFTER the bytes of the caller were already
//! consumed into the page, the surrounding `write_all` / `std::io::copy` treats `Interrupted`
//! as "nothing happened" and passes the same bytes again. Result: no library call reports an
//! error, top-level finalize() reports success, and the file contains duplicated bytes.

use e57::{E57Reader, E57Writer};
use std::cell::RefCell;
use std::io::{Cursor, Error, ErrorKind, Read, Result as IoResult, Seek, SeekFrom, Write};
use std::rc::Rc;

#[derive(Clone, Copy, PartialEq, Debug)]
enum Op {
    Read,
    Seek,
}

struct Dev {
    cur: Cursor<Vec<u8>>,
    // Fail the n-th (0-based) operation of the given type counted from the moment of arming, once.
    armed: Option<(Op, usize)>,
    injected: usize,
}

/// In-memory device with exactly one injected error.
#[derive(Clone)]
struct Handle(Rc<RefCell<Dev>>);

impl Handle {
    fn new() -> Self {
        Handle(Rc::new(RefCell::new(Dev {
            cur: Cursor::new(Vec::new()),
            armed: None,
            injected: 0,
        })))
    }
    fn arm(&self, op: Op, nth: usize) {
        self.0.borrow_mut().armed = Some((op, nth));
    }
    fn check(&self, op: Op) -> IoResult<()> {
        let mut d = self.0.borrow_mut();
        if let Some((o, n)) = d.armed {
            if o == op {
                if n == 0 {
                    d.armed = None;
                    d.injected += 1;
                    return Err(Error::new(ErrorKind::Interrupted, "injected EINTR"));
                }
                d.armed = Some((o, n - 1));
            }
        }
        Ok(())
    }
    fn contents(&self) -> Vec<u8> {
        self.0.borrow().cur.get_ref().clone()
    }
    fn injected(&self) -> usize {
        self.0.borrow().injected
    }
}

impl Read for Handle {
    fn read(&mut self, buf: &mut [u8]) -> IoResult<usize> {
        self.check(Op::Read)?;
        self.0.borrow_mut().cur.read(buf)
    }
}

impl Write for Handle {
    fn write(&mut self, buf: &[u8]) -> IoResult<usize> {
        self.0.borrow_mut().cur.write(buf)
    }
    fn flush(&mut self) -> IoResult<()> {
        Ok(())
    }
}

impl Seek for Handle {
    fn seek(&mut self, pos: SeekFrom) -> IoResult<u64> {
        self.check(Op::Seek)?;
        self.0.borrow_mut().cur.seek(pos)
    }
}

fn blob_data(len: usize) -> Vec<u8> {
    (0..len).map(|i| (i % 251) as u8).collect()
}

/// Returns None if `nth` is beyond the last device operation of that type in add_blob().
fn scenario(op: Op, nth: usize) -> Option<Result<(), String>> {
    let dev = Handle::new();
    let mut writer = E57Writer::new(dev.clone(), "file-guid").unwrap();

    // The single injected device error happens inside add_blob().
    let data = blob_data(3000);
    dev.arm(op, nth);
    let blob = writer.add_blob(&mut Cursor::new(data.clone()));
    if dev.injected() == 0 {
        return None;
    }
    let blob = match blob {
        // Reporting the device error is what the property asks for.
        Err(_) => return Some(Ok(())),
        Ok(blob) => blob,
    };
    if writer.finalize().is_err() {
        return Some(Ok(()));
    }
    drop(writer);

    // Neither add_blob() nor finalize() reported anything: the device must hold the complete file.
    let mut reader = match E57Reader::new(Cursor::new(dev.contents())) {
        Ok(reader) => reader,
        Err(e) => return Some(Err(format!("the file cannot be opened: {e}"))),
    };
    let mut read_back = Vec::new();
    if let Err(e) = reader.blob(&blob, &mut read_back) {
        return Some(Err(format!("the blob cannot be read: {e}")));
    }
    if read_back != data {
        let first = read_back.iter().zip(&data).position(|(a, b)| a != b);
        return Some(Err(format!(
            "the blob content differs from what was written, first difference at byte {first:?}"
        )));
    }
    Some(Ok(()))
}

fn exhaustive(op: Op) {
    let mut violations = Vec::new();
    let mut nth = 0;
    while let Some(result) = scenario(op, nth) {
        if let Err(msg) = result {
            violations.push(format!(
                "Interrupted at {op:?} #{nth} of add_blob(): add_blob() and finalize() returned Ok but {msg}"
            ));
        }
        nth += 1;
    }
    assert!(nth > 0);
    assert!(
        violations.is_empty(),
        "{} of {nth} error positions violate the property:\n{}",
        violations.len(),
        violations.join("\n")
    );
}

#[test]
fn interrupted_device_read_while_writing() {
    exhaustive(Op::Read);
}

#[test]
fn interrupted_device_seek_while_writing() {
    exhaustive(Op::Seek);
}
