//! C02 demo 3: `register_extension` accepts namespace URLs that make the generated XML violate
//! "Namespaces in XML 1.0":
//!  (a) an empty URL produces `xmlns:ext=""` (constraint "No Prefix Undeclaring": the value of a
//!      prefixed namespace declaration MUST NOT be empty), strict parsers (libxml2, Xerces, expat) reject it;
//!  (b) the reserved names http://www.w3.org/XML/1998/namespace and http://www.w3.org/2000/xmlns/
//!      get bound to the prefix `ext` (constraint "Reserved Prefixes and Namespace Names"),
//!      even the lenient parser used by this crate refuses such a document.
//! All writer calls succeed in both cases.

use e57::{E57Reader, E57Writer, Extension, Record, RecordDataType, RecordName};
use std::io::Cursor;

/// Returns None if the writer refuses the URL (which would be acceptable behaviour).
fn write_with_extension_url(url: &str) -> Option<Vec<u8>> {
    let mut device = Cursor::new(Vec::new());
    {
        let mut writer = E57Writer::new(&mut device, "file-guid").ok()?;
        writer.register_extension(Extension::new("ext", url)).ok()?;
        let prototype = vec![
            Record::CARTESIAN_X_F32,
            Record::CARTESIAN_Y_F32,
            Record::CARTESIAN_Z_F32,
            Record {
                name: RecordName::Unknown {
                    namespace: "ext".to_owned(),
                    name: "quality".to_owned(),
                },
                data_type: RecordDataType::U8,
            },
        ];
        let mut pc = writer.add_pointcloud("pc-guid", prototype).ok()?;
        pc.finalize().ok()?;
        writer.finalize().ok()?;
    }
    Some(device.into_inner())
}

#[test]
fn empty_extension_url_is_not_written_as_empty_prefix_declaration() {
    let Some(bytes) = write_with_extension_url("") else {
        return; // rejected: fine
    };
    let xml = String::from_utf8(E57Reader::raw_xml(Cursor::new(bytes)).unwrap()).unwrap();
    assert!(
        !xml.contains("xmlns:ext=\"\""),
        "the finalized file declares xmlns:ext=\"\", which is not namespace-well-formed \
         (Namespaces in XML 1.0, NSC: No Prefix Undeclaring) and leaves <ext:quality> without a namespace"
    );
}

#[test]
fn reserved_namespace_names_are_not_bound_to_an_extension_prefix() {
    for url in [
        "http://www.w3.org/XML/1998/namespace",
        "http://www.w3.org/2000/xmlns/",
    ] {
        let Some(bytes) = write_with_extension_url(url) else {
            continue; // rejected: fine
        };
        let reader = E57Reader::new(Cursor::new(bytes));
        assert!(
            reader.is_ok(),
            "all writer calls succeeded for extension URL {url:?} but the XML is not namespace-correct: {}",
            reader.err().map(|e| e.to_string()).unwrap_or_default()
        );
    }
}
