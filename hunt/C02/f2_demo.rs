//! C02 demo 2: metadata strings are copied verbatim into CDATA sections.
//!  (a) characters that XML 1.0 forbids (U+0000-U+0008, U+000B, U+000C, U+000E-U+001F, U+FFFE, U+FFFF)
//!      make the XML section not well-formed although every writer call succeeded;
//!  (b) a carriage return is written as a literal 0x0D byte, which every conforming XML parser
//!      replaces by a line feed (XML 1.0, 2.11 End-of-Line Handling), so the decoded metadata
//!      differs from what was handed to the writer.

use e57::{E57Reader, E57Writer, Record};
use std::io::Cursor;

/// Writes a file with one empty point cloud that carries the given name.
/// Returns None if the writer refuses the string (which would be acceptable behaviour).
fn write_with_name(name: &str) -> Option<Vec<u8>> {
    let mut device = Cursor::new(Vec::new());
    {
        let mut writer = E57Writer::new(&mut device, "file-guid").ok()?;
        let prototype = vec![
            Record::CARTESIAN_X_F32,
            Record::CARTESIAN_Y_F32,
            Record::CARTESIAN_Z_F32,
        ];
        let mut pc = writer.add_pointcloud("pc-guid", prototype).ok()?;
        pc.set_name(Some(name.to_owned()));
        pc.finalize().ok()?;
        writer.finalize().ok()?;
    }
    Some(device.into_inner())
}

/// XML 1.0 production [2] Char
fn is_xml_char(c: char) -> bool {
    matches!(c, '\u{9}' | '\u{A}' | '\u{D}' | '\u{20}'..='\u{D7FF}' | '\u{E000}'..='\u{FFFD}' | '\u{10000}'..='\u{10FFFF}')
}

#[test]
fn control_character_in_name_keeps_xml_well_formed() {
    for name in ["scan\u{1}A", "scan\u{0}A", "scan\u{1b}[0m", "scan\u{FFFE}A"] {
        let Some(bytes) = write_with_name(name) else {
            continue; // rejected by the writer: fine
        };
        // Independent check: every character of the XML section must match the XML Char production
        let xml = E57Reader::raw_xml(Cursor::new(bytes.clone())).unwrap();
        let xml = String::from_utf8(xml).unwrap();
        let bad = xml.chars().find(|c| !is_xml_char(*c));
        assert!(
            bad.is_none(),
            "finalize succeeded for name {name:?} but the XML contains the forbidden character {:?}: not well-formed",
            bad
        );
        // And the metadata must come back
        let reader = E57Reader::new(Cursor::new(bytes)).expect("successfully finalized file must be readable");
        assert_eq!(reader.pointclouds()[0].name.as_deref(), Some(name));
    }
}

#[test]
fn carriage_return_in_name_survives() {
    for name in ["line1\rline2", "line1\r\nline2"] {
        let Some(bytes) = write_with_name(name) else {
            continue; // rejected by the writer: fine
        };
        // Independent check: a literal CR in the XML text can never be seen by an XML application,
        // it has to be written as the character reference &#13; outside of CDATA.
        let xml = E57Reader::raw_xml(Cursor::new(bytes.clone())).unwrap();
        assert!(
            !xml.contains(&b'\r'),
            "XML section contains a literal carriage return for name {name:?}, XML parsers turn it into a line feed"
        );
        let reader = E57Reader::new(Cursor::new(bytes)).unwrap();
        assert_eq!(
            reader.pointclouds()[0].name.as_deref(),
            Some(name),
            "name read back differs from the name handed to the writer"
        );
    }
}
