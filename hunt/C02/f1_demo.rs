//! C02 demo 1: a second successful `E57Writer::finalize()` (or more content followed by another
//! successful finalize) overwrites the binary sections that start at physical offset 48.
//!
//! Every call below returns Ok, so the file "was finalized successfully", but the XML still
//! publishes fileOffset=48 for the point cloud while the bytes there now hold XML text / other data.

use e57::{E57Reader, E57Writer, RawValues, Record, RecordDataType, RecordName, RecordValue, Result};
use std::io::Cursor;

fn prototype() -> Vec<Record> {
    let dt = RecordDataType::Integer { min: 0, max: 1023 };
    vec![
        Record { name: RecordName::CartesianX, data_type: dt.clone() },
        Record { name: RecordName::CartesianY, data_type: dt.clone() },
        Record { name: RecordName::CartesianZ, data_type: dt },
    ]
}

fn points() -> Vec<RawValues> {
    (0..100)
        .map(|i| {
            vec![
                RecordValue::Integer(i),
                RecordValue::Integer(1023 - i),
                RecordValue::Integer((i * 7) % 1024),
            ]
        })
        .collect()
}

/// Minimal independent look at the result: header fields, the section the XML points to, the points.
fn check_file(bytes: &[u8], expected: &[RawValues]) {
    assert_eq!(bytes.len() % 1024, 0, "file is not a whole number of pages");
    let u64_at = |o: usize| u64::from_le_bytes(bytes[o..o + 8].try_into().unwrap());
    assert_eq!(u64_at(16), bytes.len() as u64, "header file length is wrong");
    let xml_offset = u64_at(24);

    let mut reader = E57Reader::new(Cursor::new(bytes.to_vec())).expect("finalized file must open");
    let pcs = reader.pointclouds();
    assert_eq!(pcs.len(), 1);
    let pc = &pcs[0];
    let off = pc.file_offset as usize;

    // The published offset must land on a compressed vector section header (section id 1) ...
    assert_eq!(
        bytes[off], 1,
        "points fileOffset={off} does not land on a compressed vector section header (byte there is {:#x} = {:?})",
        bytes[off], bytes[off] as char
    );
    // ... and the XML section must not start inside that section.
    let section_length = u64_at(off + 8);
    assert!(
        xml_offset >= off as u64 + section_length,
        "XML offset {xml_offset} lies inside the point cloud section at {off} with logical length {section_length}"
    );

    let got: Result<Vec<RawValues>> = reader.pointcloud_raw(pc).expect("section must open").collect();
    assert_eq!(got.expect("points must decode"), expected, "decoded points differ");
}

#[test]
fn finalize_twice_keeps_file_intact() {
    let mut device = Cursor::new(Vec::new());
    {
        let mut writer = E57Writer::new(&mut device, "file-guid").unwrap();
        let mut pc = writer.add_pointcloud("pc-guid", prototype()).unwrap();
        for p in points() {
            pc.add_point(p).unwrap();
        }
        pc.finalize().unwrap();
        writer.finalize().expect("first finalize");
        if writer.finalize().is_err() {
            return; // refusing the second call would be fine, the property only covers successes
        }
    }
    check_file(&device.into_inner(), &points());
}

#[test]
fn finalize_add_blob_finalize_keeps_file_intact() {
    let mut device = Cursor::new(Vec::new());
    let blob_data = vec![0xAB_u8; 300];
    let blob;
    {
        let mut writer = E57Writer::new(&mut device, "file-guid").unwrap();
        let mut pc = writer.add_pointcloud("pc-guid", prototype()).unwrap();
        for p in points() {
            pc.add_point(p).unwrap();
        }
        pc.finalize().unwrap();
        writer.finalize().expect("first finalize");
        blob = match writer.add_blob(&mut Cursor::new(blob_data.clone())) {
            Ok(b) => b,
            Err(_) => return, // refusing to add content after finalize would be fine
        };
        if writer.finalize().is_err() {
            return;
        }
    }
    let bytes = device.into_inner();
    assert_ne!(
        blob.offset, 48,
        "blob section was placed at offset 48, on top of the already written point cloud section"
    );
    check_file(&bytes, &points());
    let mut reader = E57Reader::new(Cursor::new(bytes)).unwrap();
    let mut out = Vec::new();
    reader.blob(&blob, &mut out).unwrap();
    assert_eq!(out, blob_data);
}
