use e57::{E57Reader, RecordValue};
use std::io::Cursor;

// ---------- minimal independent E57 encoder (spec driven, no crate internals) ----------

fn crc32c(data: &[u8]) -> u32 {
    let mut crc: u32 = !0;
    for b in data {
        crc ^= *b as u32;
        for _ in 0..8 {
            crc = if crc & 1 != 0 { (crc >> 1) ^ 0x82F6_3B78 } else { crc >> 1 };
        }
    }
    !crc
}

/// Physical offset for a logical offset (1020 payload bytes + 4 CRC bytes per 1024 byte page)
fn phys(logical: u64) -> u64 {
    logical + 4 * (logical / 1020)
}

/// Builds a complete E57 file with one point cloud (one double attribute, values 0.0, 1.0, 2.0).
/// `make_xml` receives the physical offset of the compressed vector section.
fn build_file(make_xml: impl Fn(u64) -> String) -> Vec<u8> {
    let mut log = vec![0u8; 48]; // file header, filled in below

    // compressed vector section: 32 byte header + one data packet
    let cv_start = log.len() as u64;
    let mut packet = vec![1u8, 0, 0, 0, 1, 0]; // type=data, flags, length-1 (later), 1 bytestream
    packet.extend_from_slice(&24u16.to_le_bytes()); // bytestream length
    for i in 0..3 {
        packet.extend_from_slice(&(i as f64).to_le_bytes());
    }
    assert_eq!(packet.len() % 4, 0);
    let len_m1 = (packet.len() - 1) as u16;
    packet[2..4].copy_from_slice(&len_m1.to_le_bytes());
    let mut cv = vec![0u8; 32];
    cv[0] = 1;
    cv[8..16].copy_from_slice(&(32 + packet.len() as u64).to_le_bytes());
    cv[16..24].copy_from_slice(&phys(cv_start + 32).to_le_bytes());
    log.extend_from_slice(&cv);
    log.extend_from_slice(&packet);

    // XML section
    let xml = make_xml(phys(cv_start));
    let xml_start = log.len() as u64;
    log.extend_from_slice(xml.as_bytes());
    while log.len() % 1020 != 0 {
        log.push(0);
    }

    // file header
    let phys_len = (log.len() / 1020 * 1024) as u64;
    log[0..8].copy_from_slice(b"ASTM-E57");
    log[8..12].copy_from_slice(&1u32.to_le_bytes());
    log[12..16].copy_from_slice(&0u32.to_le_bytes());
    log[16..24].copy_from_slice(&phys_len.to_le_bytes());
    log[24..32].copy_from_slice(&phys(xml_start).to_le_bytes());
    log[32..40].copy_from_slice(&(xml.len() as u64).to_le_bytes());
    log[40..48].copy_from_slice(&1024u64.to_le_bytes());

    // CRC page layer
    let mut out = Vec::new();
    for page in log.chunks(1020) {
        out.extend_from_slice(page);
        out.extend_from_slice(&crc32c(page).to_be_bytes());
    }
    out
}

/// XML with `root_extra` inside e57Root and `pc_extra` inside the data3D child.
fn xml(cv_offset: u64, root_extra: &str, pc_extra: &str) -> String {
    format!(
        r#"<?xml version="1.0" encoding="UTF-8"?>
<e57Root type="Structure" xmlns="http://www.astm.org/COMMIT/E57/2010-e57-v1.0">
<formatName type="String">ASTM E57 3D Imaging Data File</formatName>
<guid type="String">{{FILE-GUID}}</guid>
<versionMajor type="Integer">1</versionMajor>
<versionMinor type="Integer">0</versionMinor>
{root_extra}
<data3D type="Vector" allowHeterogeneousChildren="1">
<vectorChild type="Structure">
<guid type="String">{{SCAN-GUID}}</guid>
{pc_extra}
<points type="CompressedVector" fileOffset="{cv_offset}" recordCount="3">
<prototype type="Structure">
<cartesianX type="Float"/>
</prototype>
<codecs type="Vector" allowHeterogeneousChildren="1"/>
</points>
</vectorChild>
</data3D>
<images2D type="Vector" allowHeterogeneousChildren="1"/>
</e57Root>
"#
    )
}

/// Sanity check used by every test: the points of the file are readable and correct.
fn check_points(reader: &mut E57Reader<Cursor<Vec<u8>>>) {
    let pc = reader.pointclouds()[0].clone();
    let pts: Vec<_> = reader
        .pointcloud_raw(&pc)
        .unwrap()
        .collect::<Result<Vec<_>, _>>()
        .unwrap();
    assert_eq!(pts.len(), 3);
    assert_eq!(pts[2][0], RecordValue::Double(2.0));
}

/// Control: no white space around the numbers.
#[test]
fn control_without_white_space() {
    let file = build_file(|off| xml(off, "", "<temperature type=\"Float\">20.5</temperature>"));
    let mut r = E57Reader::new(Cursor::new(file)).unwrap();
    check_points(&mut r);
    assert_eq!(r.pointclouds()[0].temperature, Some(20.5));
}

/// White space around the lexical form of a number (xsd:integer / xsd:double have the
/// whiteSpace facet "collapse", the E57 reference implementation parses with strtoll/strtod).
/// Typical for pretty-printed XML. The crate itself trims isAtomicClockReferenced but nothing else.
#[test]
fn white_space_around_numeric_element_text() {
    let file = build_file(|off| {
        xml(
            off,
            "",
            "<temperature type=\"Float\">\n  20.5\n</temperature>\n\
             <indexBounds type=\"Structure\"><rowMaximum type=\"Integer\"> 3 </rowMaximum></indexBounds>\n\
             <pose type=\"Structure\"><translation type=\"Structure\">\
             <x type=\"Float\"> 1.5</x><y type=\"Float\">2.5 </y><z type=\"Float\">\t3.5</z>\
             </translation></pose>",
        )
    });
    let r = E57Reader::new(Cursor::new(file));
    assert!(r.is_ok(), "well-formed file rejected: {:?}", r.err());
    let mut r = r.unwrap();
    check_points(&mut r);
    let pc = r.pointclouds()[0].clone();
    assert_eq!(pc.temperature, Some(20.5));
    assert_eq!(pc.index_bounds.unwrap().row_max, Some(3));
    let t = pc.transform.unwrap().translation;
    assert_eq!((t.x, t.y, t.z), (1.5, 2.5, 3.5));
}
