use e57::{E57Reader, RecordValue};
use std::io::Cursor;

// ---------- minimal independent E57 encoder (spec driven, no crate internals) ----------

fn crc32c(data: &[u8]) -> u32 {
    let mut crc: u32 = !0;
    for b in data {
        crc ^= *b as u32;
        for _ in 0..8 {
            crc = if crc & 1 != 0 { (crc >> 1) ^ 0x82F6_3B78 } else { crc >> 1 };
        }
    }
    !crc
}

/// Physical offset for a logical offset (1020 payload bytes + 4 CRC bytes per 1024 byte page)
fn phys(logical: u64) -> u64 {
    logical + 4 * (logical / 1020)
}

/// Builds a complete E57 file with one point cloud (one double attribute, values 0.0, 1.0, 2.0).
/// `make_xml` receives the physical offset of the compressed vector section.
fn build_file(make_xml: impl Fn(u64) -> String) -> Vec<u8> {
    let mut log = vec![0u8; 48]; // file header, filled in below

    // compressed vector section: 32 byte header + one data packet
    let cv_start = log.len() as u64;
    let mut packet = vec![1u8, 0, 0, 0, 1, 0]; // type=data, flags, length-1 (later), 1 bytestream
    packet.extend_from_slice(&24u16.to_le_bytes()); // bytestream length
    for i in 0..3 {
        packet.extend_from_slice(&(i as f64).to_le_bytes());
    }
    assert_eq!(packet.len() % 4, 0);
    let len_m1 = (packet.len() - 1) as u16;
    packet[2..4].copy_from_slice(&len_m1.to_le_bytes());
    let mut cv = vec![0u8; 32];
    cv[0] = 1;
    cv[8..16].copy_from_slice(&(32 + packet.len() as u64).to_le_bytes());
    cv[16..24].copy_from_slice(&phys(cv_start + 32).to_le_bytes());
    log.extend_from_slice(&cv);
    log.extend_from_slice(&packet);

    // XML section
    let xml = make_xml(phys(cv_start));
    let xml_start = log.len() as u64;
    log.extend_from_slice(xml.as_bytes());
    while log.len() % 1020 != 0 {
        log.push(0);
    }

    // file header
    let phys_len = (log.len() / 1020 * 1024) as u64;
    log[0..8].copy_from_slice(b"ASTM-E57");
    log[8..12].copy_from_slice(&1u32.to_le_bytes());
    log[12..16].copy_from_slice(&0u32.to_le_bytes());
    log[16..24].copy_from_slice(&phys_len.to_le_bytes());
    log[24..32].copy_from_slice(&phys(xml_start).to_le_bytes());
    log[32..40].copy_from_slice(&(xml.len() as u64).to_le_bytes());
    log[40..48].copy_from_slice(&1024u64.to_le_bytes());

    // CRC page layer
    let mut out = Vec::new();
    for page in log.chunks(1020) {
        out.extend_from_slice(page);
        out.extend_from_slice(&crc32c(page).to_be_bytes());
    }
    out
}

/// XML with `root_extra` inside e57Root and `pc_extra` inside the data3D child.
fn xml(cv_offset: u64, root_extra: &str, pc_extra: &str) -> String {
    format!(
        r#"<?xml version="1.0" encoding="UTF-8"?>
<e57Root type="Structure" xmlns="http://www.astm.org/COMMIT/E57/2010-e57-v1.0">
<formatName type="String">ASTM E57 3D Imaging Data File</formatName>
<guid type="String">{{FILE-GUID}}</guid>
<versionMajor type="Integer">1</versionMajor>
<versionMinor type="Integer">0</versionMinor>
{root_extra}
<data3D type="Vector" allowHeterogeneousChildren="1">
<vectorChild type="Structure">
<guid type="String">{{SCAN-GUID}}</guid>
{pc_extra}
<points type="CompressedVector" fileOffset="{cv_offset}" recordCount="3">
<prototype type="Structure">
<cartesianX type="Float"/>
</prototype>
<codecs type="Vector" allowHeterogeneousChildren="1"/>
</points>
</vectorChild>
</data3D>
<images2D type="Vector" allowHeterogeneousChildren="1"/>
</e57Root>
"#
    )
}

/// Sanity check used by every test: the points of the file are readable and correct.
fn check_points(reader: &mut E57Reader<Cursor<Vec<u8>>>) {
    let pc = reader.pointclouds()[0].clone();
    let pts: Vec<_> = reader
        .pointcloud_raw(&pc)
        .unwrap()
        .collect::<Result<Vec<_>, _>>()
        .unwrap();
    assert_eq!(pts.len(), 3);
    assert_eq!(pts[2][0], RecordValue::Double(2.0));
}

/// Control: the same content without comments is read as encoded.
#[test]
fn control_without_comments() {
    let file = build_file(|off| {
        xml(
            off,
            "",
            "<name type=\"String\">Scan A</name>\n<temperature type=\"Float\">20.5</temperature>",
        )
    });
    let mut r = E57Reader::new(Cursor::new(file)).unwrap();
    check_points(&mut r);
    let pc = &r.pointclouds()[0];
    assert_eq!(pc.name.as_deref(), Some("Scan A"));
    assert_eq!(pc.temperature, Some(20.5));
}

/// Comments (and processing instructions) are legal anywhere inside element content in XML 1.0
/// and are not part of the character data. The value of the element is the concatenation of
/// its character data: "Scan A", 20.5, 3, ...
#[test]
fn comments_inside_element_content_do_not_change_values() {
    let file = build_file(|off| {
        xml(
            off,
            "<coordinateMetadata type=\"String\"><?hint wkt?>WKT</coordinateMetadata>",
            "<name type=\"String\">Scan <!-- operator: bob -->A</name>\n\
             <description type=\"String\"><!-- free text -->first floor</description>\n\
             <temperature type=\"Float\"><!-- degrees celsius -->20.5</temperature>\n\
             <relativeHumidity type=\"Float\">4<!-- percent -->5</relativeHumidity>\n\
             <indexBounds type=\"Structure\"><rowMaximum type=\"Integer\"><!-- rows -->3</rowMaximum></indexBounds>",
        )
    });
    let mut r = E57Reader::new(Cursor::new(file)).unwrap();
    check_points(&mut r);
    let pc = r.pointclouds()[0].clone();
    let mut problems = Vec::new();
    if pc.name.as_deref() != Some("Scan A") {
        problems.push(format!("name: {:?}", pc.name));
    }
    if pc.description.as_deref() != Some("first floor") {
        problems.push(format!("description: {:?}", pc.description));
    }
    if pc.temperature != Some(20.5) {
        problems.push(format!("temperature: {:?}", pc.temperature));
    }
    if pc.humidity != Some(45.0) {
        problems.push(format!("humidity: {:?}", pc.humidity));
    }
    if pc.index_bounds.as_ref().and_then(|b| b.row_max) != Some(3) {
        problems.push(format!("rowMaximum: {:?}", pc.index_bounds));
    }
    if r.coordinate_metadata() != Some("WKT") {
        problems.push(format!("coordinateMetadata: {:?}", r.coordinate_metadata()));
    }
    assert!(problems.is_empty(), "metadata not returned as encoded: {problems:#?}");
}
