// C15 demo 1: E57Reader::raw_xml accepts interrupted writes.
//
// The static reader entry point E57Reader::raw_xml takes the XML offset and
// length straight from the first 48 bytes of the device without validating the
// checksum of the page that holds the header (E57Reader::new does that since
// the fix "validate the checksum of the page that holds the file header").
// So a torn write of the final header page, or a writer that was dropped
// without finalize, is answered with Ok(partial or empty XML).

use e57::{E57Reader, E57Writer, Record, RecordValue};
use std::cell::RefCell;
use std::io::{Cursor, Read, Seek, SeekFrom, Write};
use std::rc::Rc;

#[derive(Default)]
struct Dev {
    data: Vec<u8>,
    pos: usize,
    log: Vec<(usize, Vec<u8>)>, // every device write: (offset, bytes)
}

#[derive(Clone, Default)]
struct Rec(Rc<RefCell<Dev>>);

impl Write for Rec {
    fn write(&mut self, buf: &[u8]) -> std::io::Result<usize> {
        let mut d = self.0.borrow_mut();
        let pos = d.pos;
        if d.data.len() < pos + buf.len() {
            d.data.resize(pos + buf.len(), 0);
        }
        d.data[pos..pos + buf.len()].copy_from_slice(buf);
        d.log.push((pos, buf.to_vec()));
        d.pos += buf.len();
        Ok(buf.len())
    }
    fn flush(&mut self) -> std::io::Result<()> {
        Ok(())
    }
}

impl Read for Rec {
    fn read(&mut self, buf: &mut [u8]) -> std::io::Result<usize> {
        let mut d = self.0.borrow_mut();
        let pos = d.pos.min(d.data.len());
        let n = buf.len().min(d.data.len() - pos);
        buf[..n].copy_from_slice(&d.data[pos..pos + n]);
        d.pos += n;
        Ok(n)
    }
}

impl Seek for Rec {
    fn seek(&mut self, s: SeekFrom) -> std::io::Result<u64> {
        let mut d = self.0.borrow_mut();
        let np = match s {
            SeekFrom::Start(p) => p as i64,
            SeekFrom::End(o) => d.data.len() as i64 + o,
            SeekFrom::Current(o) => d.pos as i64 + o,
        };
        d.pos = np as usize;
        Ok(np as u64)
    }
}

fn write_points(w: &mut E57Writer<Rec>) {
    let proto = vec![
        Record::CARTESIAN_X_F64,
        Record::CARTESIAN_Y_F64,
        Record::CARTESIAN_Z_F64,
    ];
    let mut pw = w.add_pointcloud("pc", proto).unwrap();
    for i in 0..100 {
        pw.add_point(vec![
            RecordValue::Double(i as f64),
            RecordValue::Double(1.0),
            RecordValue::Double(2.0),
        ])
        .unwrap();
    }
    pw.finalize().unwrap();
}

/// All images (prefix of the device writes x cut position inside the cut write).
fn images(dev: &Rec) -> Vec<(usize, usize, Vec<u8>)> {
    let d = dev.0.borrow();
    let mut out = Vec::new();
    let mut img: Vec<u8> = Vec::new();
    for (i, (off, bytes)) in d.log.iter().enumerate() {
        for k in 0..=bytes.len() {
            let mut im = img.clone();
            if k > 0 {
                if im.len() < off + k {
                    im.resize(off + k, 0);
                }
                im[*off..off + k].copy_from_slice(&bytes[..k]);
            }
            out.push((i, k, im));
        }
        if img.len() < off + bytes.len() {
            img.resize(off + bytes.len(), 0);
        }
        img[*off..off + bytes.len()].copy_from_slice(bytes);
    }
    out
}

#[test]
fn torn_header_write_never_yields_truncated_xml() {
    let dev = Rec::default();
    let mut w = E57Writer::new(dev.clone(), "file").unwrap();
    write_points(&mut w);
    w.finalize().unwrap();
    drop(w);

    let complete = dev.0.borrow().data.clone();
    let complete_xml = E57Reader::raw_xml(Cursor::new(complete.clone())).unwrap();
    assert!(E57Reader::new(Cursor::new(complete)).is_ok());

    for (op, cut, img) in images(&dev) {
        if let Ok(xml) = E57Reader::raw_xml(Cursor::new(img.clone())) {
            // the empty answer is covered by the second test
            if xml.is_empty() {
                continue;
            }
            assert!(
                xml == complete_xml,
                "device write #{op} cut after {cut} bytes: raw_xml returned Ok with {} of {} XML bytes \
                 (E57Reader::new accepts this image: {}): {:?}",
                xml.len(),
                complete_xml.len(),
                E57Reader::new(Cursor::new(img)).is_ok(),
                String::from_utf8_lossy(&xml)
            );
        }
    }
}

#[test]
fn writer_dropped_without_finalize_is_rejected() {
    let dev = Rec::default();
    let mut w = E57Writer::new(dev.clone(), "file").unwrap();
    write_points(&mut w);
    drop(w); // no top-level finalize

    let img = dev.0.borrow().data.clone();
    assert!(E57Reader::new(Cursor::new(img.clone())).is_err());
    let res = E57Reader::raw_xml(Cursor::new(img));
    assert!(
        res.is_err(),
        "raw_xml accepted a file that was never finalized and returned {} XML bytes",
        res.unwrap().len()
    );
}
