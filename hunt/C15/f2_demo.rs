// C15 demo 2: the top-level finalize does not close the writer.
//
// After a successful E57Writer::finalize the writer stays usable, but its
// position was left right behind the file header (physical offset 48) by the
// header rewrite. Every later add_pointcloud / add_blob / add_image / finalize
// call reports success and writes over the start of the file, while the device
// still carries the valid header + XML of the earlier finalize. Images of such a
// writer program taken BEFORE its last top-level finalize call are accepted by
// the reader and show something else than the completed file.

use e57::{E57Reader, E57Writer, RawValues, Record, RecordValue, Result};
use std::cell::RefCell;
use std::io::{Cursor, Read, Seek, SeekFrom, Write};
use std::rc::Rc;

#[derive(Default)]
struct Dev {
    data: Vec<u8>,
    pos: usize,
    log: Vec<(usize, Vec<u8>)>, // every device write: (offset, bytes)
}

#[derive(Clone, Default)]
struct Rec(Rc<RefCell<Dev>>);

impl Write for Rec {
    fn write(&mut self, buf: &[u8]) -> std::io::Result<usize> {
        let mut d = self.0.borrow_mut();
        let pos = d.pos;
        if d.data.len() < pos + buf.len() {
            d.data.resize(pos + buf.len(), 0);
        }
        d.data[pos..pos + buf.len()].copy_from_slice(buf);
        d.log.push((pos, buf.to_vec()));
        d.pos += buf.len();
        Ok(buf.len())
    }
    fn flush(&mut self) -> std::io::Result<()> {
        Ok(())
    }
}

impl Read for Rec {
    fn read(&mut self, buf: &mut [u8]) -> std::io::Result<usize> {
        let mut d = self.0.borrow_mut();
        let pos = d.pos.min(d.data.len());
        let n = buf.len().min(d.data.len() - pos);
        buf[..n].copy_from_slice(&d.data[pos..pos + n]);
        d.pos += n;
        Ok(n)
    }
}

impl Seek for Rec {
    fn seek(&mut self, s: SeekFrom) -> std::io::Result<u64> {
        let mut d = self.0.borrow_mut();
        let np = match s {
            SeekFrom::Start(p) => p as i64,
            SeekFrom::End(o) => d.data.len() as i64 + o,
            SeekFrom::Current(o) => d.pos as i64 + o,
        };
        d.pos = np as usize;
        Ok(np as u64)
    }
}

fn add_pc(w: &mut E57Writer<Rec>, guid: &str, n: usize) {
    let proto = vec![
        Record::CARTESIAN_X_F64,
        Record::CARTESIAN_Y_F64,
        Record::CARTESIAN_Z_F64,
    ];
    let mut pw = w.add_pointcloud(guid, proto).unwrap();
    for i in 0..n {
        pw.add_point(vec![
            RecordValue::Double(i as f64),
            RecordValue::Double(1.0),
            RecordValue::Double(2.0),
        ])
        .unwrap();
    }
    pw.finalize().unwrap();
}

/// All images (prefix of the device writes x cut position inside the cut write).
fn images(dev: &Rec) -> Vec<(usize, usize, Vec<u8>)> {
    let d = dev.0.borrow();
    let mut out = Vec::new();
    let mut img: Vec<u8> = Vec::new();
    for (i, (off, bytes)) in d.log.iter().enumerate() {
        for k in 0..=bytes.len() {
            let mut im = img.clone();
            if k > 0 {
                if im.len() < off + k {
                    im.resize(off + k, 0);
                }
                im[*off..off + k].copy_from_slice(&bytes[..k]);
            }
            out.push((i, k, im));
        }
        if img.len() < off + bytes.len() {
            img.resize(off + bytes.len(), 0);
        }
        img[*off..off + bytes.len()].copy_from_slice(bytes);
    }
    out
}

/// None = rejected, otherwise the listed guids and the result of reading each point cloud.
fn view(img: &[u8]) -> Option<(Vec<String>, Vec<Option<Vec<RawValues>>>)> {
    let mut r = E57Reader::new(Cursor::new(img.to_vec())).ok()?;
    let pcs = r.pointclouds();
    let guids = pcs.iter().map(|p| p.guid.clone().unwrap_or_default()).collect();
    let mut reads = Vec::new();
    for pc in &pcs {
        let res = match r.pointcloud_raw(pc) {
            Ok(iter) => iter.collect::<Result<Vec<RawValues>>>().ok(),
            Err(_) => None,
        };
        reads.push(res);
    }
    Some((guids, reads))
}

// Program: new, finalize, add point cloud, finalize. Every call succeeds and the
// completed file is a perfectly valid file with one point cloud.
#[test]
fn images_before_the_last_finalize_are_rejected() {
    let dev = Rec::default();
    let mut w = E57Writer::new(dev.clone(), "file").unwrap();
    w.finalize().unwrap();
    add_pc(&mut w, "late", 5);
    let writes_before_last_finalize = dev.0.borrow().log.len();
    w.finalize().unwrap();
    drop(w);

    let complete = dev.0.borrow().data.clone();
    let (guids, reads) = view(&complete).expect("completed file must be readable");
    assert_eq!(guids, vec!["late".to_string()]);
    assert_eq!(reads[0].as_ref().map(|p| p.len()), Some(5));

    for (op, cut, img) in images(&dev) {
        if let Some((g, _)) = view(&img) {
            assert!(
                op >= writes_before_last_finalize,
                "image at device write #{op} cut {cut} is from before the last top-level finalize call \
                 (which starts at write #{writes_before_last_finalize}) but is accepted, it lists {g:?}, the completed file lists {guids:?}"
            );
            assert_eq!(g, guids, "accepted image at write #{op} cut {cut} lists other point clouds");
        }
    }
}

// Program: new, two point clouds, finalize, finalize. Both finalize calls succeed.
#[test]
fn accepted_image_reads_error_or_the_completed_result() {
    let dev = Rec::default();
    let mut w = E57Writer::new(dev.clone(), "file").unwrap();
    add_pc(&mut w, "a", 10);
    add_pc(&mut w, "b", 300);
    w.finalize().unwrap();
    w.finalize().unwrap();
    drop(w);

    let complete = dev.0.borrow().data.clone();
    let (guids, reads) = view(&complete).expect("completed file must be accepted");

    for (op, cut, img) in images(&dev) {
        if let Some((g, r)) = view(&img) {
            assert_eq!(g, guids);
            for (i, res) in r.iter().enumerate() {
                if let Some(points) = res {
                    assert!(
                        reads[i].as_ref() == Some(points),
                        "image at device write #{op} cut {cut}: reading point cloud {:?} returns {} points, \
                         the completed file returns {:?} for it",
                        g[i],
                        points.len(),
                        reads[i].as_ref().map(|p| p.len())
                    );
                }
            }
        }
    }
}
