// Needs: RUSTFLAGS="--cfg e57_verif" cargo test --offline --test f1_demo
//
// A rejected physical_seek (target inside the checksum, or behind the end of the file)
// leaves the underlying device positioned at the END of the file while the page layer
// still believes that the device stands at the start of the current page.
// Every later flush then writes the current page to the wrong place.

use e57::verif_hooks::{PagedReader, PagedWriter};
use std::io::{Cursor, Read, Write};

const PAGE: usize = 1024;
const PAYLOAD: usize = 1020;

fn crc32c(data: &[u8]) -> u32 {
    let mut crc = !0_u32;
    for &b in data {
        crc ^= b as u32;
        for _ in 0..8 {
            crc = if crc & 1 != 0 { (crc >> 1) ^ 0x82F6_3B78 } else { crc >> 1 };
        }
    }
    !crc
}

// Strip the checksums, verify each of them, return the payload.
fn payload_of(file: &[u8]) -> Vec<u8> {
    assert_eq!(file.len() % PAGE, 0, "file is not made of whole pages");
    let mut out = Vec::new();
    for (i, page) in file.chunks(PAGE).enumerate() {
        let crc = crc32c(&page[..PAYLOAD]).to_be_bytes();
        assert_eq!(&page[PAYLOAD..], &crc, "page {i} has an invalid checksum");
        out.extend_from_slice(&page[..PAYLOAD]);
    }
    out
}

fn run(bad_seek_target: u64) {
    let mut dev = Cursor::new(Vec::<u8>::new());
    {
        let mut w = PagedWriter::new(&mut dev).unwrap();
        w.write_all(&[1_u8; 128]).unwrap();
        assert_eq!(w.physical_position().unwrap(), 128);

        // Rejected seek: nothing was written, nothing may change.
        assert!(w.physical_seek(bad_seek_target).is_err());
        assert_eq!(
            w.physical_position().unwrap(),
            128,
            "a rejected seek moved the reported physical position"
        );

        // Continue appending.
        w.write_all(&[2_u8; 4]).unwrap();
        w.flush().unwrap();
        assert_eq!(w.physical_size().unwrap(), PAGE as u64);
    }

    // Logical stream written: 128 x 1, 4 x 2, zero-filled to a whole page.
    let mut expected = vec![0_u8; PAYLOAD];
    expected[..128].fill(1);
    expected[128..132].fill(2);

    let file = dev.into_inner();
    assert_eq!(file.len(), PAGE, "file must consist of exactly one page");
    assert_eq!(payload_of(&file), expected);

    // Read side must return the same logical stream.
    let mut r = PagedReader::new(Cursor::new(file), PAGE as u64).unwrap();
    let mut got = Vec::new();
    r.read_to_end(&mut got).unwrap();
    assert_eq!(got, expected);
}

#[test]
fn rejected_seek_into_checksum_then_append() {
    // 1020 is the first checksum byte of page 0: "on a page boundary".
    run(PAYLOAD as u64);
}

#[test]
fn rejected_seek_behind_end_then_append() {
    run(PAGE as u64 + 1);
}

// Variant that does not depend on what physical_position reports after the rejected seek:
// only the final file content is checked.
#[test]
fn rejected_seek_then_append_file_content_only() {
    let mut dev = Cursor::new(Vec::<u8>::new());
    {
        let mut w = PagedWriter::new(&mut dev).unwrap();
        w.write_all(&[1_u8; 128]).unwrap();
        assert!(w.physical_seek(PAYLOAD as u64 + 1).is_err());
        w.write_all(&[2_u8; 4]).unwrap();
        w.flush().unwrap();
    }
    let file = dev.into_inner();
    let payload = payload_of(&file);
    let mut expected = vec![0_u8; PAYLOAD];
    expected[..128].fill(1);
    expected[128..132].fill(2);
    assert_eq!(
        payload.len(),
        PAYLOAD,
        "132 logical bytes were written, but the file holds {} pages",
        file.len() / PAGE
    );
    assert_eq!(payload, expected);
}
