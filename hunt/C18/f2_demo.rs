// C18 finding 2: two registered extensions sharing one URL - records of the second one
// are reported with the namespace prefix of the first one.
use e57::*;
use std::io::Cursor;

fn unk(ns: &str, name: &str) -> RecordName {
    RecordName::Unknown {
        namespace: ns.to_owned(),
        name: name.to_owned(),
    }
}

#[test]
fn extension_record_keeps_its_namespace_prefix() {
    let mut cur = Cursor::new(Vec::new());
    {
        let mut w = E57Writer::new(&mut cur, "file_guid").unwrap();
        w.register_extension(Extension::new("aa", "http://example.com/ext"))
            .unwrap();
        // The writer may legitimately refuse the second registration - that would be a valid fix.
        if w.register_extension(Extension::new("bb", "http://example.com/ext"))
            .is_err()
        {
            return;
        }
        let proto = vec![
            Record::CARTESIAN_X_F32,
            Record::CARTESIAN_Y_F32,
            Record::CARTESIAN_Z_F32,
            Record {
                name: unk("bb", "foo"),
                data_type: RecordDataType::U8,
            },
            Record {
                name: unk("aa", "bar"),
                data_type: RecordDataType::U16,
            },
        ];
        let mut pw = match w.add_pointcloud("pc_guid", proto) {
            Ok(pw) => pw,
            Err(_) => return, // refusing is fine as well
        };
        pw.add_point(vec![
            RecordValue::Single(1.0),
            RecordValue::Single(2.0),
            RecordValue::Single(3.0),
            RecordValue::Integer(7),
            RecordValue::Integer(300),
        ])
        .unwrap();
        pw.finalize().unwrap();
        w.finalize().unwrap();
    }

    let mut r = E57Reader::new(Cursor::new(cur.into_inner())).unwrap();
    assert!(r.xml().contains("<bb:foo "), "writer did write the prefix bb");
    let pc = r.pointclouds().remove(0);

    // values round-trip ...
    let p = r.pointcloud_raw(&pc).unwrap().next().unwrap().unwrap();
    assert_eq!(p[3], RecordValue::Integer(7));
    assert_eq!(p[4], RecordValue::Integer(300));

    // ... and "Extension attributes inside a prototype are reported with their namespace prefix and name"
    assert_eq!(pc.prototype[4].name, unk("aa", "bar"));
    assert_eq!(
        pc.prototype[3].name,
        unk("bb", "foo"),
        "record written as bb:foo is reported with a different namespace prefix"
    );
}
