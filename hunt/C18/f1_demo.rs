// C18 finding 1: an extension whose URL equals the E57 namespace URL is accepted by the writer,
// and its records with standard local names come back as STANDARD attributes.
use e57::*;
use std::io::Cursor;

const E57_URL: &str = "http://www.astm.org/COMMIT/E57/2010-e57-v1.0";

#[test]
fn extension_record_must_not_turn_into_standard_attribute() {
    let mut cur = Cursor::new(Vec::new());
    {
        let mut w = E57Writer::new(&mut cur, "file_guid").unwrap();
        // The writer may legitimately refuse this registration - that would be a valid fix.
        if w.register_extension(Extension::new("ext", E57_URL)).is_err() {
            return;
        }
        let proto = vec![
            Record::CARTESIAN_X_F32,
            Record::CARTESIAN_Y_F32,
            Record::CARTESIAN_Z_F32,
            Record {
                name: RecordName::Unknown {
                    namespace: "ext".to_owned(),
                    name: "intensity".to_owned(),
                },
                data_type: RecordDataType::U8,
            },
        ];
        let mut pw = match w.add_pointcloud("pc_guid", proto) {
            Ok(pw) => pw,
            Err(_) => return, // refusing is fine as well
        };
        pw.add_point(vec![
            RecordValue::Single(1.0),
            RecordValue::Single(2.0),
            RecordValue::Single(3.0),
            RecordValue::Integer(7),
        ])
        .unwrap();
        pw.finalize().unwrap();
        w.finalize().unwrap();
    }

    // Everything was accepted by the writer, so the property must hold for the result.
    let mut r = E57Reader::new(Cursor::new(cur.into_inner())).unwrap();
    let pc = r.pointclouds().remove(0);

    // "Extension attributes inside a prototype are reported with their namespace prefix and name"
    assert_eq!(
        pc.prototype[3].name,
        RecordName::Unknown {
            namespace: "ext".to_owned(),
            name: "intensity".to_owned()
        },
        "extension record ext:intensity is not reported as extension record"
    );

    // "... while standard attributes of the same point cloud are unaffected":
    // the cloud was written WITHOUT standard intensity and color.
    assert!(!pc.has_intensity(), "point cloud suddenly has a standard intensity");
    let p = r.pointcloud_simple(&pc).unwrap().next().unwrap().unwrap();
    assert_eq!(p.intensity, None, "simple reader reports a standard intensity");
    assert_eq!(p.color, None, "simple reader reports a color");
}
