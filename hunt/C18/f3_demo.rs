// C18 finding 3: a foreign-namespace element inserted in front of the text of a standard
// scalar element silently changes the value the reader reports for that standard element.
use e57::*;
use std::io::Cursor;

fn build(tr: impl Fn(String) -> Result<String>) -> Vec<u8> {
    let mut cur = Cursor::new(Vec::new());
    {
        let mut w = E57Writer::new(&mut cur, "file_guid").unwrap();
        w.register_extension(Extension::new("ext", "http://example.com/ext"))
            .unwrap();
        let proto = vec![
            Record::CARTESIAN_X_F32,
            Record::CARTESIAN_Y_F32,
            Record::CARTESIAN_Z_F32,
        ];
        let mut pw = w.add_pointcloud("pc_guid", proto).unwrap();
        pw.set_temperature(Some(21.5));
        pw.add_point(vec![
            RecordValue::Single(1.0),
            RecordValue::Single(2.0),
            RecordValue::Single(3.0),
        ])
        .unwrap();
        pw.finalize().unwrap();
        w.finalize_customized_xml(tr).unwrap();
    }
    cur.into_inner()
}

#[test]
fn foreign_element_inside_standard_scalar_element_changes_nothing() {
    let base = E57Reader::new(Cursor::new(build(Ok))).unwrap();
    let base_pc = base.pointclouds().remove(0);
    assert_eq!(base_pc.guid.as_deref(), Some("pc_guid"));
    assert_eq!(base_pc.temperature, Some(21.5));
    assert_eq!(base_pc.cartesian_bounds.as_ref().unwrap().x_min, Some(1.0));

    // Insert well-formed foreign elements (outside of any prototype).
    let bytes = build(|xml| {
        let a = "<guid type=\"String\"><![CDATA[pc_guid]]>";
        let b = "<xMinimum type=\"Float\">1<";
        let c = "<temperature type=\"Float\">21.5<";
        assert!(xml.contains(a) && xml.contains(b) && xml.contains(c));
        Ok(xml
            .replace(a, "<guid type=\"String\"><ext:note/><![CDATA[pc_guid]]>")
            .replace(b, "<xMinimum type=\"Float\"><ext:note/>1<")
            .replace(c, "<temperature type=\"Float\"><ext:note>x</ext:note>21.5<"))
    });
    let r = E57Reader::new(Cursor::new(bytes)).expect("file with extension elements must be readable");
    let pc = r.pointclouds().remove(0);

    // "does not change anything the reader reports about the standard content"
    assert_eq!(pc.guid, base_pc.guid, "point cloud guid changed");
    assert_eq!(
        pc.cartesian_bounds.as_ref().unwrap().x_min,
        base_pc.cartesian_bounds.as_ref().unwrap().x_min,
        "cartesian bounds changed"
    );
    assert_eq!(pc.temperature, base_pc.temperature, "temperature changed");
}
