// C06 / finding 2: after a successful E57Writer::finalize() the writer silently stays usable,
// but it is positioned at physical offset 48 (right behind the rewritten file header).
// The next image/blob is written over the first one, every call reports Ok, and in the
// final file the descriptor of the first image leads to the data of the second image.
use e57::{E57Reader, E57Writer, ImageFormat, VisualReferenceImageProperties};
use std::io::Cursor;

#[test]
fn image_descriptor_must_lead_to_its_own_data() {
    let a_data = vec![0xAAu8; 2000];
    let b_data = vec![0xBBu8; 2000];
    let props = || VisualReferenceImageProperties { width: 1, height: 1 };

    let mut dev = Cursor::new(Vec::new());
    {
        let mut w = E57Writer::new(&mut dev, "file-guid").unwrap();

        let mut iw = w.add_image("img-a").unwrap();
        iw.add_visual_reference(ImageFormat::Png, &mut Cursor::new(a_data.clone()), props(), None)
            .unwrap();
        iw.finalize().unwrap();
        drop(iw);
        w.finalize().unwrap(); // intermediate, complete and valid file

        // Add one more image and complete the file again.
        // Refusing any of these calls would be a loud and acceptable answer.
        let mut iw = match w.add_image("img-b") {
            Ok(iw) => iw,
            Err(_) => return,
        };
        if iw
            .add_visual_reference(ImageFormat::Png, &mut Cursor::new(b_data.clone()), props(), None)
            .is_err()
        {
            return;
        }
        if iw.finalize().is_err() {
            return;
        }
        drop(iw);
        if w.finalize().is_err() {
            return;
        }
    }

    // Every call reported success, so the file must be correct.
    let mut r = E57Reader::new(Cursor::new(dev.into_inner())).unwrap();
    let images = r.images();
    assert_eq!(images.len(), 2);
    for (img, expected) in images.iter().zip([&a_data, &b_data]) {
        let blob = img.visual_reference.clone().unwrap().blob.data;
        let mut out = Vec::new();
        match r.blob(&blob, &mut out) {
            Err(_) => panic!("blob of image {:?} is not readable", img.guid),
            Ok(n) => {
                assert_eq!(n, blob.length);
                assert!(
                    &out == expected,
                    "descriptor of image {:?} (offset {}) leads to the data of another image",
                    img.guid,
                    blob.offset
                );
            }
        }
    }
}
