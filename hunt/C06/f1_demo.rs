// C06 / finding 1: E57Reader::blob() silently returns FEWER bytes than the descriptor's length
// when the file ends before the blob does. It reports Ok(n) with n < blob.length.
use e57::{Blob, E57Reader, E57Writer};
use std::io::Cursor;

const PAYLOAD: usize = 1020;

fn crc32c(data: &[u8]) -> u32 {
    let mut crc = 0xFFFF_FFFFu32;
    for b in data {
        crc ^= *b as u32;
        for _ in 0..8 {
            crc = if crc & 1 != 0 { (crc >> 1) ^ 0x82F6_3B78 } else { crc >> 1 };
        }
    }
    !crc
}

/// Turns a logical byte stream into 1024 byte pages with a trailing big endian CRC-32C.
fn paginate(logical: &[u8]) -> Vec<u8> {
    let mut logical = logical.to_vec();
    while logical.len() % PAYLOAD != 0 {
        logical.push(0);
    }
    let mut out = Vec::new();
    for chunk in logical.chunks(PAYLOAD) {
        out.extend_from_slice(chunk);
        out.extend_from_slice(&crc32c(chunk).to_be_bytes());
    }
    out
}

const BLOB_OFFSET: usize = 948; // logical == physical, still inside the first page
const BLOB_LEN: usize = 3000;

/// A small legal E57 file in the layout some other producers use: header, XML, then the blob section.
fn foreign_file() -> (Vec<u8>, Vec<u8>) {
    let xml = format!(
        "<?xml version=\"1.0\" encoding=\"UTF-8\"?>\n\
<e57Root type=\"Structure\" xmlns=\"http://www.astm.org/COMMIT/E57/2010-e57-v1.0\">\n\
<formatName type=\"String\"><![CDATA[ASTM E57 3D Imaging Data File]]></formatName>\n\
<guid type=\"String\"><![CDATA[file-guid]]></guid>\n\
<versionMajor type=\"Integer\">1</versionMajor>\n\
<versionMinor type=\"Integer\">0</versionMinor>\n\
<data3D type=\"Vector\" allowHeterogeneousChildren=\"1\"></data3D>\n\
<images2D type=\"Vector\" allowHeterogeneousChildren=\"1\">\n\
<vectorChild type=\"Structure\">\n\
<guid type=\"String\"><![CDATA[img]]></guid>\n\
<visualReferenceRepresentation type=\"Structure\">\n\
<pngImage type=\"Blob\" fileOffset=\"{BLOB_OFFSET}\" length=\"{BLOB_LEN}\"/>\n\
<imageWidth type=\"Integer\">1</imageWidth>\n\
<imageHeight type=\"Integer\">1</imageHeight>\n\
</visualReferenceRepresentation>\n\
</vectorChild>\n\
</images2D>\n\
</e57Root>\n"
    );
    assert!(48 + xml.len() <= BLOB_OFFSET);
    let data: Vec<u8> = (0..BLOB_LEN).map(|i| (i * 7 + 1) as u8).collect();

    let mut logical = vec![0u8; 48];
    logical.extend_from_slice(xml.as_bytes());
    logical.resize(BLOB_OFFSET, 0);
    // blob section header: id 0, 7 reserved bytes, length of the whole section
    logical.extend_from_slice(&[0u8; 8]);
    logical.extend_from_slice(&(16 + BLOB_LEN as u64).to_le_bytes());
    logical.extend_from_slice(&data);

    let pages = (logical.len() + PAYLOAD - 1) / PAYLOAD;
    logical[0..8].copy_from_slice(b"ASTM-E57");
    logical[8..12].copy_from_slice(&1u32.to_le_bytes());
    logical[12..16].copy_from_slice(&0u32.to_le_bytes());
    logical[16..24].copy_from_slice(&(pages as u64 * 1024).to_le_bytes());
    logical[24..32].copy_from_slice(&48u64.to_le_bytes());
    logical[32..40].copy_from_slice(&(xml.len() as u64).to_le_bytes());
    logical[40..48].copy_from_slice(&1024u64.to_le_bytes());
    (paginate(&logical), data)
}

#[test]
fn truncated_file_must_not_yield_a_short_blob_silently() {
    let (file, data) = foreign_file();
    assert_eq!(file.len(), 4096);

    // Sanity: the complete file is fine and the blob round-trips byte-exactly.
    let mut reader = E57Reader::new(Cursor::new(file.clone())).unwrap();
    let blob = reader.images()[0].visual_reference.clone().unwrap().blob.data;
    assert_eq!((blob.offset, blob.length), (BLOB_OFFSET as u64, BLOB_LEN as u64));
    let mut out = Vec::new();
    assert_eq!(reader.blob(&blob, &mut out).unwrap(), BLOB_LEN as u64);
    assert_eq!(out, data);

    // The same file after an incomplete copy: the last page is missing.
    // XML descriptor (3000) and section header (3016) still agree with each other.
    let truncated = file[..3072].to_vec();
    let mut reader = match E57Reader::new(Cursor::new(truncated)) {
        Ok(r) => r,
        Err(_) => return, // refusing the file is a loud and acceptable answer
    };
    let blob = reader.images()[0].visual_reference.clone().unwrap().blob.data;
    let mut out = Vec::new();
    match reader.blob(&blob, &mut out) {
        Err(_) => {} // loud failure is fine
        Ok(n) => {
            assert_eq!(
                (n, out.len() as u64),
                (blob.length, blob.length),
                "blob() reported success but delivered fewer bytes than the descriptor's length"
            );
        }
    }
}

#[test]
fn oversized_section_header_must_not_yield_a_short_blob_silently() {
    // File written by the library itself, then only the blob section header length is damaged
    // (with a valid page checksum), the kind of header the consistency check in Blob::read is for.
    let mut dev = Cursor::new(Vec::new());
    let blob = {
        let mut w = E57Writer::new(&mut dev, "guid").unwrap();
        let blob = w.add_blob(&mut Cursor::new(vec![7u8; 100])).unwrap();
        w.finalize().unwrap();
        blob
    };
    let mut file = dev.into_inner();
    let off = blob.offset as usize;
    assert!(off + 16 <= PAYLOAD);
    file[off + 8..off + 16].copy_from_slice(&(1u64 << 40).to_le_bytes());
    let crc = crc32c(&file[..PAYLOAD]);
    file[PAYLOAD..1024].copy_from_slice(&crc.to_be_bytes());

    let mut reader = E57Reader::new(Cursor::new(file)).unwrap();
    let descriptor = Blob::new(blob.offset, 1 << 20);
    let mut out = Vec::new();
    match reader.blob(&descriptor, &mut out) {
        Err(_) => {}
        Ok(n) => assert_eq!(
            (n, out.len() as u64),
            (descriptor.length, descriptor.length),
            "blob() reported success but delivered fewer bytes than the descriptor's length"
        ),
    }
}
