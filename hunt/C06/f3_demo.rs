// C06 / finding 3: the writer happily finalizes files with so many images that the XML section
// grows beyond 10 MiB, but the reader of the same library refuses such files completely
// ("XML sections larger than 10485760 bytes are not supported"): none of the blobs written
// with Ok results can be read back.
use e57::{E57Reader, E57Writer, ImageFormat, VisualReferenceImageProperties};
use std::io::Cursor;

#[test]
fn every_written_image_blob_is_returned_by_the_reader() {
    let count = 40_000u32;
    let mut dev = Cursor::new(Vec::new());
    {
        let mut w = E57Writer::new(&mut dev, "file-guid").unwrap();
        for i in 0..count {
            let mut iw = w.add_image("g").unwrap();
            let props = VisualReferenceImageProperties { width: 1, height: 1 };
            let data = i.to_le_bytes().to_vec();
            iw.add_visual_reference(ImageFormat::Png, &mut Cursor::new(data), props, None)
                .unwrap();
            iw.finalize().unwrap();
        }
        if w.finalize().is_err() {
            return; // refusing to create a file that cannot be read is a loud and acceptable answer
        }
    }

    // The writer reported success for every blob and for the file.
    let mut r = match E57Reader::new(Cursor::new(dev.into_inner())) {
        Ok(r) => r,
        Err(e) => panic!("file written with Ok results cannot be opened by the reader: {e}"),
    };
    let images = r.images();
    assert_eq!(images.len(), count as usize);
    for i in [0u32, 1, 12_345, count - 1] {
        let blob = images[i as usize].visual_reference.clone().unwrap().blob.data;
        let mut out = Vec::new();
        assert_eq!(r.blob(&blob, &mut out).unwrap(), 4);
        assert_eq!(out, i.to_le_bytes());
    }
}
