//! C08 demo 2: decompression bomb. A well-formed 80 KB file with ONE data packet makes the
//! first `next()` call of the point iterators try to materialise ~29 GB of values, so the
//! process is killed by the allocator ("memory allocation of N bytes failed" -> abort)
//! instead of returning a value or an error.
//!
//! Prototype: one 1-bit integer record plus 3999 constant integer records (minimum ==
//! maximum, zero bits per point, nothing stored in the file). The single 64 KiB data packet
//! holds 460240 one-bit values. `QueueReader::advance()` then eagerly pushes 460240 values
//! into the queue of EVERY constant record: 3999 * 460240 * 16 bytes = 29.4 GB.
//!
//! To keep the demo harmless for the machine that runs it, the test binary installs a
//! global allocator that behaves like a machine with 1 GiB of memory: requests beyond that
//! budget fail (return null), exactly like a real out-of-memory situation. On the unmodified
//! tree the test binary therefore aborts. The control test shows that the same container with
//! only two constant records is read fine under the same allocator.
//!
//! Run with: cargo test --offline --test f2_demo

use e57::{E57Reader, RecordValue};
use std::alloc::{GlobalAlloc, Layout, System};
use std::io::Cursor;
use std::sync::atomic::{AtomicUsize, Ordering};

const MEMORY_BUDGET: usize = 1 << 30; // 1 GiB, more than 13000 times the size of the file

struct Budget;
static USED: AtomicUsize = AtomicUsize::new(0);

unsafe impl GlobalAlloc for Budget {
    unsafe fn alloc(&self, layout: Layout) -> *mut u8 {
        let old = USED.fetch_add(layout.size(), Ordering::SeqCst);
        if old + layout.size() > MEMORY_BUDGET {
            USED.fetch_sub(layout.size(), Ordering::SeqCst);
            return std::ptr::null_mut();
        }
        let ptr = System.alloc(layout);
        if ptr.is_null() {
            USED.fetch_sub(layout.size(), Ordering::SeqCst);
        }
        ptr
    }
    unsafe fn dealloc(&self, ptr: *mut u8, layout: Layout) {
        USED.fetch_sub(layout.size(), Ordering::SeqCst);
        System.dealloc(ptr, layout)
    }
}

#[global_allocator]
static ALLOCATOR: Budget = Budget;

fn crc32c(data: &[u8]) -> u32 {
    let mut crc = !0u32;
    for b in data {
        crc ^= *b as u32;
        for _ in 0..8 {
            crc = if crc & 1 != 0 {
                (crc >> 1) ^ 0x82F6_3B78
            } else {
                crc >> 1
            };
        }
    }
    !crc
}

fn seal(logical: &[u8]) -> Vec<u8> {
    let mut out = Vec::new();
    for chunk in logical.chunks(1020) {
        let mut page = chunk.to_vec();
        page.resize(1020, 0);
        let crc = crc32c(&page);
        out.extend_from_slice(&page);
        out.extend_from_slice(&crc.to_be_bytes());
    }
    out
}

fn logical_to_physical(offset: u64) -> u64 {
    (offset / 1020) * 1024 + offset % 1020
}

/// Builds a complete E57 file with one point cloud: a 1 bit integer record `cartesianX`
/// followed by `constants` integer records with minimum == maximum == 7.
/// All points are stored in one data packet with `stream_len` bytes for the first stream.
fn build_file(constants: usize, stream_len: usize) -> (Vec<u8>, u64) {
    let streams = constants + 1;
    let points = stream_len as u64 * 8;

    // File header placeholder
    let mut logical = vec![0u8; 48];

    // Compressed vector section header (32 bytes) at logical offset 48
    let section_log = logical.len() as u64;
    let packet_len = 6 + 2 * streams + stream_len;
    assert!(packet_len % 4 == 0 && packet_len <= 65536);
    let mut section = [0u8; 32];
    section[0] = 1;
    section[8..16].copy_from_slice(&(32 + packet_len as u64).to_le_bytes());
    section[16..24].copy_from_slice(&logical_to_physical(section_log + 32).to_le_bytes());
    logical.extend_from_slice(&section);

    // One data packet: header, stream lengths, stream data (alternating bits 0,1,0,1...)
    logical.push(1);
    logical.push(0);
    logical.extend_from_slice(&((packet_len - 1) as u16).to_le_bytes());
    logical.extend_from_slice(&(streams as u16).to_le_bytes());
    logical.extend_from_slice(&(stream_len as u16).to_le_bytes());
    for _ in 0..constants {
        logical.extend_from_slice(&0u16.to_le_bytes());
    }
    logical.extend(std::iter::repeat(0b1010_1010u8).take(stream_len));
    assert!(logical.len() % 4 == 0);

    // XML section
    let mut prototype = String::from("<cartesianX type=\"Integer\" minimum=\"0\" maximum=\"1\"/>\n");
    for i in 0..constants {
        prototype += &format!("<ext:c{i} type=\"Integer\" minimum=\"7\" maximum=\"7\"/>\n");
    }
    let xml = format!(
        "<?xml version=\"1.0\" encoding=\"UTF-8\"?>\n\
         <e57Root type=\"Structure\" xmlns:ext=\"http://example.com/ext\" xmlns=\"http://www.astm.org/COMMIT/E57/2010-e57-v1.0\">\n\
         <formatName type=\"String\"><![CDATA[ASTM E57 3D Imaging Data File]]></formatName>\n\
         <guid type=\"String\"><![CDATA[file-guid]]></guid>\n\
         <versionMajor type=\"Integer\">1</versionMajor>\n\
         <versionMinor type=\"Integer\">0</versionMinor>\n\
         <data3D type=\"Vector\" allowHeterogeneousChildren=\"1\">\n\
         <vectorChild type=\"Structure\">\n\
         <guid type=\"String\"><![CDATA[pc-guid]]></guid>\n\
         <points type=\"CompressedVector\" fileOffset=\"{}\" recordCount=\"{points}\">\n\
         <prototype type=\"Structure\">\n{prototype}</prototype>\n\
         </points>\n\
         </vectorChild>\n\
         </data3D>\n\
         <images2D type=\"Vector\" allowHeterogeneousChildren=\"1\"></images2D>\n\
         </e57Root>\n",
        logical_to_physical(section_log)
    );
    let xml_log = logical.len() as u64;
    logical.extend_from_slice(xml.as_bytes());

    // File header
    let pages = (logical.len() + 1019) / 1020;
    let phys_len = pages as u64 * 1024;
    logical[0..8].copy_from_slice(b"ASTM-E57");
    logical[8..12].copy_from_slice(&1u32.to_le_bytes());
    logical[12..16].copy_from_slice(&0u32.to_le_bytes());
    logical[16..24].copy_from_slice(&phys_len.to_le_bytes());
    logical[24..32].copy_from_slice(&logical_to_physical(xml_log).to_le_bytes());
    logical[32..40].copy_from_slice(&(xml.len() as u64).to_le_bytes());
    logical[40..48].copy_from_slice(&1024u64.to_le_bytes());
    (seal(&logical), points)
}

/// Same container, same packet size, but only two constant records: everything works.
#[test]
fn control_two_constant_records() {
    let (file, points) = build_file(2, 65536 - 6 - 2 * 3 - 4);
    let mut reader = E57Reader::new(Cursor::new(file)).unwrap();
    let pc = reader.pointclouds().remove(0);
    assert_eq!(pc.records, points);
    assert_eq!(pc.prototype.len(), 3);
    let mut count = 0u64;
    for (i, p) in reader.pointcloud_raw(&pc).unwrap().enumerate() {
        let p = p.unwrap();
        assert_eq!(p[0], RecordValue::Integer((i % 2) as i64));
        assert_eq!(p[1], RecordValue::Integer(7));
        assert_eq!(p[2], RecordValue::Integer(7));
        count += 1;
    }
    assert_eq!(count, points);
}

/// 3999 constant records: the file is 80 KB, but reading its FIRST point aborts the process.
#[test]
fn many_constant_records_must_not_abort() {
    let constants = 3999;
    let (file, points) = build_file(constants, 65536 - 6 - 2 * 4000);
    assert!(file.len() < 400 * 1024, "the whole file is small: {}", file.len());
    println!("file size: {} bytes, points: {points}", file.len());

    // All other entry points are fine with this file
    assert_eq!(E57Reader::validate_crc(Cursor::new(file.clone())).unwrap(), 1024);
    let mut reader = E57Reader::new(Cursor::new(file)).unwrap();
    let pc = reader.pointclouds().remove(0);
    assert_eq!(pc.records, points);
    assert_eq!(pc.prototype.len(), constants + 1);

    // The property demands a value or an error for every step of the iteration.
    // On the unmodified tree the first call tries to allocate about 29 GB and the
    // process aborts with "memory allocation of ... bytes failed".
    let mut iter = reader.pointcloud_raw(&pc).unwrap();
    let first = iter.next().expect("there are points");
    match first {
        Ok(values) => {
            assert_eq!(values.len(), constants + 1);
            assert_eq!(values[0], RecordValue::Integer(0));
            assert_eq!(values[1], RecordValue::Integer(7));
        }
        Err(err) => println!("an error is acceptable as well: {err}"),
    }
    drop(iter);

    // Same for the simple iterator
    let mut iter = reader.pointcloud_simple(&pc).unwrap();
    let first = iter.next().expect("there are points");
    println!("simple iterator returned: is_ok={}", first.is_ok());
}
