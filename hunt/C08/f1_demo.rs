//! C08 demo 1: opening a file whose XML section contains deeply nested elements
//! overflows the stack inside the recursive XML parser and ABORTS the process
//! (SIGABRT, "thread ... has overflowed its stack"), instead of returning an error.
//!
//! Run with: cargo test --offline --test f1_demo
//! Expected by the property: `E57Reader::new` returns Ok(..) or Err(..).
//! Actual on the unmodified tree: the test binary is killed by a stack overflow.

use e57::E57Reader;
use std::io::Cursor;

fn crc32c(data: &[u8]) -> u32 {
    let mut crc = !0u32;
    for b in data {
        crc ^= *b as u32;
        for _ in 0..8 {
            crc = if crc & 1 != 0 {
                (crc >> 1) ^ 0x82F6_3B78
            } else {
                crc >> 1
            };
        }
    }
    !crc
}

/// Splits the logical bytes into 1020 byte pages and seals every page with its CRC-32C.
fn seal(logical: &[u8]) -> Vec<u8> {
    let mut out = Vec::new();
    for chunk in logical.chunks(1020) {
        let mut page = chunk.to_vec();
        page.resize(1020, 0);
        let crc = crc32c(&page);
        out.extend_from_slice(&page);
        out.extend_from_slice(&crc.to_be_bytes());
    }
    out
}

fn logical_to_physical(offset: u64) -> u64 {
    (offset / 1020) * 1024 + offset % 1020
}

/// Minimal well-formed E57 container: 48 byte header directly followed by the XML section.
fn e57_with_xml(xml: &str) -> Vec<u8> {
    let mut logical = vec![0u8; 48];
    let xml_offset = logical.len() as u64;
    logical.extend_from_slice(xml.as_bytes());
    let pages = (logical.len() + 1019) / 1020;
    let phys_len = pages as u64 * 1024;
    logical[0..8].copy_from_slice(b"ASTM-E57");
    logical[8..12].copy_from_slice(&1u32.to_le_bytes());
    logical[12..16].copy_from_slice(&0u32.to_le_bytes());
    logical[16..24].copy_from_slice(&phys_len.to_le_bytes());
    logical[24..32].copy_from_slice(&logical_to_physical(xml_offset).to_le_bytes());
    logical[32..40].copy_from_slice(&(xml.len() as u64).to_le_bytes());
    logical[40..48].copy_from_slice(&1024u64.to_le_bytes());
    seal(&logical)
}

fn root_xml(inner: &str) -> String {
    format!(
        "<?xml version=\"1.0\" encoding=\"UTF-8\"?>\n\
         <e57Root type=\"Structure\" xmlns=\"http://www.astm.org/COMMIT/E57/2010-e57-v1.0\">\n\
         <formatName type=\"String\"><![CDATA[ASTM E57 3D Imaging Data File]]></formatName>\n\
         <guid type=\"String\"><![CDATA[guid]]></guid>\n\
         <versionMajor type=\"Integer\">1</versionMajor>\n\
         <versionMinor type=\"Integer\">0</versionMinor>\n\
         {inner}\
         <data3D type=\"Vector\" allowHeterogeneousChildren=\"1\"></data3D>\n\
         <images2D type=\"Vector\" allowHeterogeneousChildren=\"1\"></images2D>\n\
         </e57Root>\n"
    )
}

/// The container built by the helpers is fine: without the nesting the file opens.
#[test]
fn control_flat_xml_opens() {
    let file = e57_with_xml(&root_xml("<ext type=\"Structure\"></ext>\n"));
    let reader = E57Reader::new(Cursor::new(file)).expect("flat XML must open");
    assert_eq!(reader.guid(), "guid");
    assert!(reader.pointclouds().is_empty());
}

/// 200000 nested (and properly closed) elements, about 1.4 MB of XML, far below the
/// 10 MB XML limit of the reader. Well-formed XML, valid page checksums, valid header.
#[test]
fn deeply_nested_xml_must_not_abort() {
    let depth = 200_000;
    let mut inner = String::with_capacity(depth * 7 + 1);
    for _ in 0..depth {
        inner.push_str("<a>");
    }
    for _ in 0..depth {
        inner.push_str("</a>");
    }
    inner.push('\n');
    let file = e57_with_xml(&root_xml(&inner));

    // Sanity: the page layer is intact, so the bytes really reach the XML parser.
    assert_eq!(E57Reader::validate_crc(Cursor::new(file.clone())).unwrap(), 1024);
    assert!(E57Reader::raw_xml(Cursor::new(file.clone())).is_ok());

    // The property demands a value or an error. On the unmodified tree this call never
    // returns: the process dies with "has overflowed its stack" / SIGABRT.
    let result = E57Reader::new(Cursor::new(file));
    println!("E57Reader::new returned: is_ok={}", result.is_ok());
}
