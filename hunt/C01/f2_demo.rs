// C01 demo 2: the prototype read back is not identical to the one written when two
// registered extensions share the same namespace URL: the reader maps the URL back to the
// *first* prefix bound to it, so `bbb:foo` comes back as `aaa:foo`.
use e57::{E57Reader, E57Writer, Extension, Record, RecordDataType, RecordName, RecordValue};
use std::io::Cursor;

#[test]
fn extension_record_keeps_its_namespace() {
    let ext_record = RecordName::Unknown {
        namespace: "bbb".to_owned(),
        name: "foo".to_owned(),
    };
    let prototype = vec![
        Record::CARTESIAN_X_F32,
        Record::CARTESIAN_Y_F32,
        Record::CARTESIAN_Z_F32,
        Record {
            name: ext_record.clone(),
            data_type: RecordDataType::Integer { min: 0, max: 10 },
        },
    ];

    let mut file = Cursor::new(Vec::new());
    {
        let mut writer = E57Writer::new(&mut file, "file_guid").unwrap();
        // Two prefixes bound to the same namespace name: legal XML, accepted by the writer
        writer
            .register_extension(Extension::new("aaa", "https://example.com/ext"))
            .unwrap();
        writer
            .register_extension(Extension::new("bbb", "https://example.com/ext"))
            .unwrap();
        let mut pc = writer.add_pointcloud("pc_guid", prototype.clone()).unwrap();
        pc.add_point(vec![
            RecordValue::Single(1.0),
            RecordValue::Single(2.0),
            RecordValue::Single(3.0),
            RecordValue::Integer(7),
        ])
        .unwrap();
        pc.finalize().unwrap();
        writer.finalize().unwrap();
    }

    let reader = E57Reader::new(Cursor::new(file.into_inner())).unwrap();
    let pcs = reader.pointclouds();
    assert_eq!(pcs.len(), 1);
    let read_names: Vec<RecordName> = pcs[0].prototype.iter().map(|r| r.name.clone()).collect();
    let written_names: Vec<RecordName> = prototype.iter().map(|r| r.name.clone()).collect();
    assert_eq!(
        read_names, written_names,
        "the record names of the prototype must survive the round trip unchanged"
    );
}
