// C01 demo 3: calling PointCloudWriter::finalize() a second time reports Ok(()) and
// registers the same point cloud a second time, so the file contains two point clouds
// (same GUID, same section) although only one was added.
use e57::{E57Reader, E57Writer, RawValues, Record, RecordValue, Result};
use std::io::Cursor;

#[test]
fn pointcloud_finalize_twice_does_not_duplicate_the_point_cloud() {
    let prototype = vec![
        Record::CARTESIAN_X_F32,
        Record::CARTESIAN_Y_F32,
        Record::CARTESIAN_Z_F32,
    ];
    let expected: Vec<RawValues> = (0..5)
        .map(|i| {
            vec![
                RecordValue::Single(i as f32),
                RecordValue::Single(0.5),
                RecordValue::Single(-0.0),
            ]
        })
        .collect();

    let mut file = Cursor::new(Vec::new());
    {
        let mut writer = E57Writer::new(&mut file, "file_guid").unwrap();
        let mut pc = writer.add_pointcloud("pc_guid", prototype).unwrap();
        for p in &expected {
            pc.add_point(p.clone()).unwrap();
        }
        pc.finalize().unwrap();
        // Repeated call: may be refused or ignored, but must not add the point cloud again
        let second = pc.finalize();
        println!("second PointCloudWriter::finalize returned {second:?}");
        writer.finalize().unwrap();
    }

    let mut reader = E57Reader::new(Cursor::new(file.into_inner())).unwrap();
    let pcs = reader.pointclouds();
    let mut total = 0;
    for pc in &pcs {
        let points = reader
            .pointcloud_raw(pc)
            .unwrap()
            .collect::<Result<Vec<RawValues>>>()
            .unwrap();
        total += points.len();
    }
    assert_eq!(
        pcs.len(),
        1,
        "one point cloud was added, the file must contain exactly one"
    );
    assert_eq!(total, expected.len(), "exactly the added points must be read back");
}
