// C01 demo 1: a second (successful) call of E57Writer::finalize() silently destroys the file.
//
// After the first finalize() the paged writer is left at physical offset 48 (directly behind
// the file header it just rewrote). Any later writer call (finalize again, add_pointcloud,
// add_blob, ...) writes there, on top of the first binary section, and reports Ok(()).
use e57::{E57Reader, E57Writer, RawValues, Record, RecordValue, Result};
use std::io::Cursor;

fn prototype() -> Vec<Record> {
    vec![
        Record::CARTESIAN_X_F32,
        Record::CARTESIAN_Y_F32,
        Record::CARTESIAN_Z_F32,
    ]
}

fn point(i: u32) -> RawValues {
    vec![
        RecordValue::Single(i as f32),
        RecordValue::Single(-1.5),
        RecordValue::Single(2.25),
    ]
}

fn read_all(file: Vec<u8>) -> Vec<Vec<RawValues>> {
    let mut reader = E57Reader::new(Cursor::new(file)).expect("finalized file must open");
    let mut result = Vec::new();
    for pc in reader.pointclouds() {
        let points = reader
            .pointcloud_raw(&pc)
            .expect("raw reader must open")
            .collect::<Result<Vec<RawValues>>>()
            .expect("all points must be readable");
        assert_eq!(points.len() as u64, pc.records);
        result.push(points);
    }
    result
}

#[test]
fn finalize_twice_keeps_points() {
    let expected: Vec<RawValues> = (0..10).map(point).collect();
    let mut file = Cursor::new(Vec::new());
    {
        let mut writer = E57Writer::new(&mut file, "file_guid").unwrap();
        let mut pc = writer.add_pointcloud("pc_guid", prototype()).unwrap();
        for p in &expected {
            pc.add_point(p.clone()).unwrap();
        }
        pc.finalize().unwrap();
        writer.finalize().unwrap();

        // Repeated call: may be refused or may be a no-op / rewrite,
        // but it must not report success for a destroyed file.
        let second = writer.finalize();
        println!("second finalize returned {second:?}");
    }
    let clouds = read_all(file.into_inner());
    assert_eq!(clouds.len(), 1);
    assert_eq!(clouds[0], expected);
}

#[test]
fn sections_added_after_finalize_do_not_destroy_earlier_ones() {
    let first: Vec<RawValues> = (0..10).map(point).collect();
    let second: Vec<RawValues> = (100..103).map(point).collect();
    let mut file = Cursor::new(Vec::new());
    let second_added;
    {
        let mut writer = E57Writer::new(&mut file, "file_guid").unwrap();
        let mut pc = writer.add_pointcloud("pc_guid_1", prototype()).unwrap();
        for p in &first {
            pc.add_point(p.clone()).unwrap();
        }
        pc.finalize().unwrap();
        writer.finalize().unwrap();

        // Each of these calls may be refused, but if they all report success
        // both point clouds must be in the file with their own points.
        second_added = match writer.add_pointcloud("pc_guid_2", prototype()) {
            Ok(mut pc) => {
                let mut ok = true;
                for p in &second {
                    ok &= pc.add_point(p.clone()).is_ok();
                }
                ok &= pc.finalize().is_ok();
                ok
            }
            Err(_) => false,
        } && writer.finalize().is_ok();
    }
    let clouds = read_all(file.into_inner());
    assert_eq!(clouds.len(), if second_added { 2 } else { 1 });
    assert_eq!(clouds[0], first);
    if second_added {
        assert_eq!(clouds[1], second);
    }
}
