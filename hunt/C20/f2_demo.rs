// C20 demo (lower confidence, depends on the reading of "extra columns"):
// e57-from-xyz documents its input format as
//   "The first three values in each line must be X, Y and Z (as floating point values)
//    and last three values must be integers between 0 and 255 for red, green and blue.
//    Any additional columns will be ignored."
// but the code takes columns 4-6 as colour, not the LAST three columns.
// For the very common "x y z intensity r g b" layout (an XYZ file with one extra column)
// the XYZ -> E57 -> XYZ round trip therefore changes the 8-bit colours (or aborts if the
// extra column is not an integer between 0 and 255).

use std::fs;
use std::path::PathBuf;
use std::process::Command;

#[test]
fn colours_survive_roundtrip_with_extra_column_before_rgb() {
    let root = PathBuf::from(env!("CARGO_MANIFEST_DIR"));
    let dir = root.join("target").join("f2_demo_tmp");
    let _ = fs::remove_dir_all(&dir);
    fs::create_dir_all(&dir).unwrap();

    let status = Command::new("cargo")
        .args(["build", "--offline", "-p", "e57-from-xyz", "-p", "e57-to-xyz"])
        .current_dir(&root)
        .status()
        .unwrap();
    assert!(status.success(), "building the tools failed");
    let bin = root.join("target").join("debug");

    // x y z <extra column> r g b  -- the LAST three values are the colour
    let xyz = dir.join("in.xyz");
    fs::write(&xyz, "1.5 2.5 3.5 77 10 20 30\n-1 -2 -3 200 0 128 255\n").unwrap();

    let out = Command::new(bin.join("e57-from-xyz")).arg(&xyz).output().unwrap();
    assert!(out.status.success(), "e57-from-xyz failed: {out:?}");
    let e57 = PathBuf::from(format!("{}.e57", xyz.display()));
    let out = Command::new(bin.join("e57-to-xyz")).arg(&e57).output().unwrap();
    assert!(out.status.success(), "e57-to-xyz failed: {out:?}");

    let back = fs::read_to_string(format!("{}.xyz", e57.display())).unwrap();
    let rows: Vec<Vec<&str>> = back.lines().map(|l| l.split(' ').collect()).collect();
    assert_eq!(rows.len(), 2);

    // Coordinates are fine
    assert_eq!(rows[0][0].parse::<f32>().unwrap(), 1.5);
    assert_eq!(rows[1][2].parse::<f32>().unwrap(), -3.0);

    // Colours must be the documented last three values of each input line
    let rgb = |r: &Vec<&str>| -> Vec<u8> { r[3..6].iter().map(|v| v.parse().unwrap()).collect() };
    assert_eq!(rgb(&rows[0]), vec![10, 20, 30], "colours of line 1 changed");
    assert_eq!(rgb(&rows[1]), vec![0, 128, 255], "colours of line 2 changed");
}
