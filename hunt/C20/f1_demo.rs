// C20 demo: e57-unpack does not emit the raw point values the library returns
// when a page inside an (unrelated) image blob is damaged.
//
// The file is written with the crate's own writer (one image with a preview blob that
// spans several pages, one small point cloud). Then a single byte in a page that lies
// completely inside the image blob is flipped. The library still opens the file, still
// returns the XML and still returns ALL raw point values; only `E57Reader::blob()`
// fails (after returning the intact prefix of the blob).
// The unpack tool handles the images first and aborts on the first error, so it never
// writes pc_0.csv: the raw point values the library returns are not emitted at all.

use e57::{
    E57Reader, E57Writer, ImageFormat, Record, RecordValue, VisualReferenceImageProperties,
};
use std::fs;
use std::io::Cursor;
use std::path::PathBuf;
use std::process::Command;

const POINTS: usize = 10;

#[test]
fn unpack_emits_points_even_if_an_image_blob_page_is_damaged() {
    let root = PathBuf::from(env!("CARGO_MANIFEST_DIR"));
    let dir = root.join("target").join("f1_demo_tmp");
    let _ = fs::remove_dir_all(&dir);
    fs::create_dir_all(&dir).unwrap();
    let intact = dir.join("intact.e57");
    let damaged = dir.join("damaged.e57");

    // 1. Write an intact file: image (preview blob of 6000 bytes) + point cloud
    {
        let mut writer = E57Writer::from_file(&intact, "file-guid").unwrap();

        let blob_bytes: Vec<u8> = (0..6000_u32).map(|i| (i * 7 + 3) as u8).collect();
        let mut img = writer.add_image("image-guid").unwrap();
        img.add_visual_reference(
            ImageFormat::Png,
            &mut Cursor::new(blob_bytes),
            VisualReferenceImageProperties {
                width: 10,
                height: 10,
            },
            None,
        )
        .unwrap();
        img.finalize().unwrap();

        let prototype = vec![
            Record::CARTESIAN_X_F32,
            Record::CARTESIAN_Y_F32,
            Record::CARTESIAN_Z_F32,
        ];
        let mut pc = writer.add_pointcloud("pc-guid", prototype).unwrap();
        for i in 0..POINTS {
            pc.add_point(vec![
                RecordValue::Single(i as f32 + 0.5),
                RecordValue::Single(-(i as f32)),
                RecordValue::Single(i as f32 * 0.25),
            ])
            .unwrap();
        }
        pc.finalize().unwrap();
        writer.finalize().unwrap();
    }

    // 2. Damage one page that lies completely inside the image blob
    let (blob_offset, blob_length, pc_offset, xml_offset) = {
        let reader = E57Reader::from_file(&intact).unwrap();
        let img = &reader.images()[0];
        let blob = &img.visual_reference.as_ref().unwrap().blob.data;
        (
            blob.offset,
            blob.length,
            reader.pointclouds()[0].file_offset,
            reader.header().phys_xml_offset,
        )
    };
    let damaged_page = blob_offset / 1024 + 2;
    assert!(damaged_page * 1024 > blob_offset + 16);
    assert!((damaged_page + 1) * 1024 < blob_offset + 16 + blob_length);
    assert!(pc_offset / 1024 > damaged_page, "point data must not share the damaged page");
    assert!(xml_offset / 1024 > damaged_page, "XML must not share the damaged page");
    let mut bytes = fs::read(&intact).unwrap();
    bytes[(damaged_page * 1024 + 100) as usize] ^= 0xFF;
    fs::write(&damaged, &bytes).unwrap();

    // 3. What the library returns for the damaged file
    let mut reader = E57Reader::from_file(&damaged).expect("library opens the damaged file");
    let pcs = reader.pointclouds();
    let expected: Vec<Vec<RecordValue>> = reader
        .pointcloud_raw(&pcs[0])
        .unwrap()
        .collect::<e57::Result<Vec<_>>>()
        .expect("library returns all raw points of the damaged file");
    assert_eq!(expected.len(), POINTS);
    let img = reader.images().remove(0);
    let mut sink = Vec::new();
    assert!(
        reader
            .blob(&img.visual_reference.unwrap().blob.data, &mut sink)
            .is_err(),
        "sanity: only the blob is affected by the damage"
    );

    // 4. What the unpack tool emits for the same file
    let status = Command::new("cargo")
        .args(["build", "--offline", "-p", "e57-unpack"])
        .current_dir(&root)
        .status()
        .unwrap();
    assert!(status.success(), "building e57-unpack failed");
    let tool = root.join("target").join("debug").join("e57-unpack");
    let output = Command::new(tool).arg(&damaged).output().unwrap();
    println!("tool exit status: {:?}", output.status.code());

    let unpacked = PathBuf::from(format!("{}_unpacked", damaged.display()));
    assert!(
        unpacked.join("metadata.xml").exists(),
        "sanity: the tool ran and wrote the XML"
    );

    // The library returned 10 raw points, so the tool has to emit exactly these 10 raw points
    let csv_path = unpacked.join("pc_0.csv");
    let csv = fs::read_to_string(&csv_path).unwrap_or_else(|_| {
        panic!(
            "e57-unpack did not emit {} although the library returns all {} raw points of this file",
            csv_path.display(),
            POINTS
        )
    });
    let lines: Vec<&str> = csv.lines().skip(1).collect();
    assert_eq!(lines.len(), expected.len());
    for (line, exp) in lines.iter().zip(expected.iter()) {
        let got: Vec<f32> = line.split(';').map(|v| v.parse().unwrap()).collect();
        let exp: Vec<f32> = exp
            .iter()
            .map(|v| match v {
                RecordValue::Single(s) => *s,
                _ => unreachable!(),
            })
            .collect();
        assert_eq!(got, exp);
    }
}
