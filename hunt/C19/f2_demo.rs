//! C19 demo 2: an extension namespace that is declared on a nested element (not on e57Root)
//! is used by a point attribute. The file is readable, the attribute is reported with its
//! namespace prefix, but `extensions()` does not list the namespace, so the point cloud
//! cannot be written again with the same prototype: the copy fails.

use e57::{
    E57Reader, E57Writer, Extension, RawValues, Record, RecordDataType, RecordName, RecordValue,
    Result,
};
use std::io::Cursor;

fn copy(src: &[u8]) -> Result<Vec<u8>> {
    let mut out = Vec::new();
    {
        let mut r = E57Reader::new(Cursor::new(src.to_vec()))?;
        let guid = r.guid().to_owned();
        let mut w = E57Writer::new(Cursor::new(&mut out), &guid)?;
        for e in r.extensions() {
            w.register_extension(e)?;
        }
        for pc in r.pointclouds() {
            let points = r.pointcloud_raw(&pc)?.collect::<Result<Vec<RawValues>>>()?;
            let mut pw = w.add_pointcloud(pc.guid.as_deref().unwrap_or(""), pc.prototype.clone())?;
            pw.set_intensity_limits(pc.intensity_limits.clone());
            pw.set_color_limits(pc.color_limits.clone());
            for p in points {
                pw.add_point(p)?;
            }
            pw.finalize()?;
        }
        w.finalize()?;
    }
    Ok(out)
}

/// Same bytes as the writer would produce, except that the namespace declaration of the
/// extension sits on the prototype element instead of the root element (legal XML namespaces).
fn foreign_file() -> Vec<u8> {
    let mut out = Vec::new();
    {
        let mut w = E57Writer::new(Cursor::new(&mut out), "file-guid").unwrap();
        w.register_extension(Extension::new("ext", "urn:example:ext"))
            .unwrap();
        let prototype = vec![
            Record::CARTESIAN_X_F32,
            Record::CARTESIAN_Y_F32,
            Record::CARTESIAN_Z_F32,
            Record {
                name: RecordName::Unknown {
                    namespace: "ext".to_owned(),
                    name: "classification".to_owned(),
                },
                data_type: RecordDataType::U8,
            },
        ];
        let mut pw = w.add_pointcloud("pc-guid", prototype).unwrap();
        pw.add_point(vec![
            RecordValue::Single(1.0),
            RecordValue::Single(2.0),
            RecordValue::Single(3.0),
            RecordValue::Integer(7),
        ])
        .unwrap();
        pw.finalize().unwrap();
        w.finalize_customized_xml(|xml| {
            let moved = xml
                .replace("xmlns:ext=\"urn:example:ext\" ", "")
                .replace(
                    "<prototype type=\"Structure\">",
                    "<prototype type=\"Structure\" xmlns:ext=\"urn:example:ext\">",
                );
            assert_ne!(moved, xml);
            Ok(moved)
        })
        .unwrap();
    }
    out
}

#[test]
fn nested_namespace_declaration_can_be_copied() {
    let original = foreign_file();

    // Readable, the prototype follows all rules of the writer (valid names, known prefix)
    let mut r0 = E57Reader::new(Cursor::new(original.clone())).unwrap();
    let pc0 = r0.pointclouds().remove(0);
    assert_eq!(
        pc0.prototype[3].name,
        RecordName::Unknown {
            namespace: "ext".to_owned(),
            name: "classification".to_owned()
        }
    );
    let points0 = r0
        .pointcloud_raw(&pc0)
        .unwrap()
        .collect::<Result<Vec<_>>>()
        .unwrap();
    assert_eq!(points0[0][3], RecordValue::Integer(7));

    // C19: reading the file and writing its point clouds into a new file succeeds ...
    let copied = copy(&original).expect("copy of a readable file must succeed");

    // ... and the content is the same
    let mut r1 = E57Reader::new(Cursor::new(copied)).unwrap();
    let pc1 = r1.pointclouds().remove(0);
    assert_eq!(pc1.prototype[3].name, pc0.prototype[3].name);
    let points1 = r1
        .pointcloud_raw(&pc1)
        .unwrap()
        .collect::<Result<Vec<_>>>()
        .unwrap();
    assert_eq!(points1, points0);
}
