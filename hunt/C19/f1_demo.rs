//! C19 demo 1: a carriage return inside a string (legal XML: written as the character
//! reference `&#13;` by a producer that escapes its strings) is turned into a line feed
//! by a copy through the library.

use e57::{E57Reader, E57Writer, RawValues, Record, RecordValue, Result};
use std::io::Cursor;

/// Straightforward copy through the public API: every point cloud with the same prototype,
/// the same raw values and all metadata that has a setter.
fn copy(src: &[u8]) -> Result<Vec<u8>> {
    let mut out = Vec::new();
    {
        let mut r = E57Reader::new(Cursor::new(src.to_vec()))?;
        let guid = r.guid().to_owned();
        let mut w = E57Writer::new(Cursor::new(&mut out), &guid)?;
        w.set_creation(r.creation());
        w.set_coordinate_metadata(r.coordinate_metadata().map(String::from));
        for e in r.extensions() {
            w.register_extension(e)?;
        }
        for pc in r.pointclouds() {
            let points = r.pointcloud_raw(&pc)?.collect::<Result<Vec<RawValues>>>()?;
            let mut pw = w.add_pointcloud(pc.guid.as_deref().unwrap_or(""), pc.prototype.clone())?;
            pw.set_name(pc.name.clone());
            pw.set_description(pc.description.clone());
            pw.set_original_guids(pc.original_guids.clone());
            pw.set_transform(pc.transform.clone());
            pw.set_acquisition_start(pc.acquisition_start.clone());
            pw.set_acquisition_end(pc.acquisition_end.clone());
            pw.set_sensor_vendor(pc.sensor_vendor.clone());
            pw.set_sensor_model(pc.sensor_model.clone());
            pw.set_sensor_serial(pc.sensor_serial.clone());
            pw.set_sensor_hw_version(pc.sensor_hw_version.clone());
            pw.set_sensor_sw_version(pc.sensor_sw_version.clone());
            pw.set_sensor_fw_version(pc.sensor_fw_version.clone());
            pw.set_temperature(pc.temperature);
            pw.set_humidity(pc.humidity);
            pw.set_atmospheric_pressure(pc.atmospheric_pressure);
            pw.set_intensity_limits(pc.intensity_limits.clone());
            pw.set_color_limits(pc.color_limits.clone());
            for p in points {
                pw.add_point(p)?;
            }
            pw.finalize()?;
        }
        w.finalize()?;
    }
    Ok(out)
}

/// A small file as another producer would write it: strings are stored as escaped text
/// instead of CDATA sections, the carriage return is written as `&#13;` (the only way to
/// keep it, since XML parsers normalize literal CR characters).
fn foreign_file() -> Vec<u8> {
    let mut out = Vec::new();
    {
        let mut w = E57Writer::new(Cursor::new(&mut out), "file-guid").unwrap();
        w.set_coordinate_metadata(Some("WKT".to_owned()));
        let prototype = vec![
            Record::CARTESIAN_X_F32,
            Record::CARTESIAN_Y_F32,
            Record::CARTESIAN_Z_F32,
        ];
        let mut pw = w.add_pointcloud("pc-guid", prototype).unwrap();
        pw.set_name(Some("NAME".to_owned()));
        pw.set_description(Some("DESC".to_owned()));
        pw.add_point(vec![
            RecordValue::Single(1.0),
            RecordValue::Single(2.0),
            RecordValue::Single(3.0),
        ])
        .unwrap();
        pw.finalize().unwrap();
        w.finalize_customized_xml(|xml| {
            Ok(xml
                .replace("<![CDATA[NAME]]>", "Scan 1&#13;&#10;second line")
                .replace("<![CDATA[DESC]]>", "old Mac line end&#13;next")
                .replace("<![CDATA[WKT]]>", "PROJCS[&quot;x&quot;,&#13;&#10; GEOGCS[]]"))
        })
        .unwrap();
    }
    out
}

#[test]
fn carriage_return_in_strings_survives_a_copy() {
    let original = foreign_file();

    // The original is readable and the reader hands out the carriage returns
    let r0 = E57Reader::new(Cursor::new(original.clone())).unwrap();
    let pc0 = r0.pointclouds().remove(0);
    assert_eq!(pc0.name.as_deref(), Some("Scan 1\r\nsecond line"));
    assert_eq!(pc0.description.as_deref(), Some("old Mac line end\rnext"));
    assert_eq!(
        r0.coordinate_metadata(),
        Some("PROJCS[\"x\",\r\n GEOGCS[]]")
    );

    // Copy through the library and read back
    let copied = copy(&original).expect("copy must succeed");
    let r1 = E57Reader::new(Cursor::new(copied)).unwrap();
    let pc1 = r1.pointclouds().remove(0);

    // C19: the content of the copy, as read back, equals the original's
    assert_eq!(pc1.name, pc0.name, "name changed by the copy");
    assert_eq!(
        pc1.description, pc0.description,
        "description changed by the copy"
    );
    assert_eq!(
        r1.coordinate_metadata(),
        r0.coordinate_metadata(),
        "coordinate metadata changed by the copy"
    );
}
