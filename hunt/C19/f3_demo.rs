//! C19 demo 3: the reader deliberately accepts point clouds and images without a GUID
//! (`PointCloud::guid` / `Image::guid` are `Option`s for exactly that reason), but the writer
//! cannot leave the GUID out: `add_pointcloud` / `add_image` take a `&str` and always emit
//! a `<guid>` element. A copy therefore turns "no GUID" into "empty GUID".

use e57::{
    E57Reader, E57Writer, ImageFormat, Projection, RawValues, Record, RecordValue, Result,
    VisualReferenceImageProperties,
};
use std::io::Cursor;

fn copy(src: &[u8]) -> Result<Vec<u8>> {
    let mut out = Vec::new();
    {
        let mut r = E57Reader::new(Cursor::new(src.to_vec()))?;
        let guid = r.guid().to_owned();
        let mut w = E57Writer::new(Cursor::new(&mut out), &guid)?;
        for pc in r.pointclouds() {
            let points = r.pointcloud_raw(&pc)?.collect::<Result<Vec<RawValues>>>()?;
            // There is no way to pass "no GUID", the empty string is the closest thing
            let mut pw = w.add_pointcloud(pc.guid.as_deref().unwrap_or(""), pc.prototype.clone())?;
            pw.set_name(pc.name.clone());
            pw.set_intensity_limits(pc.intensity_limits.clone());
            pw.set_color_limits(pc.color_limits.clone());
            for p in points {
                pw.add_point(p)?;
            }
            pw.finalize()?;
        }
        for img in r.images() {
            let mut iw = w.add_image(img.guid.as_deref().unwrap_or(""))?;
            if let Some(name) = &img.name {
                iw.set_name(name);
            }
            assert!(matches!(img.projection, None::<Projection>));
            let vr = img.visual_reference.as_ref().unwrap();
            let mut data = Vec::new();
            r.blob(&vr.blob.data, &mut data)?;
            iw.add_visual_reference(
                vr.blob.format.clone(),
                &mut Cursor::new(data),
                vr.properties.clone(),
                None,
            )?;
            iw.finalize()?;
        }
        w.finalize()?;
    }
    Ok(out)
}

/// A file whose data3D and images2D entries have no guid child, like the files written by
/// the reference implementation that made the reader accept a missing GUID.
fn foreign_file() -> Vec<u8> {
    let mut out = Vec::new();
    {
        let mut w = E57Writer::new(Cursor::new(&mut out), "file-guid").unwrap();
        let prototype = vec![
            Record::CARTESIAN_X_F32,
            Record::CARTESIAN_Y_F32,
            Record::CARTESIAN_Z_F32,
        ];
        let mut pw = w.add_pointcloud("pc-guid", prototype).unwrap();
        pw.set_name(Some("scan".to_owned()));
        pw.add_point(vec![
            RecordValue::Single(1.0),
            RecordValue::Single(2.0),
            RecordValue::Single(3.0),
        ])
        .unwrap();
        pw.finalize().unwrap();
        let mut iw = w.add_image("img-guid").unwrap();
        iw.set_name("preview");
        iw.add_visual_reference(
            ImageFormat::Png,
            &mut Cursor::new(vec![1_u8, 2, 3, 4, 5]),
            VisualReferenceImageProperties {
                width: 1,
                height: 1,
            },
            None,
        )
        .unwrap();
        iw.finalize().unwrap();
        w.finalize_customized_xml(|xml| {
            let stripped = xml
                .replace("<guid type=\"String\"><![CDATA[pc-guid]]></guid>\n", "")
                .replace("<guid type=\"String\"><![CDATA[img-guid]]></guid>\n", "");
            assert_eq!(stripped.matches("<guid").count(), 1); // only the file GUID is left
            Ok(stripped)
        })
        .unwrap();
    }
    out
}

#[test]
fn missing_guids_stay_missing_in_a_copy() {
    let original = foreign_file();
    let r0 = E57Reader::new(Cursor::new(original.clone())).unwrap();
    let pc0 = r0.pointclouds().remove(0);
    let img0 = r0.images().remove(0);
    assert_eq!(pc0.guid, None);
    assert_eq!(img0.guid, None);
    assert_eq!(pc0.name.as_deref(), Some("scan"));

    let copied = copy(&original).expect("copy must succeed");
    let r1 = E57Reader::new(Cursor::new(copied.clone())).unwrap();
    let pc1 = r1.pointclouds().remove(0);
    let img1 = r1.images().remove(0);

    // C19: the content of the copy, as read back, equals the original's
    assert_eq!(pc1.guid, pc0.guid, "point cloud GUID changed by the copy");
    assert_eq!(img1.guid, img0.guid, "image GUID changed by the copy");
}
