// C04 violation: limits set by the caller with only some of the optional members
// present are silently dropped by the writer and come back as `None`.
use e57::{ColorLimits, E57Reader, E57Writer, IntensityLimits, Record, RecordValue};
use std::io::Cursor;

#[test]
fn partially_filled_limits_survive() {
    let mut buf = Cursor::new(Vec::new());
    {
        let mut writer = E57Writer::new(&mut buf, "file-guid").unwrap();
        let prototype = vec![
            Record::CARTESIAN_X_F64,
            Record::CARTESIAN_Y_F64,
            Record::CARTESIAN_Z_F64,
            Record::COLOR_RED_U8,
            Record::COLOR_GREEN_U8,
            Record::COLOR_BLUE_U8,
            Record::INTENSITY_U16,
        ];
        let mut pc = writer.add_pointcloud("pc-guid", prototype).unwrap();
        pc.set_intensity_limits(Some(IntensityLimits {
            intensity_min: Some(RecordValue::Integer(3)),
            intensity_max: None,
        }));
        pc.set_color_limits(Some(ColorLimits {
            red_min: Some(RecordValue::Integer(0)),
            red_max: Some(RecordValue::Integer(200)),
            green_min: Some(RecordValue::Integer(0)),
            green_max: Some(RecordValue::Integer(201)),
            blue_min: Some(RecordValue::Integer(0)),
            blue_max: None,
        }));
        pc.finalize().unwrap();
        writer.finalize().unwrap();
    }
    let reader = E57Reader::new(Cursor::new(buf.into_inner())).unwrap();
    let pc = &reader.pointclouds()[0];

    let il = pc
        .intensity_limits
        .as_ref()
        .expect("intensity limits set by the caller are gone");
    assert_eq!(il.intensity_min, Some(RecordValue::Integer(3)));
    assert_eq!(il.intensity_max, None);

    let cl = pc
        .color_limits
        .as_ref()
        .expect("color limits set by the caller are gone");
    assert_eq!(cl.red_max, Some(RecordValue::Integer(200)));
    assert_eq!(cl.green_max, Some(RecordValue::Integer(201)));
    assert_eq!(cl.blue_min, Some(RecordValue::Integer(0)));
    assert_eq!(cl.blue_max, None);
}
