// C04 violation: an extension URL that is one of the two URIs reserved by the
// "Namespaces in XML" recommendation is accepted by the writer, finalize reports
// success, but the reader cannot open the resulting file at all.
use e57::{E57Reader, E57Writer, Extension};
use std::io::Cursor;

fn roundtrip(url: &str) {
    let mut buf = Cursor::new(Vec::new());
    {
        let mut writer = E57Writer::new(&mut buf, "file-guid").unwrap();
        writer.set_coordinate_metadata(Some("meta".to_owned()));
        writer
            .register_extension(Extension::new("ext", url))
            .unwrap();
        writer.finalize().unwrap();
    }
    let reader = match E57Reader::new(Cursor::new(buf.into_inner())) {
        Ok(reader) => reader,
        Err(err) => panic!("file written without any error cannot be read: {err}"),
    };
    let exts = reader.extensions();
    assert_eq!(exts.len(), 1);
    assert_eq!(exts[0].namespace, "ext");
    assert_eq!(exts[0].url, url);
    assert_eq!(reader.coordinate_metadata(), Some("meta"));
}

#[test]
fn extension_url_is_xml_namespace_uri() {
    roundtrip("http://www.w3.org/XML/1998/namespace");
}

#[test]
fn extension_url_is_xmlns_namespace_uri() {
    roundtrip("http://www.w3.org/2000/xmlns/");
}
