// C04 violation: two registered extensions that share one URL (or one that uses the
// E57 namespace URL) change the names of extension records in the prototype on read.
use e57::{E57Reader, E57Writer, Extension, Record, RecordDataType, RecordName, RecordValue};
use std::io::Cursor;

fn unknown(ns: &str, name: &str) -> Record {
    Record {
        name: RecordName::Unknown {
            namespace: ns.to_owned(),
            name: name.to_owned(),
        },
        data_type: RecordDataType::Integer { min: 0, max: 10 },
    }
}

fn roundtrip(exts: &[Extension], extra: Vec<Record>) -> (Vec<Extension>, Vec<RecordName>) {
    let mut buf = Cursor::new(Vec::new());
    {
        let mut writer = E57Writer::new(&mut buf, "file-guid").unwrap();
        for e in exts {
            writer.register_extension(e.clone()).unwrap();
        }
        let mut prototype = vec![
            Record::CARTESIAN_X_F64,
            Record::CARTESIAN_Y_F64,
            Record::CARTESIAN_Z_F64,
        ];
        let extra_len = extra.len();
        prototype.extend(extra);
        let mut pc = writer.add_pointcloud("pc-guid", prototype).unwrap();
        let mut point = vec![RecordValue::Double(1.0); 3];
        point.extend(vec![RecordValue::Integer(1); extra_len]);
        pc.add_point(point).unwrap();
        pc.finalize().unwrap();
        writer.finalize().unwrap();
    }
    let reader = E57Reader::new(Cursor::new(buf.into_inner())).unwrap();
    let names = reader.pointclouds()[0]
        .prototype
        .iter()
        .map(|r| r.name.clone())
        .collect();
    (reader.extensions(), names)
}

#[test]
fn two_extensions_with_the_same_url() {
    // Two prefixes bound to the same URI is perfectly legal XML and accepted by the writer
    let exts = [
        Extension::new("vendor_a", "http://example.com/shared"),
        Extension::new("vendor_b", "http://example.com/shared"),
    ];
    let (read_exts, names) = roundtrip(
        &exts,
        vec![unknown("vendor_a", "one"), unknown("vendor_b", "two")],
    );

    // Registered extensions come back unchanged...
    assert_eq!(read_exts.len(), 2);
    assert_eq!(read_exts[1].namespace, "vendor_b");

    // ...but the name of the second extension record does not
    assert_eq!(names[3], unknown("vendor_a", "one").name);
    assert_eq!(
        names[4],
        unknown("vendor_b", "two").name,
        "namespace of the extension record changed on the way through write -> read"
    );
}

#[test]
fn extension_using_the_e57_namespace_url() {
    let exts = [Extension::new(
        "foo",
        "http://www.astm.org/COMMIT/E57/2010-e57-v1.0",
    )];
    let (_, names) = roundtrip(&exts, vec![unknown("foo", "intensity")]);
    assert_eq!(
        names[3],
        unknown("foo", "intensity").name,
        "extension record was turned into a standard record"
    );
}
