// C03 (any legal lexical form of the XML) / C18: a legal XML section is refused once its
// character data is split into enough pieces for `join_text_pieces()` to run.
//
// The string "xx...x]]>" is written as CDATA sections followed by a literal '>':
//     <![CDATA[x]]> ... <![CDATA[x]]><![CDATA[]]]]>>
// The last CDATA section holds "]]", the '>' behind it is ordinary character data.
// That is well-formed XML ("]]>" never appears as text) and the reader accepts it
// as long as there are few pieces. With many pieces the reader rewrites the CDATA
// sections as escaped text but copies text pieces unchanged, which produces the
// literal text "]]>" - the XML parser rejects that and the whole file cannot be opened.
use e57::{E57Reader, E57Writer, Record, RecordValue};
use std::io::Cursor;

fn file_with_name_xml(name_xml: &str) -> Vec<u8> {
    let mut buf = Cursor::new(Vec::new());
    {
        let mut w = E57Writer::new(&mut buf, "file-guid").unwrap();
        let proto = vec![
            Record::CARTESIAN_X_F32,
            Record::CARTESIAN_Y_F32,
            Record::CARTESIAN_Z_F32,
        ];
        let mut pw = w.add_pointcloud("pc-guid", proto).unwrap();
        pw.set_name(Some("NAME".to_string()));
        pw.add_point(vec![
            RecordValue::Single(1.0),
            RecordValue::Single(2.0),
            RecordValue::Single(3.0),
        ])
        .unwrap();
        pw.finalize().unwrap();
        w.finalize_customized_xml(|xml| {
            assert!(xml.contains("<![CDATA[NAME]]>"));
            Ok(xml.replace("<![CDATA[NAME]]>", name_xml))
        })
        .unwrap();
    }
    buf.into_inner()
}

fn read_name(pieces: usize) -> Result<String, String> {
    // `pieces` CDATA sections with one 'x' each, then "]]" as CDATA and '>' as plain text
    let name_xml = format!("{}<![CDATA[]]]]>>", "<![CDATA[x]]>".repeat(pieces));
    let bytes = file_with_name_xml(&name_xml);
    let reader = E57Reader::new(Cursor::new(bytes)).map_err(|e| e.to_string())?;
    let pcs = reader.pointclouds();
    Ok(pcs[0].name.clone().unwrap())
}

#[test]
fn few_pieces_are_read() {
    // Control: the same lexical form with few pieces is accepted and decoded correctly
    assert_eq!(read_name(5), Ok(format!("{}]]>", "x".repeat(5))));
}

#[test]
fn many_pieces_are_read_as_well() {
    // 2000 pieces (26 KB of XML) are enough to make the reader join the pieces first
    let name = read_name(2000);
    assert!(name.is_ok(), "a well-formed file was refused: {name:?}");
    assert!(name == Ok(format!("{}]]>", "x".repeat(2000))), "wrong name");
}
