// C13: limits that are both given are the range of the normalisation, also when their type differs from the record's.
// A ScaledInteger limit of a record that is no scaled integer is read as "scale 1, offset 0" (limits.rs, 5ab529d) and
// reported as RecordValue::ScaledInteger(raw), but Range::from_limits cannot turn it into a number and silently
// falls back to the range of the data type.
use e57::*;
use std::io::Cursor;

fn write(dt: RecordDataType, limits: IntensityLimits, values: &[RecordValue], scale_attr: Option<&str>) -> Vec<u8> {
    let mut buf = Cursor::new(Vec::new());
    {
        let mut w = E57Writer::new(&mut buf, "file").unwrap();
        let proto = vec![
            Record::CARTESIAN_X_F32,
            Record::CARTESIAN_Y_F32,
            Record::CARTESIAN_Z_F32,
            Record { name: RecordName::Intensity, data_type: dt },
        ];
        let mut pw = w.add_pointcloud("pc", proto).unwrap();
        pw.set_intensity_limits(Some(limits));
        for v in values {
            pw.add_point(vec![
                RecordValue::Single(0.0),
                RecordValue::Single(0.0),
                RecordValue::Single(0.0),
                v.clone(),
            ])
            .unwrap();
        }
        pw.finalize().unwrap();
        let attr = scale_attr.map(|s| s.to_owned());
        w.finalize_customized_xml(|xml| {
            Ok(match &attr {
                // The same element with its default attributes spelled out, or in other units
                Some(a) => xml.replace("mum type=\"ScaledInteger\">", &format!("mum type=\"ScaledInteger\" {a}>")),
                None => xml,
            })
        })
        .unwrap();
    }
    buf.into_inner()
}

fn read(bytes: Vec<u8>) -> (IntensityLimits, Vec<f32>) {
    let mut r = E57Reader::new(Cursor::new(bytes)).unwrap();
    let pc = r.pointclouds().remove(0);
    let limits = pc.intensity_limits.clone().unwrap();
    let values = r
        .pointcloud_simple(&pc)
        .unwrap()
        .map(|p| p.unwrap().intensity.unwrap())
        .collect();
    (limits, values)
}

fn limits(min: i64, max: i64) -> IntensityLimits {
    IntensityLimits {
        intensity_min: Some(RecordValue::ScaledInteger(min)),
        intensity_max: Some(RecordValue::ScaledInteger(max)),
    }
}

#[test]
fn scaled_integer_limits_of_integer_record_are_used() {
    let dt = RecordDataType::Integer { min: 0, max: 100 };
    let values = [RecordValue::Integer(10), RecordValue::Integer(15), RecordValue::Integer(20)];

    // Control: the same limits in other units (2 * 5 + 0 = 10, 2 * 10 + 0 = 20) are used
    let (lim, norm) = read(write(dt.clone(), limits(5, 10), &values, Some("scale=\"2\"")));
    assert_eq!(lim.intensity_min, Some(RecordValue::Double(10.0)));
    assert_eq!(lim.intensity_max, Some(RecordValue::Double(20.0)));
    assert_eq!(norm, vec![0.0, 0.5, 1.0]);

    // Plain writer API, no XML customisation: limits 10..20 come back as given ...
    let (lim, norm) = read(write(dt, limits(10, 20), &values, None));
    assert_eq!(lim.intensity_min, Some(RecordValue::ScaledInteger(10)));
    assert_eq!(lim.intensity_max, Some(RecordValue::ScaledInteger(20)));
    // ... but the normalisation ignores them and uses 0..100 of the data type: [0.1, 0.15, 0.2]
    assert_eq!(norm, vec![0.0, 0.5, 1.0], "limits 10..20 are both given and must be the range");
}

#[test]
fn scaled_integer_limits_of_float_record_are_used() {
    let dt = RecordDataType::Double { min: Some(0.0), max: Some(100.0) };
    let values = [RecordValue::Double(10.0), RecordValue::Double(15.0), RecordValue::Double(20.0)];
    // Defaults spelled out: scale 1 and offset 0 stand for the raw number
    let (_, norm) = read(write(dt, limits(10, 20), &values, Some("scale=\"1\" offset=\"0\"")));
    assert_eq!(norm, vec![0.0, 0.5, 1.0], "limits 10..20 are both given and must be the range");
}
