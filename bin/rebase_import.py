#!/usr/bin/env python3
"""Import seeded changes that were ported to the current tree and confirm them myself, in parallel lanes.

usage: bin/rebase_import.py [lanes]
Input : /tmp/rebase/b*/out/<name>/{patch.diff,demo.rs,note.md}  (from the porting sub-agents; note.md starting with
        OBSOLETE means the change has no counterpart any more) and seeded/<name>/patch.rebased.diff already in place.
Steps per change, in a scratch worktree of /repo HEAD and a scratch copy of /verif (never /repo or /verif themselves):
        the ported patch applies, the crate builds, the pinned suite passes with it, the demonstration fails with it and
        passes without it; then the property's own quick check runs against the patched copy.
Output: seeded/<name>/patch.rebased.diff, demo.rebased.rs (only if the demonstration had to be adapted), and
        seeded/REBASED.json  {name: {...}}
"""
import glob, json, os, re, shutil, subprocess, sys, threading, time

LANES = int(sys.argv[1]) if len(sys.argv) > 1 else 3
BASE = "/tmp/rebimp"
ENV = dict(os.environ, CARGO_NET_OFFLINE="true")
OUT = "/verif/seeded/REBASED.json"


def sh(cmd, cwd=None, env=None, timeout=3600):
    p = subprocess.run(cmd, shell=True, cwd=cwd, env=env or ENV, stdout=subprocess.PIPE, stderr=subprocess.STDOUT, timeout=timeout)
    return p.returncode, p.stdout.decode(errors="replace")


def main():
    results = json.load(open(OUT)) if os.path.exists(OUT) else {}
    # 1. import
    for d in sorted(glob.glob("/tmp/rebase/b*/out/*/")):
        n = os.path.basename(d[:-1])
        kept = f"/verif/seeded/{n}"
        note = open(d + "note.md").read().strip() if os.path.exists(d + "note.md") else ""
        if os.path.exists(d + "patch.diff") and not note.upper().startswith("OBSOLETE"):
            shutil.copy(d + "patch.diff", kept + "/patch.rebased.diff")
            if os.path.exists(d + "demo.rs") and open(d + "demo.rs").read() != open(kept + "/demo.rs").read():
                shutil.copy(d + "demo.rs", kept + "/demo.rebased.rs")
            open(kept + "/rebase_note.md", "w").write(note + "\n")
        elif note:
            open(kept + "/rebase_note.md", "w").write(note + "\n")
            results[n] = {"obsolete": True, "note": note[:1500]}
    json.dump(results, open(OUT, "w"), indent=1, sort_keys=True)
    head = sh("git -C /repo rev-parse --short HEAD")[1].strip()
    todo = [os.path.basename(os.path.dirname(p)) for p in sorted(glob.glob("/verif/seeded/*/patch.rebased.diff"))]
    todo = [n for n in todo if n not in results or results[n].get("repo_head") != head]
    if os.environ.get("ONLY"):
        # re-confirm just these (comma separated) instead of everything that was measured on an older HEAD
        only = os.environ["ONLY"].split(",")
        todo = [n for n in todo if n in only]
    lock = threading.Lock()

    def lane(l):
        v, r = f"{BASE}/v{l}", f"{BASE}/r{l}"
        os.makedirs(BASE, exist_ok=True)
        if not os.path.isdir(r):
            assert sh(f"git -C /repo worktree add --detach {r} HEAD")[0] == 0
        if not os.path.isdir(v):
            assert sh(f"git -C /verif worktree add --detach {v} HEAD")[0] == 0
        while True:
            with lock:
                if not todo:
                    return
                n = todo.pop(0)
            pid = n.split("-")[0]
            kept = f"/verif/seeded/{n}"
            patch = kept + "/patch.rebased.diff"
            demo = kept + "/demo.rebased.rs" if os.path.exists(kept + "/demo.rebased.rs") else kept + "/demo.rs"
            about = json.load(open(kept + "/meta.json")).get("needs_to_manifest", "")
            res = {"repo_head": head, "demo_adapted": demo.endswith("rebased.rs")}
            sh("git checkout -q -- . && git reset -q && git checkout -q -- . && git clean -fdq", cwd=r)
            rc, out = sh(f"git apply {patch}", cwd=r)
            res["applies"] = rc == 0
            if rc == 0:
                rc, out = sh("cargo test --workspace --no-fail-fast --offline", cwd=r)
                passed = sum(int(m) for m in re.findall(r"test result: \w+\. (\d+) passed", out))
                failed = sum(int(m) for m in re.findall(r"test result: \w+\. \d+ passed; (\d+) failed", out))
                res["suite_with_change"] = {"passed": passed, "failed": failed, "exit": rc}
                denv = dict(ENV)
                if pid == "C11" or "verif_hooks" in open(demo).read():
                    denv["RUSTFLAGS"] = "--cfg e57_verif"
                feat = "--features crc32c" if (pid == "C07" and "--features crc32c" in about) else ""
                shutil.copy(demo, f"{r}/tests/zz_demo.rs")
                rc_with, _ = sh(f"cargo test --offline {feat} --test zz_demo", cwd=r, env=denv, timeout=1800)
                sh("git checkout -q -- src tools", cwd=r)
                rc_without, _ = sh(f"cargo test --offline {feat} --test zz_demo", cwd=r, env=denv, timeout=1800)
                os.remove(f"{r}/tests/zz_demo.rs")
                res["demo_fails_with_change"] = rc_with != 0
                res["demo_passes_without_change"] = rc_without == 0
                res["confirmed"] = res["suite_with_change"]["exit"] == 0 and failed == 0 and passed >= 85 and rc_with != 0 and rc_without == 0
                if res["confirmed"]:
                    sh(f"git apply {patch}", cwd=r)
                    t0 = time.time()
                    rc, out = sh(f"{v}/bin/check {pid} quick", cwd=v, env=dict(ENV, E57_REPO=r), timeout=3600)
                    viol = [x for x in out.splitlines() if x.startswith("VIOLATION")]
                    msg = [x for x in out.splitlines() if " failed: " in x or "fails:" in x]
                    res.update({"exit": rc, "own_check_caught": rc == 1 and bool(viol), "wall_s": round(time.time() - t0, 1), "message": (msg[0][:300] if msg else (out.strip().splitlines()[-1][:300] if out.strip() else ""))})
            sh("git checkout -q -- . && git clean -fdq", cwd=r)
            with lock:
                results[n] = res
                json.dump(results, open(OUT, "w"), indent=1, sort_keys=True)
            print(n, res, flush=True)

    ts = [threading.Thread(target=lane, args=(l,)) for l in range(LANES)]
    [t.start() for t in ts]
    [t.join() for t in ts]
    for l in range(LANES):
        sh(f"git -C /repo worktree remove --force {BASE}/r{l}")
        sh(f"git -C /verif worktree remove --force {BASE}/v{l}")
    sh("git -C /repo worktree prune; git -C /verif worktree prune")
    sh(f"rm -rf {BASE}")


if __name__ == "__main__":
    main()
