#!/usr/bin/env python3
"""Regenerates /verif/MANIFEST.json from the table below and validates it."""
import json, sys

ALL = ["C%02d" % i for i in range(1, 21)]

# id -> (category, technique, level text, level note, design ref)
CHECKS = {
    "C01": ("exploration",
            "property-based testing: generated writer programs, write->read round-trip oracle against the generated input, tape shrinking",
            "Randomised exploration of writer programs (prototypes with every bit width 0..64, point counts around packet capacity, section positions swept mod 1020) with a round-trip oracle; finds counterexamples, cannot prove absence.",
            "Trusted: the harness's program executor and adapters; in-memory device semantics equal to a file.",
            "DESIGN.md section 5 C01"),
    "C02": ("exploration",
            "property-based testing: generated writer programs, differential oracle against an independent decoder/validator (e57ref) plus round trip against the generated input",
            "Randomised exploration of writer programs; each finalized file is validated item by item and decoded by an independent implementation of the format and compared with the writer's input and with the crate's own reader.",
            "Trusted: e57ref's reading of ASTM E2807 (preflight: accepts the 12 libE57Format-written bundled files without complaint and decodes all their points).",
            "DESIGN.md section 5 C02"),
    "C03": ("exploration",
            "property-based testing: scenes x legal layouts from an independent encoder (e57ref), oracle = reader output equals the encoded scene; reference decoder self-check per case",
            "Randomised exploration of the space of legal layouts (packetisation, interleaved non-data packets, padding, section order, XML lexical variants) produced by an independent encoder; finds counterexamples, cannot prove absence.",
            "Trusted: e57ref's encoder emits only legal files (every case is first decoded by e57ref's own decoder; disagreement is exit 2, not a violation).",
            "DESIGN.md section 5 C03"),
    "C04": ("exploration",
            "property-based testing: generated writer programs over every setter with adversarial strings/floats/integers, field-by-field round-trip oracle",
            "Randomised exploration of metadata values (XML-significant strings, non-finite floats, integer extremes, all image representations) with a field-by-field round-trip oracle and XML byte equality.",
            "Trusted: harness adapters mapping reader getters to the neutral scene model.",
            "DESIGN.md section 5 C04"),
    "C06": ("exploration",
            "property-based testing with an enumerated length sweep: blob/image programs, byte-exact round-trip oracle, descriptor perturbation against the logical stream",
            "Every blob length 0..=1030 (thorough 0..=4100 x 4 positions) enumerated plus randomised programs mixing blobs, images and clouds; byte-exact oracle.",
            "Trusted: e57ref page-layer unpaging for the perturbed-descriptor oracle.",
            "DESIGN.md section 5 C06"),
    "C05": ("exploration",
            "property-based testing: generated files (own writer + independent encoder) x all 64 option vectors, oracle = reference model of the documented simple-point function over the raw values",
            "Randomised exploration of files and exhaustive enumeration of the 2^6 option vectors per file; every delivered point is compared with an independently written model of the documented function.",
            "Trusted: the reference model's reading of the rustdoc; aspects the documentation leaves open are accepted in both readings (listed in evidence.assumptions).",
            "DESIGN.md section 5 C05"),
    "C07": ("fault_enumeration",
            "fault enumeration + property-based testing: every single-bit flip of every page of generated files, sampled multi-bit/burst/overwrite corruptions, oracle = 'Err or baseline' per read operation with ground truth from an independent bit-serial CRC-32C; differential between the two CRC backends",
            "Exhaustive over single-bit corruptions of every page of the enumerated files, sampled beyond; both cargo feature settings compared through a digest of files and verdicts.",
            "Trusted: e57ref's bit-serial CRC-32C (self-tested on the standard check value); E57Reader::header() is outside the statement.",
            "DESIGN.md section 5 C07"),
    "C15": ("fault_enumeration",
            "crash-point enumeration over generated writer programs: all prefixes of the device write sequence x torn-write cut positions, invariant against the completed file",
            "For each generated program every crash prefix and a dense (thorough: complete) set of cut positions inside each write is materialised and handed to the reader.",
            "Assumes writes reach the device in issue order and a torn write persists a prefix of the operation.",
            "DESIGN.md section 5 C15"),
    "C16": ("fault_enumeration",
            "fault injection enumeration over generated programs: one hard device error at every operation index (writer and reader side), plus generated short-transfer schedules with a byte-identity oracle",
            "Exhaustive over the position of a single injected device error for each generated writer and reader program; sampled chunking schedules.",
            "In-memory device model; faults that fire inside Drop cannot be reported by any call and are counted only.",
            "DESIGN.md section 5 C16"),
    "C17": ("exploration",
            "stateful property-based testing: generated read-operation histories on one reader (with damaged files), oracle = same operation on a freshly opened reader",
            "Randomised exploration of operation sequences with early termination over intact and damaged files.",
            "Trusted: canonical hashing of operation results.",
            "DESIGN.md section 5 C17"),
    "C18": ("exploration",
            "metamorphic property-based testing: generated foreign-namespace insertions (elements named like standard ones, foreign attributes) must leave everything the reader reports unchanged",
            "Randomised exploration of insertion positions, local names from the standard vocabulary, types and nesting; one known finding is matched by a causal signature so that other violations still surface.",
            "Trusted: the insertion-point scanner (each modified XML is re-validated by e57ref's strict XML parser).",
            "DESIGN.md section 5 C18"),
    "C19": ("exploration",
            "property-based testing: generated and bundled source files copied twice through the public API, round-trip and byte-identity (determinism) oracles",
            "Randomised exploration of source files from two independent producers plus all bundled files; idempotence and determinism checked byte for byte.",
            "Trusted: the copy routine uses only public API calls.",
            "DESIGN.md section 5 C19"),
    "C08": ("exploration",
            "structure-aware mutation fuzzing (generated mutation scripts over valid seed files, checksums re-sealed) in supervised worker processes built with overflow checks; oracle = no panic / abort / signal at any reading entry point",
            "Randomised structure-aware mutation of valid files from three producers; every reading entry point is exercised under catch_unwind in a worker whose death is attributed to the case in flight. The thorough tier adds a coverage-guided libFuzzer campaign over the same script decoder.",
            "Trusted: the supervisor's attribution of worker deaths (each is confirmed by re-running the case alone).",
            "DESIGN.md section 5 C08"),
    "C09": ("exploration",
            "structure-aware mutation fuzzing with deterministic resource oracles: counting allocator (peak heap growth per call), device byte counter, item count <= recordCount; watchdog only as backstop",
            "Randomised mutation weighted towards resource-relevant fields; per-call memory and I/O bounds are measured, not timed.",
            "Trusted: counting allocator and in-memory device counters; bound = 64 MiB + 512 x input size x (prototype length + 1).",
            "DESIGN.md section 5 C09"),
    "C10": ("exploration",
            "property-based testing over arbitrary writer call sequences (rule-breaking prototypes, out-of-range / mistyped / wrong-arity values, abandoned writers) in supervised workers; oracle = must-reject model + round trip of everything accepted",
            "Randomised exploration of invalid and degenerate API usage with a model of the documented rejection rules and a read-back oracle for whatever was accepted.",
            "Trusted: the harness's model of the documented prototype rules (gen::rule_violation).",
            "DESIGN.md section 5 C10"),
    "C11": ("exploration",
            "model-based (stateful) property testing: exhaustive operation histories to depth 4/5 over a 20-letter alphabet plus random histories, byte-vector reference model checked after every step",
            "Small-scope exhaustive core (all 20^4 writer histories, thorough 20^5) plus random histories up to 40 steps against a byte-vector model of the logical stream; reader histories over the resulting files.",
            "Trusted: the byte-vector model; the cfg(e57_verif) hook re-exports the page layer unchanged.",
            "DESIGN.md section 5 C11"),
    "C12": ("exploration",
            "enumerated grid + property-based testing: differential against a naive bit-by-bit codec in both directions (reader decodes e57ref-encoded streams at every cut position; writer streams compared bit for bit)",
            "Exhaustive grid over widths 0..64 x range variants x value sets x every cut position (reader direction) and widths x capacity boundary point counts (writer direction), plus random programs.",
            "Trusted: e57ref's naive bit codec (one bit at a time, LSB first).",
            "DESIGN.md section 5 C12"),
    "C13": ("exploration",
            "property-based testing: generated attribute types x limit settings x sorted stored values, oracle = overflow-free reference formula, range/monotonicity/endpoint invariants",
            "Randomised exploration of data types, limit settings (absent, partial, equal, mismatched, extreme) and boundary values with an independent reference formula.",
            "Trusted: the reference formula; NaN and inverted limits are outside the stated settings.",
            "DESIGN.md section 5 C13"),
    "C14": ("exploration",
            "property-based testing: generated prototypes/points, bounds recomputed independently from the generated points, limits from the declared ranges",
            "Randomised exploration of attribute-group subsets, data types and point sequences; bounds and limits are recomputed by an independent model and compared numerically.",
            "Trusted: harness model of min/max over real values; NaN excluded as the property states.",
            "DESIGN.md section 5 C14"),
    "C20": ("exploration",
            "property-based testing through real tool processes: generated XYZ files (round trip oracle) and generated E57 files incl. damaged pages (differential against the library and e57ref)",
            "Randomised XYZ and E57 inputs pushed through the five command line tools as processes; outputs compared with the inputs, the library API and the independent decoder.",
            "Tools are built from /repo's workspace by bin/check C20; single-space separated XYZ input as the tool documents.",
            "DESIGN.md section 5 C20"),
}

PENDING_REASON = "check not built yet in this round of work (see DESIGN.md section 10 for the build order); not claimed"


def main():
    checks = []
    for pid in ALL:
        if pid not in CHECKS:
            continue
        cat, tech, text, note, ref = CHECKS[pid]
        checks.append({
            "property_id": pid,
            "quick_cmd": f"bin/check {pid} quick",
            "thorough_cmd": f"bin/check {pid} thorough",
            "evidence_file": f"/verif/evidence/{pid}.json",
            "replay_cmd_template": f"bin/check {pid} quick --replay {{path}}",
            "engine": "e57check",
            "level_claimed": {"category": cat, "text": text, "design_ref": ref},
            "level_note": note,
            "technique": tech,
        })
    hooks_commits = []
    try:
        hooks_commits = [l.strip() for l in open("/verif/hook_commits.txt") if l.strip()]
    except FileNotFoundError:
        pass
    m = {
        "version": 1,
        "setup_cmd": "bin/setup",
        "hooks": {
            "guard": "--cfg e57_verif",
            "enable": "bin/check exports RUSTFLAGS=\"--cfg e57_verif\" for the harness build, which compiles /repo as a path dependency",
            "baseline_off_cmd": "cd /repo && cargo test --workspace --no-fail-fast --offline",
            "source_commits": hooks_commits,
            "add_only": True,
        },
        "engines": [{
            "name": "e57check",
            "path": "/verif/harness",
            "serves_properties": [c["property_id"] for c in checks],
            "kind_free_text": "Rust binary: choice-tape generators + sharded deterministic runner + tape shrinker (property-based testing), independent reference codec e57ref, instrumented in-memory devices; cargo-fuzz targets under /verif/fuzz reuse the same generators and oracles",
        }],
        "checks": checks,
        "not_applicable": [{"property_id": p, "reason": PENDING_REASON} for p in ALL if p not in CHECKS],
        "notes": "Known findings: /verif/known_findings.json. Regression replays: /verif/replays/<ID>/. Seeded mutants: /verif/seeded/.",
    }
    json.dump(m, open("/verif/MANIFEST.json", "w"), indent=1)
    try:
        import jsonschema
        jsonschema.validate(m, json.load(open("/root/.vp/MANIFEST.schema.json")))
        print("MANIFEST.json valid,", len(checks), "checks")
    except ImportError:
        print("jsonschema not available; wrote MANIFEST.json unvalidated")


if __name__ == "__main__":
    main()
