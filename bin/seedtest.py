#!/usr/bin/env python3
"""Validate a sub-agent's seeded change and run the checks against it.

usage: bin/seedtest.py <ID> <n> [--all | --checks C01,C02] [--tier quick]

Input : /tmp/seed/<ID>/out/m<n>.diff, m<n>_demo.rs, m<n>.md
Steps : (1) scratch worktree: change applies, crate builds, the pinned suite passes with it,
            the demonstration fails with it and passes without it;
        (2) the change is applied to /repo, the requested checks run, /repo is restored.
Output: /verif/seeded/<ID>-m<n>/{patch.diff,demo.rs,meta.json}  (only if step 1 confirms)
"""
import json, os, re, shutil, subprocess, sys, time

ID, N = sys.argv[1], sys.argv[2]
args = sys.argv[3:]
SEED_DIR = os.environ.get("SEED_DIR", "/tmp/seed")
TAG = os.environ.get("SEED_TAG", "")  # e.g. "r2" for the second round
SRC = f"{SEED_DIR}/{ID}/out"
diff, demo, note = f"{SRC}/m{N}.diff", f"{SRC}/m{N}_demo.rs", f"{SRC}/m{N}.md"
KEPT = f"/verif/seeded/{ID}-{TAG}m{N}"
if not os.path.exists(diff) and os.path.exists(f"{KEPT}/patch.diff"):
    # already kept: re-run phase 2 from the committed copy
    diff, demo = f"{KEPT}/patch.diff", f"{KEPT}/demo.rs"
WT = os.environ.get("SEED_WT", "/tmp/scratch/st")
ENV = dict(os.environ, CARGO_NET_OFFLINE="true")


def sh(cmd, cwd=None, env=None, timeout=1800):
    p = subprocess.run(cmd, shell=True, cwd=cwd, env=env or ENV, stdout=subprocess.PIPE, stderr=subprocess.STDOUT, timeout=timeout)
    return p.returncode, p.stdout.decode(errors="replace")


def suite(cwd, extra=""):
    rc, out = sh(f"cargo test --workspace --no-fail-fast --offline {extra}", cwd=cwd)
    passed = sum(int(m) for m in re.findall(r"test result: \w+\. (\d+) passed", out))
    failed = sum(int(m) for m in re.findall(r"test result: \w+\. \d+ passed; (\d+) failed", out))
    return rc, passed, failed, out


def main():
    meta = {"property": ID, "mutant": f"{TAG}m{N}", "source": "independent sub-agent given only the property text and a scratch worktree"}
    confirm_file = f"{SRC}/m{N}.confirm.json"
    if "--phase2" in args:
        if not os.path.exists(confirm_file) and os.path.exists(f"{KEPT}/meta.json"):
            confirm_file = f"{KEPT}/meta.json"
        if not os.path.exists(confirm_file):
            print("not confirmed yet (run --phase1 first)")
            return 2
        meta = json.load(open(confirm_file))
        if not meta.get("confirmed"):
            print("phase 1 did not confirm this change")
            return 1
        return phase2(meta)
    for f in (diff, demo):
        if not os.path.exists(f):
            print(f"missing {f}")
            return 2
    meta["needs_to_manifest"] = open(note).read().strip() if os.path.exists(note) else ""
    # ---- step 1: confirm in a scratch worktree
    if not os.path.isdir(WT):
        os.makedirs("/tmp/scratch", exist_ok=True)
        rc, out = sh(f"git -C /repo worktree add --detach {WT} HEAD")
        if rc != 0:
            print(out)
            return 2
    sh("git checkout -q --detach $(git -C /repo rev-parse HEAD) && git checkout -- . && git clean -fdq tests", cwd=WT)
    rc, out = sh(f"git apply {diff}", cwd=WT)
    if rc != 0:
        print("patch does not apply:", out)
        return 2
    rc, passed, failed, out = suite(WT)
    meta["suite_with_change"] = {"passed": passed, "failed": failed}
    ok_suite = failed == 0 and passed >= 85 and rc == 0
    if ID == "C07":
        rc2, p2, f2, _ = suite(WT, "--features crc32c")
        meta["suite_with_change_crc32c"] = {"passed": p2, "failed": f2}
        ok_suite = ok_suite and f2 == 0 and rc2 == 0
    demo_name = f"m{N}_demo"
    shutil.copy(demo, f"{WT}/tests/{demo_name}.rs")
    denv = dict(ENV)
    text = open(demo).read() + (meta["needs_to_manifest"] or "")
    if "verif_hooks" in text or ID == "C11":
        denv["RUSTFLAGS"] = "--cfg e57_verif"
    feat = "" if "--no-crc-feature" in args else "--features crc32c" if ("crc32c" in meta["needs_to_manifest"] and ID == "C07" and "--features crc32c" in meta["needs_to_manifest"]) else ""
    rc_with, out_with = sh(f"cargo test --offline {feat} --test {demo_name}", cwd=WT, env=denv, timeout=1200)
    sh("git checkout -- src tools", cwd=WT)
    rc_without, out_without = sh(f"cargo test --offline {feat} --test {demo_name}", cwd=WT, env=denv, timeout=1200)
    os.remove(f"{WT}/tests/{demo_name}.rs")
    meta["demo_fails_with_change"] = rc_with != 0
    meta["demo_passes_without_change"] = rc_without == 0
    meta["suite_passes_with_change"] = ok_suite
    meta["ran"] = [
        "git apply patch.diff in a scratch worktree of /repo HEAD",
        "cargo test --workspace --no-fail-fast --offline (whole pinned suite, with the change)",
        f"cargo test --offline --test {demo_name} with the change (must fail) and without it (must pass)",
    ]
    confirmed = ok_suite and rc_with != 0 and rc_without == 0
    meta["confirmed"] = confirmed
    json.dump(meta, open(f"{SRC}/m{N}.confirm.json", "w"), indent=1)
    print(json.dumps({k: meta[k] for k in ("suite_with_change", "demo_fails_with_change", "demo_passes_without_change", "confirmed")}))
    if not confirmed:
        if not ok_suite:
            print("SUITE OUTPUT TAIL:\n", out[-1500:])
        if rc_with == 0:
            print("DEMO DID NOT FAIL WITH CHANGE:\n", out_with[-1500:])
        if rc_without != 0:
            print("DEMO FAILS WITHOUT CHANGE:\n", out_without[-2500:])
        return 1
    if "--phase1" in args:
        return 0
    return phase2(meta)


def phase2(meta):
    # ---- step 2: run the checks against the change applied to /repo
    checks = [ID]
    if "--all" in args:
        checks = ["C%02d" % i for i in range(1, 21)]
    for a in args:
        if a.startswith("C"):
            checks = a.split(",")
    if "--checks" in args:
        checks = args[args.index("--checks") + 1].split(",")
    tier = "quick"
    rc, out = sh("git status --porcelain", cwd="/repo")
    if out.strip():
        print("/repo is not clean:", out)
        return 2
    results = {}
    try:
        rc, out = sh(f"git apply {diff}", cwd="/repo")
        if rc != 0:
            print(out)
            return 2
        for c in checks:
            t0 = time.time()
            rc, out = sh(f"/verif/bin/check {c} {tier}", cwd="/verif", timeout=3600)
            viol = [l for l in out.splitlines() if l.startswith("VIOLATION")]
            msg = [l for l in out.splitlines() if " failed: " in l or "fails:" in l]
            results[c] = {"exit": rc, "caught": rc == 1 and bool(viol), "wall_s": round(time.time() - t0, 1), "message": (msg[0][:400] if msg else "")}
            print(c, results[c])
    finally:
        sh("git checkout -- .", cwd="/repo")
    meta["checks_quick"] = results
    meta["caught_by"] = [c for c, r in results.items() if r["caught"]]
    out_dir = KEPT
    os.makedirs(out_dir, exist_ok=True)
    if os.path.abspath(diff) != os.path.abspath(f"{out_dir}/patch.diff"):
        shutil.copy(diff, f"{out_dir}/patch.diff")
        shutil.copy(demo, f"{out_dir}/demo.rs")
    old = {}
    if os.path.exists(f"{out_dir}/meta.json"):
        old = json.load(open(f"{out_dir}/meta.json"))
        prev = old.get("checks_quick", {})
        prev.update(results)
        meta["checks_quick"] = prev
        meta["caught_by"] = sorted(c for c, r in prev.items() if r["caught"])
    json.dump(meta, open(f"{out_dir}/meta.json", "w"), indent=1)
    print("caught_by:", meta["caught_by"])
    return 0


if __name__ == "__main__":
    sys.exit(main())
