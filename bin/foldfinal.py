#!/usr/bin/env python3
"""Fold the re-measurements on the current tree (seeded/RESEED.json, seeded/REBASED.json, seeded/MANUAL.json) into the
meta.json of every seeded change as `final_tree`, and print a summary.  MANUAL.json holds the few entries decided by hand
(demonstration run with the patch in place, checks re-run after strengthening)."""
import glob, json, os, subprocess

S = "/verif/seeded"
reseed = json.load(open(f"{S}/RESEED.json")) if os.path.exists(f"{S}/RESEED.json") else {}
rebased = json.load(open(f"{S}/REBASED.json")) if os.path.exists(f"{S}/REBASED.json") else {}
manual = json.load(open(f"{S}/MANUAL.json")) if os.path.exists(f"{S}/MANUAL.json") else {}
head = subprocess.run("git -C /repo rev-parse --short HEAD", shell=True, stdout=subprocess.PIPE).stdout.decode().strip()
summary = {}
for d in sorted(glob.glob(f"{S}/*/")):
    n = os.path.basename(d[:-1])
    mf = d + "meta.json"
    if not os.path.exists(mf):
        continue
    m = json.load(open(mf))
    ft = None
    if n in manual:
        ft = dict(manual[n])
    elif n in rebased:
        r = rebased[n]
        if r.get("obsolete"):
            ft = {"status": "no counterpart any more", "note": r.get("note", "")[:700]}
        elif r.get("confirmed"):
            ft = {
                "status": "ported (patch.rebased.diff), " + ("caught by its own check" if r.get("own_check_caught") else "NOT caught by its own check"),
                "demo_adapted": r.get("demo_adapted", False),
                "message": r.get("message", ""),
                "exit": r.get("exit"),
            }
        else:
            ft = {"status": "port not confirmed", "detail": {k: r.get(k) for k in ("applies", "suite_with_change", "demo_fails_with_change", "demo_passes_without_change")}}
    elif n in reseed:
        r = reseed[n]
        if r["applies"] in ("plain", "3way") and r.get("own_check_caught"):
            ft = {"status": "applies as it is" + (" (three-way)" if r["applies"] == "3way" else "") + ", caught by its own check", "message": r.get("message", "")}
        elif r["applies"] == "no":
            ft = {"status": "does not apply any more, not ported"}
        else:
            ft = {"status": "applies, NOT caught by its own check", "message": r.get("message", ""), "exit": r.get("exit")}
    if m.get("obsolete") and not ft:
        ft = {"status": "no counterpart any more", "note": str(m.get("obsolete"))[:700]}
    if ft:
        ft["repo_head"] = head
        m["final_tree"] = ft
        json.dump(m, open(mf, "w"), indent=1)
        key = ft["status"].split(",")[-1].strip() if "caught" in ft["status"] else ft["status"]
        summary.setdefault(ft["status"], []).append(n)
for k, v in sorted(summary.items()):
    print(f"{len(v):4d}  {k}" + ("" if len(v) > 12 else "   " + " ".join(v)))
