#!/usr/bin/env python3
"""Re-measure every kept seeded change against the CURRENT tree, in parallel lanes.

Each lane owns a scratch copy of /verif (git worktree of the current commit, outside /verif) and a scratch worktree of
/repo at HEAD; the seeded patch is applied there (plainly, or three-way when the lines moved with later repairs) and the
property's own quick check runs against that copy (E57_REPO).  /repo and /verif themselves are never touched.

usage: bin/reseed_all.py [lanes] [only-ID-prefix]
Output: /verif/seeded/RESEED.json  {name: {"applies": "plain"|"3way"|"no", "own_check_caught": bool, "exit": n, "message": str}}
"""
import json, os, subprocess, sys, threading, glob, time

LANES = int(sys.argv[1]) if len(sys.argv) > 1 else 3
ONLY = sys.argv[2] if len(sys.argv) > 2 else ""
BASE = "/tmp/reseed"
ENV = dict(os.environ, CARGO_NET_OFFLINE="true")
OUT = "/verif/seeded/RESEED.json"


def sh(cmd, cwd=None, env=None, timeout=3600):
    p = subprocess.run(cmd, shell=True, cwd=cwd, env=env or ENV, stdout=subprocess.PIPE, stderr=subprocess.STDOUT, timeout=timeout)
    return p.returncode, p.stdout.decode(errors="replace")


def setup(l):
    v, r = f"{BASE}/v{l}", f"{BASE}/r{l}"
    os.makedirs(BASE, exist_ok=True)
    if not os.path.isdir(r):
        rc, out = sh(f"git -C /repo worktree add --detach {r} HEAD")
        assert rc == 0, out
    if not os.path.isdir(v):
        rc, out = sh(f"git -C /verif worktree add --detach {v} HEAD")
        assert rc == 0, out
    return v, r


def main():
    names = sorted(os.path.basename(d[:-1]) for d in glob.glob("/verif/seeded/*/") if os.path.exists(d + "patch.diff"))
    names = [n for n in names if n.startswith(ONLY)]
    results = json.load(open(OUT)) if os.path.exists(OUT) else {}
    todo = [n for n in names if n not in results]
    lock = threading.Lock()

    def lane(l):
        v, r = setup(l)
        while True:
            with lock:
                if not todo:
                    return
                n = todo.pop(0)
            pid = n.split("-")[0]
            patch = f"/verif/seeded/{n}/patch.diff"
            sh("git checkout -q -- . && git reset -q && git checkout -q -- . && git clean -fdq", cwd=r)
            res = {}
            rc, out = sh(f"git apply {patch}", cwd=r)
            if rc == 0:
                res["applies"] = "plain"
            else:
                rc, out = sh(f"git apply -3 {patch}", cwd=r)
                conflicts = "with conflicts" in out or rc != 0
                if conflicts:
                    sh("git checkout -q HEAD -- . ; git reset -q; git checkout -q -- .", cwd=r)
                    res["applies"] = "no"
                else:
                    sh("git reset -q", cwd=r)
                    res["applies"] = "3way"
            if res["applies"] != "no":
                t0 = time.time()
                env = dict(ENV, E57_REPO=r)
                rc, out = sh(f"{v}/bin/check {pid} quick", cwd=v, env=env, timeout=3600)
                viol = [x for x in out.splitlines() if x.startswith("VIOLATION")]
                msg = [x for x in out.splitlines() if " failed: " in x or "fails:" in x]
                res.update({"exit": rc, "own_check_caught": rc == 1 and bool(viol), "wall_s": round(time.time() - t0, 1), "message": (msg[0][:300] if msg else out.strip().splitlines()[-1][:300] if out.strip() else "")})
                sh("git checkout -q -- . && git clean -fdq", cwd=r)
            with lock:
                results[n] = res
                json.dump(results, open(OUT, "w"), indent=1, sort_keys=True)
            print(n, res, flush=True)

    ts = [threading.Thread(target=lane, args=(l,)) for l in range(LANES)]
    for t in ts:
        t.start()
    for t in ts:
        t.join()
    # clean up the lanes
    for l in range(LANES):
        sh(f"git -C /repo worktree remove --force {BASE}/r{l}")
        sh(f"git -C /verif worktree remove --force {BASE}/v{l}")
    sh("git -C /repo worktree prune; git -C /verif worktree prune")
    sh(f"rm -rf {BASE}")


if __name__ == "__main__":
    main()
