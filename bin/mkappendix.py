#!/usr/bin/env python3
"""Regenerates Appendix B of DESIGN.md from /verif/seeded/*/meta.json."""
import glob, json, os, re

rows = []
for d in sorted(glob.glob("/verif/seeded/*")):
    mf = os.path.join(d, "meta.json")
    if not os.path.exists(mf):
        continue
    m = json.load(open(mf))
    name = os.path.basename(d)
    note = (m.get("needs_to_manifest") or "").strip().split("\n")
    first = " ".join(x.strip() for x in note[:3])[:260].replace("|", "/")
    caught = m.get("caught_by", [])
    tried = sorted((m.get("checks_quick") or {}).keys())
    target = m.get("property")
    tr = (m.get("checks_quick") or {}).get(target, {})
    status = "caught by its own check" if target in caught else ("caught only by " + ", ".join(caught) if caught else "NOT caught")
    if m.get("obsolete"):
        status = "obsolete after a repair (see meta.json)"
    if m.get("strengthened"):
        status += " (missed by the harness as it was before; strengthening: " + m["strengthened"] + ")"
    ft = m.get("final_tree") or {}
    final = ft.get("status", "as in the verdict (round measured on the final tree)")
    rows.append((name, target, first, ", ".join(caught) or "-", ", ".join(tried), status, tr.get("message", "")[:160].replace("|", "/"), final.replace("|", "/")))

out = []
out.append("Each change below was written by a fresh sub-agent that saw only the text of one property and a scratch")
out.append("worktree of `/repo` (nothing from `/verif`). A change is kept only if, in a scratch worktree, it applies, the crate")
out.append("builds, the whole pinned suite passes with it, and its demonstration fails with it and passes without it")
out.append("(`bin/seedtest.py`, phase 1). Phase 2 applies it to `/repo`, runs the quick checks, and restores `/repo`.")
out.append("`seeded/<name>/` holds `patch.diff`, `demo.rs` and `meta.json` (what it needs to manifest, what was run, per-check results).")
out.append("")
out.append("The last column is the re-measurement of every change on the final tree (`bin/reseed_all.py`, `bin/rebase_import.py`,")
out.append("`seeded/RESEED.json`, `seeded/REBASED.json`, `seeded/MANUAL.json`): a patch that no longer applied after the repairs was")
out.append("ported to the current code by a sub-agent (`patch.rebased.diff`, demonstration re-confirmed by `bin/rebase_import.py`), or has")
out.append("no counterpart any more because a repair removed the code path it edits.")
out.append("")
out.append("| change | breaks | what it needs to manifest (from the author's note) | quick checks that report a VIOLATION | checks run | verdict when the round arrived | on the final tree |")
out.append("|---|---|---|---|---|---|---|")
for r in rows:
    out.append(f"| {r[0]} | {r[1]} | {r[2]} | {r[3]} | {r[4]} | {r[5]} | {r[7]} |")
n = len(rows)
own = sum(1 for r in rows if r[5].startswith("caught by its own"))
anyc = sum(1 for r in rows if r[3] != "-")
out.append("")
out.append(f"Summary: {n} confirmed changes; {own} caught by the quick check of the property they were written against, {anyc} caught by at least one quick check.")
import collections
fin = collections.Counter(r[7].split(":")[0] for r in rows)
out.append("On the final tree: " + "; ".join(f"{v} x {k}" for k, v in sorted(fin.items(), key=lambda kv: -kv[1])) + ".")
extra = "/verif/seeded/NOTES.md"
if os.path.exists(extra):
    out.append("")
    out.append(open(extra).read().strip())
text = open("/verif/DESIGN.md").read()
text = re.sub(r"<!-- SEEDED:BEGIN -->.*<!-- SEEDED:END -->", "<!-- SEEDED:BEGIN -->\n" + "\n".join(out) + "\n<!-- SEEDED:END -->", text, flags=re.S)
open("/verif/DESIGN.md", "w").write(text)
print(f"{n} seeded changes, {own} caught by own check, {anyc} by any")
