#!/usr/bin/env python3
"""Prepare a round of seeded-change sub-agents: bin/mkseedround.py <dir> <round number>
Creates <dir>/<ID>/ (scratch worktree of /repo HEAD) with PROPERTY.txt, ALREADY_DONE.txt, PROMPT_FULL.txt and out/.
Each sub-agent is then started with: "Read the file <dir>/<ID>/PROMPT_FULL.txt and carry out exactly the task it describes."
"""
import sys
DIR, N = sys.argv[1], sys.argv[2]
import json,os,subprocess,re,glob
props={json.loads(l)['id']:json.loads(l) for l in open('/verif/properties.jsonl')}
base='''You are working in a scratch git worktree of the Rust crate `e57` (cry-inc/e57: a pure-Rust reader/writer for the ASTM E57 point-cloud file format: CRC-paged binary layer, bit-packed compressed vectors, XML metadata, plus small command line tools under tools/). Your worktree is @DIR@/@ID@ . Do NOT read or touch /repo, /verif or any path outside @DIR@/@ID@ . The sandbox is offline: always pass `--offline` to cargo.

The file @DIR@/@ID@/PROPERTY.txt states a semantic property of the library that currently HOLDS on this tree. Read it, then read the source code it concerns. The tree contains about sixty recent `fix:` commits (`git log --oneline | head -70`); code added by them is as good a place for a regression as any.

@TIME@Task: produce TWO different, realistic source changes - the kind of regression a maintainer could plausibly introduce while refactoring, optimising or extending the code - that each BREAK this property, such that
 (a) the crate still compiles,
 (b) the entire existing test suite still passes (run `cargo test --workspace --offline` in the worktree; all tests must pass with your change applied),
 (c) the breakage needs something SPECIFIC to manifest: a particular input shape, size or boundary, a multi-step sequence of API calls, a fault or crash at a particular point, an unusual but legal input, or two cooperating sites that each look fine alone. NOT something that ordinary use would expose at once.
The two changes must use different sites / mechanisms. This is round @N@: the earlier rounds already produced the mechanisms listed in @DIR@/@ID@/ALREADY_DONE.txt - do not repeat those or close variants of them; look for other source files and code paths, other clauses of the property statement than those already attacked, and subtler triggers (rare boundary combinations, state carried across several API calls, two cooperating sites). Prefer changes that plausible randomized testing of typical inputs would NOT stumble over quickly.

For each change i in {1,2} write into @DIR@/@ID@/out/ :
  m<i>.diff     - `git diff` of the library / tool sources only (src/ or tools/), no test files; it must apply with `git apply` to a clean checkout of this worktree's HEAD
  m<i>_demo.rs  - a self-contained Rust integration test file that can be dropped into the worktree's tests/ directory and run with `cargo test --offline --test m<i>_demo`; it must FAIL with the change applied and PASS on the unmodified tree. Use only the crate's public API and std (in-memory `std::io::Cursor<Vec<u8>>` works as device for E57Writer/E57Reader; temp files are fine too). @EXTRA@
  m<i>.md       - 3-10 lines: which part of the property is broken, what exactly is needed to trigger it, and which commands you ran to confirm (a)-(c).

Verify yourself before finishing: with the change applied, the whole existing suite passes and the demo fails; with the change reverted, the demo passes. When done, restore the worktree (`git checkout -- .`, delete your demo files from tests/), leaving only the out/ directory with the six files. Finally report a short summary of the two changes (file, mechanism, trigger).
'''
extra={
 'C11':'The page layer types are reachable from an integration test as e57::verif_hooks::{PagedReader, PagedWriter} when the crate is compiled with RUSTFLAGS="--cfg e57_verif"; your demo may use them (it will then be run with that RUSTFLAGS; say so in the .md).',
 'C07':'The crate has a cargo feature `crc32c` (hardware accelerated CRC backend). If your demo must be run with it, write the exact text `--features crc32c` in the .md; otherwise do not mention that text.',
 'C20':'The demo may build and run the command line tools (e.g. `cargo build --offline -p e57-to-xyz` through std::process::Command; cargo is on PATH and the binaries land in target/debug of the worktree).',
}
for i in range(1,21):
    id_='C%02d'%i
    if os.environ.get('IDS') and id_ not in os.environ['IDS'].split(): continue
    d=f'{DIR}/{id_}'
    subprocess.run(f'git -C /repo worktree add --detach {d} HEAD',shell=True,stdout=subprocess.DEVNULL,stderr=subprocess.DEVNULL)
    os.makedirs(d+'/out',exist_ok=True)
    p=props[id_]
    open(d+'/PROPERTY.txt','w').write(f"{p['id']}: {p['title']}\n\nStatement: {p['statement']}\n\nQuantified over: {p['quantifier']['text']}\n")
    done=[]
    for md in sorted(glob.glob(f'/verif/seeded/{id_}-*/meta.json')):
        m=json.load(open(md))
        t=(m.get('needs_to_manifest') or '').strip().split('\n')
        first=' '.join(x.strip() for x in t[:3])
        first=re.sub(r'^[mM]\d\s*[-:–]\s*','',first)[:330]
        done.append(first)
    txt="Mechanisms already produced in earlier rounds for this property (do not repeat these or close variants):\n"+"\n".join(f"({k+1}) {x}" for k,x in enumerate(done))+"\n"
    open(d+'/ALREADY_DONE.txt','w').write(txt)
    open(d+'/PROMPT_FULL.txt','w').write(base.replace('@DIR@',DIR).replace('@N@',N).replace('@ID@',id_).replace('@TIME@',os.environ.get('TIMEBOX','')).replace('@EXTRA@',extra.get(id_,'')))
print('prepared', DIR)
