// C04 demo: values handed to the setters of a point cloud or image writer after its
// finalize() call are accepted without any error but never reach the file, although the
// XML section is only generated later by E57Writer::finalize().
use e57::{
    DateTime, E57Reader, E57Writer, ImageFormat, Record, RecordValue, VisualReferenceImageProperties,
};
use std::io::Cursor;

#[test]
fn pointcloud_setters_after_finalize_are_lost() {
    let mut file = Cursor::new(Vec::new());
    {
        let mut writer = E57Writer::new(&mut file, "file guid").unwrap();
        let prototype = vec![
            Record::CARTESIAN_X_F32,
            Record::CARTESIAN_Y_F32,
            Record::CARTESIAN_Z_F32,
        ];
        let mut pc = writer.add_pointcloud("pc guid", prototype).unwrap();
        pc.set_name(Some(String::from("early name")));
        pc.add_point(vec![
            RecordValue::Single(1.0),
            RecordValue::Single(2.0),
            RecordValue::Single(3.0),
        ])
        .unwrap();
        pc.finalize().unwrap();

        // The scan is over, now the end time is known. None of these calls reports a problem.
        pc.set_name(Some(String::from("late name")));
        pc.set_acquisition_end(Some(DateTime {
            gps_time: 1234.5,
            atomic_reference: true,
        }));
        pc.set_temperature(Some(21.5));

        // The XML with all metadata is written only now
        writer.finalize().unwrap();
    }
    file.set_position(0);
    let reader = E57Reader::new(file).unwrap();
    let pcs = reader.pointclouds();
    assert_eq!(pcs.len(), 1);
    let pc = &pcs[0];
    // Everything the writer API let the caller set must come back
    assert_eq!(pc.name.as_deref(), Some("late name"));
    assert_eq!(pc.acquisition_end.as_ref().map(|d| d.gps_time), Some(1234.5));
    assert_eq!(pc.temperature, Some(21.5));
}

#[test]
fn image_setters_after_finalize_are_lost() {
    let mut file = Cursor::new(Vec::new());
    {
        let mut writer = E57Writer::new(&mut file, "file guid").unwrap();
        let mut img = writer.add_image("image guid").unwrap();
        let mut data = Cursor::new(vec![1_u8, 2, 3, 4]);
        img.add_visual_reference(
            ImageFormat::Png,
            &mut data,
            VisualReferenceImageProperties {
                width: 2,
                height: 2,
            },
            None,
        )
        .unwrap();
        img.finalize().unwrap();

        // Accepted without error
        img.set_name("late name");
        img.set_sensor_serial("late serial");

        writer.finalize().unwrap();
    }
    file.set_position(0);
    let reader = E57Reader::new(file).unwrap();
    let images = reader.images();
    assert_eq!(images.len(), 1);
    assert_eq!(images[0].name.as_deref(), Some("late name"));
    assert_eq!(images[0].sensor_serial.as_deref(), Some("late serial"));
}
