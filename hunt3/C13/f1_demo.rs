// C13 demo: a ScaledInteger limit element that carries its OWN scale and offset (legal E57,
// any other producer may write it) is read as if it had the scale and offset of the record.
// The point cloud's intensity limits are 0.0 .. 2.0, the simple iterator normalises against 0.0 .. 0.002.

use e57::{
    E57Reader, E57Writer, Record, RecordDataType, RecordName, RecordValue,
};
use std::cell::RefCell;
use std::io::{Cursor, Read, Seek, SeekFrom, Write};
use std::rc::Rc;

/// In-memory device that can be inspected after the writer is gone.
#[derive(Clone)]
struct Shared(Rc<RefCell<Cursor<Vec<u8>>>>);
impl Read for Shared {
    fn read(&mut self, b: &mut [u8]) -> std::io::Result<usize> {
        self.0.borrow_mut().read(b)
    }
}
impl Write for Shared {
    fn write(&mut self, b: &[u8]) -> std::io::Result<usize> {
        self.0.borrow_mut().write(b)
    }
    fn flush(&mut self) -> std::io::Result<()> {
        Ok(())
    }
}
impl Seek for Shared {
    fn seek(&mut self, p: SeekFrom) -> std::io::Result<u64> {
        self.0.borrow_mut().seek(p)
    }
}

/// Replaces everything from `<tag ` up to and including `</tag>` by `replacement`.
fn replace_element(xml: &str, tag: &str, replacement: &str) -> String {
    let start = xml.find(&format!("<{tag} ")).expect("element start");
    let end_marker = format!("</{tag}>");
    let end = xml[start..].find(&end_marker).expect("element end") + start + end_marker.len();
    format!("{}{}{}", &xml[..start], replacement, &xml[end..])
}

fn build_file(raw_intensities: &[i64]) -> Vec<u8> {
    let shared = Shared(Rc::new(RefCell::new(Cursor::new(Vec::new()))));
    let mut writer = E57Writer::new(shared.clone(), "file-guid").unwrap();
    let prototype = vec![
        Record::CARTESIAN_X_F32,
        Record::CARTESIAN_Y_F32,
        Record::CARTESIAN_Z_F32,
        Record {
            name: RecordName::Intensity,
            // stored values are 0.000 ..= 1.000 in steps of 0.001
            data_type: RecordDataType::ScaledInteger {
                min: 0,
                max: 1000,
                scale: 0.001,
                offset: 0.0,
            },
        },
    ];
    let mut pc = writer.add_pointcloud("pc-guid", prototype).unwrap();
    for raw in raw_intensities {
        pc.add_point(vec![
            RecordValue::Single(1.0),
            RecordValue::Single(2.0),
            RecordValue::Single(3.0),
            RecordValue::ScaledInteger(*raw),
        ])
        .unwrap();
    }
    pc.finalize().unwrap();
    drop(pc);

    // What another producer may legally write: the limits 0.0 and 2.0 as ScaledInteger elements
    // with scale 1 (E57: value of a ScaledInteger element = raw value * its scale + its offset).
    writer
        .finalize_customized_xml(|xml| {
            let xml = replace_element(
                &xml,
                "intensityMinimum",
                "<intensityMinimum type=\"ScaledInteger\" minimum=\"0\" maximum=\"2\" scale=\"1\" offset=\"0\">0</intensityMinimum>",
            );
            let xml = replace_element(
                &xml,
                "intensityMaximum",
                "<intensityMaximum type=\"ScaledInteger\" minimum=\"0\" maximum=\"2\" scale=\"1\" offset=\"0\">2</intensityMaximum>",
            );
            Ok(xml)
        })
        .unwrap();
    drop(writer);
    let bytes = shared.0.borrow().get_ref().clone();
    bytes
}

#[test]
fn scaled_integer_limit_with_its_own_scale() {
    let raw = [0_i64, 250, 500, 1000];
    let bytes = build_file(&raw);
    let mut reader = E57Reader::new(Cursor::new(bytes)).unwrap();

    // Make sure the file really says what the demo claims
    let xml = reader.xml().to_owned();
    assert!(xml.contains("scale=\"1\" offset=\"0\">2</intensityMaximum>"));
    assert!(xml.contains("<intensity type=\"ScaledInteger\" minimum=\"0\" maximum=\"1000\" scale=\"0.001\" offset=\"0\">"));

    let pc = reader.pointclouds().remove(0);

    // Normalisation disabled: the stored values 0.0, 0.25, 0.5, 1.0 (this part works)
    let mut iter = reader.pointcloud_simple(&pc).unwrap();
    iter.normalize_intensity(false);
    let stored: Vec<f32> = iter.map(|p| p.unwrap().intensity.unwrap()).collect();
    assert_eq!(stored, vec![0.0, 0.25, 0.5, 1.0]);

    // Normalisation enabled: limits are 0.0 .. 2.0, so (value - 0) / (2 - 0) is demanded
    let iter = reader.pointcloud_simple(&pc).unwrap();
    let normalised: Vec<f32> = iter.map(|p| p.unwrap().intensity.unwrap()).collect();
    let expected: Vec<f32> = stored.iter().map(|v| (v - 0.0) / (2.0 - 0.0)).collect();
    assert_eq!(
        normalised, expected,
        "intensity limits of the point cloud are 0.0 .. 2.0 (ScaledInteger elements with scale 1), \
         the iterator used the scale of the intensity record for them instead"
    );
}
