// C14 / f1: default intensity and colour limits of ScaledInteger attributes with a NEGATIVE scale
// are written the wrong way round: the element called "...Minimum" holds the LARGEST real value of
// the declared range and "...Maximum" the smallest one.
//
// Run: cp out/f1_demo.rs tests/ && cargo test --offline --test f1_demo

use e57::{E57Reader, E57Writer, Record, RecordDataType, RecordName, RecordValue};
use std::io::Cursor;

/// Real value of a limit as the file states it (scaled integers after scale and offset).
fn real(value: &RecordValue, data_type: &RecordDataType) -> f64 {
    value.to_f64(data_type).unwrap()
}

#[test]
fn default_limits_of_negative_scale_records_are_ordered() {
    // Intensity 0.0 ..= 1.0 in steps of 1/1000, stored "falling": raw 0 -> 1.0, raw 1000 -> 0.0.
    // The writer accepts this type and the reader normalises it (fix 93842ea), so it is a legal type.
    let falling = RecordDataType::ScaledInteger {
        min: 0,
        max: 1000,
        scale: -0.001,
        offset: 1.0,
    };
    let prototype = vec![
        Record::CARTESIAN_X_F64,
        Record::CARTESIAN_Y_F64,
        Record::CARTESIAN_Z_F64,
        Record { name: RecordName::Intensity, data_type: falling.clone() },
        Record { name: RecordName::ColorRed, data_type: falling.clone() },
        Record { name: RecordName::ColorGreen, data_type: falling.clone() },
        Record { name: RecordName::ColorBlue, data_type: falling.clone() },
    ];

    let mut device = Cursor::new(Vec::new());
    {
        let mut writer = E57Writer::new(&mut device, "file-guid").unwrap();
        let mut pc = writer.add_pointcloud("pc-guid", prototype).unwrap();
        // Sign-mixed, non-NaN points; intensity and colours cover both ends of the declared range.
        for (x, raw) in [(-1.0, 0_i64), (2.0, 1000), (0.0, 500)] {
            pc.add_point(vec![
                RecordValue::Double(x),
                RecordValue::Double(-x),
                RecordValue::Double(0.5),
                RecordValue::ScaledInteger(raw),
                RecordValue::ScaledInteger(raw),
                RecordValue::ScaledInteger(1000 - raw),
                RecordValue::ScaledInteger(raw),
            ])
            .unwrap();
        }
        // No set_intensity_limits / set_color_limits: the defaults apply.
        pc.finalize().unwrap();
        writer.finalize().unwrap();
    }

    device.set_position(0);
    let reader = E57Reader::new(device).unwrap();
    let xml = reader.xml().to_owned();
    let pc = reader.pointclouds().remove(0);
    let dt = |name: RecordName| {
        pc.prototype.iter().find(|r| r.name == name).unwrap().data_type.clone()
    };

    // Declared range of the attribute type as real values: the two ends are 1.0 (raw 0) and 0.0 (raw 1000),
    // so the range is 0.0 ..= 1.0.
    let declared_min = 0.0;
    let declared_max = 1.0;

    let limits = pc.intensity_limits.as_ref().expect("default intensity limits are written");
    let t = dt(RecordName::Intensity);
    let min = real(limits.intensity_min.as_ref().unwrap(), &t);
    let max = real(limits.intensity_max.as_ref().unwrap(), &t);
    println!("XML written by the library:\n{}", xml
        .lines()
        .filter(|l| l.contains("Minimum") || l.contains("Maximum"))
        .collect::<Vec<_>>()
        .join("\n"));
    assert!(
        min <= max,
        "the file states intensityMinimum = {min} and intensityMaximum = {max}: the minimum is above the maximum"
    );
    assert_eq!((min, max), (declared_min, declared_max), "intensity limits differ from the declared range");

    let limits = pc.color_limits.as_ref().expect("default colour limits are written");
    for (name, lo, hi) in [
        (RecordName::ColorRed, &limits.red_min, &limits.red_max),
        (RecordName::ColorGreen, &limits.green_min, &limits.green_max),
        (RecordName::ColorBlue, &limits.blue_min, &limits.blue_max),
    ] {
        let t = dt(name.clone());
        let min = real(lo.as_ref().unwrap(), &t);
        let max = real(hi.as_ref().unwrap(), &t);
        assert_eq!((min, max), (declared_min, declared_max), "{name:?} limits differ from the declared range");
    }
}
