//! C03 / F2: a document type declaration in front of the root element makes the whole file unreadable.
//! `<!DOCTYPE e57Root>` (without any subset) and a DOCTYPE with an internal entity are plain,
//! well-formed XML 1.0; the reader refuses both with "Failed to parse XML data" (roxmltree: "XML with DTD detected"),
//! so neither the metadata nor a single point can be read.

use e57::{E57Reader, RecordValue};
use std::io::Cursor;

fn crc32c(data: &[u8]) -> u32 {
    let mut crc: u32 = !0;
    for &b in data {
        crc ^= b as u32;
        for _ in 0..8 {
            crc = if crc & 1 != 0 { (crc >> 1) ^ 0x82F6_3B78 } else { crc >> 1 };
        }
    }
    !crc
}

/// Header, one compressed vector section with a single data packet (three 8-bit integers), XML section.
fn file_with_xml(prolog: &str, metadata: &str) -> Vec<u8> {
    let mut logical = vec![0_u8; 48];

    // Compressed vector section at logical offset 48 (first page: logical == physical)
    let section_offset = logical.len() as u64;
    let mut packet = vec![1_u8, 0, 0, 0, 1, 0, 3, 0, 10, 20, 30, 0]; // type, flags, len-1, streams, size, data, padding
    let length = (packet.len() - 1) as u16;
    packet[2..4].copy_from_slice(&length.to_le_bytes());
    let mut section = [0_u8; 32];
    section[0] = 1;
    section[8..16].copy_from_slice(&(32 + packet.len() as u64).to_le_bytes());
    section[16..24].copy_from_slice(&(section_offset + 32).to_le_bytes());
    logical.extend_from_slice(&section);
    logical.extend_from_slice(&packet);

    let xml = format!(
        "<?xml version=\"1.0\" encoding=\"UTF-8\"?>\n{prolog}\
<e57Root type=\"Structure\" xmlns=\"http://www.astm.org/COMMIT/E57/2010-e57-v1.0\">\n\
<formatName type=\"String\">ASTM E57 3D Imaging Data File</formatName>\n\
<guid type=\"String\">file-guid</guid>\n\
<versionMajor type=\"Integer\">1</versionMajor>\n\
<versionMinor type=\"Integer\">0</versionMinor>\n\
<coordinateMetadata type=\"String\">{metadata}</coordinateMetadata>\n\
<data3D type=\"Vector\" allowHeterogeneousChildren=\"1\">\n\
<vectorChild type=\"Structure\">\n\
<guid type=\"String\">cloud-guid</guid>\n\
<points type=\"CompressedVector\" fileOffset=\"{section_offset}\" recordCount=\"3\">\n\
<prototype type=\"Structure\"><intensity type=\"Integer\" minimum=\"0\" maximum=\"255\"/></prototype>\n\
</points>\n\
</vectorChild>\n\
</data3D>\n\
<images2D type=\"Vector\" allowHeterogeneousChildren=\"1\"/>\n\
</e57Root>\n"
    );
    let xml_offset = logical.len() as u64;
    assert!(xml_offset + (xml.len() as u64) < 1020, "demo keeps everything in the first page");
    logical.extend_from_slice(xml.as_bytes());
    while logical.len() % 4 != 0 {
        logical.push(0);
    }
    let pages = (logical.len() + 1019) / 1020;
    logical[0..8].copy_from_slice(b"ASTM-E57");
    logical[8..12].copy_from_slice(&1_u32.to_le_bytes());
    logical[12..16].copy_from_slice(&0_u32.to_le_bytes());
    logical[16..24].copy_from_slice(&((pages * 1024) as u64).to_le_bytes());
    logical[24..32].copy_from_slice(&xml_offset.to_le_bytes());
    logical[32..40].copy_from_slice(&(xml.len() as u64).to_le_bytes());
    logical[40..48].copy_from_slice(&1024_u64.to_le_bytes());
    let mut out = Vec::new();
    for chunk in logical.chunks(1020) {
        let mut page = chunk.to_vec();
        page.resize(1020, 0);
        let crc = crc32c(&page);
        out.extend_from_slice(&page);
        out.extend_from_slice(&crc.to_be_bytes());
    }
    out
}

fn read(prolog: &str, metadata: &str) -> Result<(String, Vec<i64>), String> {
    let file = file_with_xml(prolog, metadata);
    let mut reader = E57Reader::new(Cursor::new(file)).map_err(|e| {
        let source = std::error::Error::source(&e).map(|s| s.to_string());
        format!("{e} ({source:?})")
    })?;
    let metadata = reader.coordinate_metadata().unwrap_or_default().to_owned();
    let pc = reader.pointclouds().remove(0);
    let mut values = Vec::new();
    for point in reader.pointcloud_raw(&pc).map_err(|e| e.to_string())? {
        match point.map_err(|e| e.to_string())?[0] {
            RecordValue::Integer(i) => values.push(i),
            ref other => return Err(format!("unexpected value {other:?}")),
        }
    }
    Ok((metadata, values))
}

#[test]
fn document_type_declaration_is_legal_xml() {
    // Control: the same file without DOCTYPE is read correctly
    assert_eq!(read("", "WKT"), Ok((String::from("WKT"), vec![10, 20, 30])));

    // A bare document type declaration changes nothing about the content of the document
    assert_eq!(
        read("<!DOCTYPE e57Root>\n", "WKT"),
        Ok((String::from("WKT"), vec![10, 20, 30])),
        "file with a bare DOCTYPE"
    );

    // An internal subset with a general entity is another legal way to spell a string
    assert_eq!(
        read("<!DOCTYPE e57Root [<!ENTITY crs \"WKT\">]>\n", "&crs;"),
        Ok((String::from("WKT"), vec![10, 20, 30])),
        "file with an internal entity"
    );
}
