//! C03 / F1: the flag `isAtomicClockReferenced` is decoded by comparing its text with the
//! literal "1" instead of parsing it as an Integer. Legal lexical forms of the Integer one
//! ("+1", "01") are read as "not set", although the same forms are accepted for every other
//! Integer element of the file (they go through `str::parse`).

use e57::E57Reader;
use std::io::Cursor;

fn crc32c(data: &[u8]) -> u32 {
    let mut crc: u32 = !0;
    for &b in data {
        crc ^= b as u32;
        for _ in 0..8 {
            crc = if crc & 1 != 0 { (crc >> 1) ^ 0x82F6_3B78 } else { crc >> 1 };
        }
    }
    !crc
}

/// Smallest well-formed E57 file: header page(s) followed by the XML section, 1024-byte pages.
fn file_with_xml(xml: &str) -> Vec<u8> {
    let mut logical = vec![0_u8; 48];
    let xml_offset = logical.len() as u64; // logical == physical inside the first page
    logical.extend_from_slice(xml.as_bytes());
    while logical.len() % 4 != 0 {
        logical.push(0);
    }
    let pages = (logical.len() + 1019) / 1020;
    logical[0..8].copy_from_slice(b"ASTM-E57");
    logical[8..12].copy_from_slice(&1_u32.to_le_bytes());
    logical[12..16].copy_from_slice(&0_u32.to_le_bytes());
    logical[16..24].copy_from_slice(&((pages * 1024) as u64).to_le_bytes());
    logical[24..32].copy_from_slice(&xml_offset.to_le_bytes());
    logical[32..40].copy_from_slice(&(xml.len() as u64).to_le_bytes());
    logical[40..48].copy_from_slice(&1024_u64.to_le_bytes());
    let mut out = Vec::new();
    for chunk in logical.chunks(1020) {
        let mut page = chunk.to_vec();
        page.resize(1020, 0);
        let crc = crc32c(&page);
        out.extend_from_slice(&page);
        out.extend_from_slice(&crc.to_be_bytes());
    }
    out
}

fn xml(flag_text: &str, major_text: &str) -> String {
    format!(
        "<?xml version=\"1.0\" encoding=\"UTF-8\"?>\n\
<e57Root type=\"Structure\" xmlns=\"http://www.astm.org/COMMIT/E57/2010-e57-v1.0\">\n\
<formatName type=\"String\">ASTM E57 3D Imaging Data File</formatName>\n\
<guid type=\"String\">file-guid</guid>\n\
<versionMajor type=\"Integer\">{major_text}</versionMajor>\n\
<versionMinor type=\"Integer\">0</versionMinor>\n\
<creationDateTime type=\"Structure\">\n\
<dateTimeValue type=\"Float\">1234.5</dateTimeValue>\n\
<isAtomicClockReferenced type=\"Integer\" minimum=\"0\" maximum=\"1\">{flag_text}</isAtomicClockReferenced>\n\
</creationDateTime>\n\
<data3D type=\"Vector\" allowHeterogeneousChildren=\"1\"/>\n\
<images2D type=\"Vector\" allowHeterogeneousChildren=\"1\"/>\n\
</e57Root>\n"
    )
}

#[test]
fn atomic_clock_flag_is_an_integer_not_a_string() {
    // Sanity: the plain form works, and the reader accepts the other forms for other Integer elements
    // (versionMajor is a required Integer element, the file would be refused if "+1" / "01" were illegal for it).
    for form in ["1", "+1", "01", "001", " +1\n"] {
        let file = file_with_xml(&xml("1", form));
        let reader = E57Reader::new(Cursor::new(file))
            .unwrap_or_else(|e| panic!("versionMajor '{form}' refused: {e}"));
        assert!(reader.creation().unwrap().atomic_reference);
    }

    // The same Integer value 1 in its other legal lexical forms must set the flag as well
    let mut wrong = Vec::new();
    for form in ["1", "+1", "01", "001", " +1\n"] {
        let file = file_with_xml(&xml(form, "1"));
        let reader = E57Reader::new(Cursor::new(file)).unwrap();
        let creation = reader.creation().expect("creationDateTime was encoded");
        assert_eq!(creation.gps_time, 1234.5);
        if !creation.atomic_reference {
            wrong.push(form);
        }
    }
    assert!(
        wrong.is_empty(),
        "isAtomicClockReferenced encoded as Integer 1 was read as false for the forms {wrong:?}"
    );

    // ... and zero in another form stays false
    let file = file_with_xml(&xml("00", "1"));
    let reader = E57Reader::new(Cursor::new(file)).unwrap();
    assert!(!reader.creation().unwrap().atomic_reference);
}
