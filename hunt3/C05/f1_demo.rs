//! C05 demo: the switch `normalize_intensity` also changes `Point::color`, and with
//! `normalize_color(true)` the colours handed out are not normalized at all.
use e57::{
    CartesianCoordinate, E57Reader, E57Writer, Point, Record, RecordDataType, RecordName,
    RecordValue,
};
use std::io::Cursor;

/// Ten points with doubles as coordinates and a 16 bit intensity, no colour records.
fn build_file() -> Vec<u8> {
    let mut device = Cursor::new(Vec::new());
    {
        let mut writer = E57Writer::new(&mut device, "file-guid").unwrap();
        let prototype = vec![
            Record::CARTESIAN_X_F64,
            Record::CARTESIAN_Y_F64,
            Record::CARTESIAN_Z_F64,
            Record {
                name: RecordName::Intensity,
                data_type: RecordDataType::U16,
            },
        ];
        let mut pc = writer.add_pointcloud("pc-guid", prototype).unwrap();
        for i in 0..10_i64 {
            pc.add_point(vec![
                RecordValue::Double(i as f64),
                RecordValue::Double(1.0),
                RecordValue::Double(2.0),
                RecordValue::Integer(i * 6553),
            ])
            .unwrap();
        }
        pc.finalize().unwrap();
        writer.finalize().unwrap();
    }
    device.into_inner()
}

/// Reads all points, every option keeps its default except `normalize_intensity`.
fn read(bytes: &[u8], normalize_intensity: bool) -> Vec<Point> {
    let mut reader = E57Reader::new(Cursor::new(bytes.to_vec())).unwrap();
    let pc = reader.pointclouds().pop().unwrap();
    let mut iter = reader.pointcloud_simple(&pc).unwrap();
    iter.normalize_intensity(normalize_intensity);
    // normalize_color stays enabled (default): "the iterator will automatically
    // normalize color values to a range between 0 and 1"
    iter.collect::<e57::Result<Vec<Point>>>().unwrap()
}

#[test]
fn normalize_intensity_changes_only_the_intensity() {
    let bytes = build_file();
    let with = read(&bytes, true);
    let without = read(&bytes, false);
    assert_eq!(with.len(), 10);
    assert_eq!(without.len(), 10);

    for (i, (a, b)) in with.iter().zip(without.iter()).enumerate() {
        // The documented aspect of the switch: the intensity
        let raw = (i as i64 * 6553) as f32;
        assert_eq!(b.intensity, Some(raw));
        assert_eq!(a.intensity, Some(raw / 65535.0));

        // Everything else must be the same point
        assert_eq!(a.cartesian, b.cartesian);
        assert!(matches!(a.cartesian, CartesianCoordinate::Valid { .. }));
        assert_eq!(a.spherical, b.spherical);
        assert_eq!((a.row, a.column), (b.row, b.column));

        // The colour is not the aspect that normalize_intensity documents
        assert_eq!(
            a.color, b.color,
            "point {i}: switching normalize_intensity changed Point::color"
        );
    }
}

#[test]
fn enabled_normalize_color_hands_out_normalized_colors() {
    // normalize_color is enabled (default) in this run, only normalize_intensity is switched off.
    // Colours are documented to be normalized to values between 0 and 1 in that case.
    let bytes = build_file();
    for (i, p) in read(&bytes, false).iter().enumerate() {
        let c = p.color.clone().expect("grey colour from intensity");
        assert!(
            (0.0..=1.0).contains(&c.red)
                && (0.0..=1.0).contains(&c.green)
                && (0.0..=1.0).contains(&c.blue),
            "point {i}: normalize_color is enabled but the colour handed out is {c:?}"
        );
    }
}
