//! C08 / round 3 / F2: the repaired size hint still promises one point per BIT of the whole file.
//! A cloud with X, Y, Z doubles needs 192 bits per point, so the promise is 192 times more than
//! the file can contain. For a mid-sized file with a lying recordCount the reservation made by
//! collect() / extend() is refused by the allocator and the process ABORTS (not catchable).
//!
//! The demo uses a 2 GiB in-memory file (zero pages, never touched, so it costs no real memory):
//! promised lower bound 1.7e10 points = about 1.9 TB for a Vec<Result<Point>>.
//! Because an abort cannot be caught, the parent test runs the reading code in a child process
//! (the same test binary, filtered to `f2_child`) and checks its exit status.
//!
//! Run with: cargo test --offline --test f2_demo

use e57::{E57Reader, Point};
use std::io::Cursor;
use std::process::Command;

const FILE_SIZE: usize = 2 << 30; // 2 GiB, a multiple of the page size
const CHILD_MARKER: &str = "E57_F2_DEMO_CHILD";

fn crc32c(data: &[u8]) -> u32 {
    let mut crc = !0u32;
    for b in data {
        crc ^= *b as u32;
        for _ in 0..8 {
            crc = if crc & 1 != 0 { (crc >> 1) ^ 0x82F6_3B78 } else { crc >> 1 };
        }
    }
    !crc
}

/// The sealed first pages of the file: header, one compressed vector section with ONE real point, XML.
fn sealed_prefix(total_physical_size: u64) -> Vec<u8> {
    let phys = |logical: u64| logical + (logical / 1020) * 4;

    // Data packet with one point: three byte streams of 8 bytes each
    let mut packet = vec![1u8, 0, 0, 0, 3, 0];
    for _ in 0..3 {
        packet.extend_from_slice(&8u16.to_le_bytes());
    }
    for v in [1.0f64, 2.0, 3.0] {
        packet.extend_from_slice(&v.to_le_bytes());
    }
    assert_eq!(packet.len() % 4, 0);
    let length = (packet.len() - 1) as u16;
    packet[2..4].copy_from_slice(&length.to_le_bytes());

    let xml = "<?xml version=\"1.0\" encoding=\"UTF-8\"?>\n\
<e57Root type=\"Structure\" xmlns=\"http://www.astm.org/COMMIT/E57/2010-e57-v1.0\">\n\
<formatName type=\"String\"><![CDATA[ASTM E57 3D Imaging Data File]]></formatName>\n\
<guid type=\"String\"><![CDATA[file-guid]]></guid>\n\
<versionMajor type=\"Integer\">1</versionMajor>\n\
<versionMinor type=\"Integer\">0</versionMinor>\n\
<data3D type=\"Vector\" allowHeterogeneousChildren=\"1\">\n\
<vectorChild type=\"Structure\">\n\
<guid type=\"String\"><![CDATA[cloud-guid]]></guid>\n\
<points type=\"CompressedVector\" fileOffset=\"48\" recordCount=\"1152921504606846976\">\n\
<prototype type=\"Structure\">\n\
<cartesianX type=\"Float\"/>\n\
<cartesianY type=\"Float\"/>\n\
<cartesianZ type=\"Float\"/>\n\
</prototype>\n\
</points>\n\
</vectorChild>\n\
</data3D>\n\
<images2D type=\"Vector\" allowHeterogeneousChildren=\"1\">\n\
</images2D>\n\
</e57Root>\n";

    let mut logical = vec![0u8; 48];
    let mut section = vec![0u8; 32];
    section[0] = 1;
    section[8..16].copy_from_slice(&((32 + packet.len()) as u64).to_le_bytes());
    section[16..24].copy_from_slice(&phys(48 + 32).to_le_bytes());
    logical.extend_from_slice(&section);
    logical.extend_from_slice(&packet);
    let xml_offset = logical.len() as u64;
    assert_eq!(xml_offset % 4, 0);
    logical.extend_from_slice(xml.as_bytes());
    while logical.len() % 1020 != 0 {
        logical.push(0);
    }
    logical[0..8].copy_from_slice(b"ASTM-E57");
    logical[8..12].copy_from_slice(&1u32.to_le_bytes());
    logical[12..16].copy_from_slice(&0u32.to_le_bytes());
    logical[16..24].copy_from_slice(&total_physical_size.to_le_bytes());
    logical[24..32].copy_from_slice(&phys(xml_offset).to_le_bytes());
    logical[32..40].copy_from_slice(&(xml.len() as u64).to_le_bytes());
    logical[40..48].copy_from_slice(&1024u64.to_le_bytes());
    let mut prefix = Vec::new();
    for chunk in logical.chunks(1020) {
        prefix.extend_from_slice(chunk);
        prefix.extend_from_slice(&crc32c(chunk).to_be_bytes());
    }
    prefix
}

/// Runs only inside the child process: reads the file like any application would.
#[test]
fn f2_child() {
    if std::env::var(CHILD_MARKER).is_err() {
        return;
    }
    // Zeroed allocation: the untouched part of the 2 GiB never becomes resident memory
    let mut file = vec![0u8; FILE_SIZE];
    let prefix = sealed_prefix(FILE_SIZE as u64);
    file[..prefix.len()].copy_from_slice(&prefix);

    let mut reader = E57Reader::new(Cursor::new(file)).expect("the file opens");
    let pc = reader.pointclouds().remove(0);
    assert!(pc.has_cartesian());
    let iter = reader.pointcloud_simple(&pc).expect("simple iterator");
    let (lower, _) = iter.size_hint();
    let bits_per_point = 3 * 64;
    let file_can_contain = (FILE_SIZE as u64 * 8) / bits_per_point;
    eprintln!("child: size_hint lower bound = {lower}, the file can contain at most {file_can_contain} points");
    eprintln!(
        "child: collect() will reserve about {} GB",
        lower as u128 * std::mem::size_of::<e57::Result<Point>>() as u128 / 1_000_000_000
    );
    // Guard only for repaired trees: behind the one real point the iterator yields errors forever,
    // such an iterator must not be collected without the reservation failing first.
    if lower as u64 > file_can_contain {
        let points: Vec<e57::Result<Point>> = iter.collect();
        eprintln!("child: collected {} items", points.len());
    }
    eprintln!("child: finished without panic or abort");
}

#[test]
fn collecting_points_of_a_mid_sized_file_must_not_abort() {
    let exe = std::env::current_exe().expect("path of the test binary");
    let output = Command::new(exe)
        .args(["f2_child", "--exact", "--nocapture", "--test-threads=1"])
        .env(CHILD_MARKER, "1")
        .output()
        .expect("child process starts");
    let stderr = String::from_utf8_lossy(&output.stderr);
    eprintln!("----- child stderr -----\n{stderr}------------------------");
    assert!(
        output.status.success(),
        "reading the points of the file ended with {:?} instead of values or errors",
        output.status
    );
}
