//! C08 / round 3 / F3: a byte stream that runs ahead of a starved one is decoded completely into
//! a queue of 16-byte values before the first `next()` returns. With a 1-bit record this turns
//! every byte of the section into 128 bytes of heap (measured peak: 127x - 190x the FILE size),
//! and the first `next()` does not even deliver a point. The process dies in `handle_alloc_error`
//! ("memory allocation of N bytes failed", SIGABRT, not catchable) as soon as the file is
//! bigger than 1/128 of the memory the process may use.
//!
//! The demo gives the process a heap limit of 256 MiB (global allocator that refuses more, the
//! same effect as `ulimit -v` or a container limit) and reads a sealed 2 MB file.
//! Control: a well-formed file with the SAME prototype and the SAME size reads all of its
//! 256000 points under the same limit with a few MB.
//! Because an abort cannot be caught, the crafted file is read in a child process
//! (the same test binary, filtered to `f3_child`) and the parent checks its exit status.
//!
//! Run with: cargo test --offline --test f3_demo

use e57::E57Reader;
use std::alloc::{GlobalAlloc, Layout, System};
use std::io::Cursor;
use std::process::Command;
use std::sync::atomic::{AtomicUsize, Ordering};

const HEAP_LIMIT: usize = 256 * 1024 * 1024;
const CHILD_MARKER: &str = "E57_F3_DEMO_CHILD";
const PACKETS: usize = 32;

static LIVE: AtomicUsize = AtomicUsize::new(0);
static PEAK: AtomicUsize = AtomicUsize::new(0);

/// Allocator with a limit for the number of live heap bytes, like a process under `ulimit -v`.
struct Limited;

unsafe impl GlobalAlloc for Limited {
    unsafe fn alloc(&self, layout: Layout) -> *mut u8 {
        let live = LIVE.fetch_add(layout.size(), Ordering::SeqCst) + layout.size();
        if live > HEAP_LIMIT {
            LIVE.fetch_sub(layout.size(), Ordering::SeqCst);
            return std::ptr::null_mut();
        }
        PEAK.fetch_max(live, Ordering::SeqCst);
        System.alloc(layout)
    }
    unsafe fn dealloc(&self, ptr: *mut u8, layout: Layout) {
        LIVE.fetch_sub(layout.size(), Ordering::SeqCst);
        System.dealloc(ptr, layout)
    }
}

#[global_allocator]
static ALLOCATOR: Limited = Limited;

fn crc32c(data: &[u8]) -> u32 {
    let mut crc = !0u32;
    for b in data {
        crc ^= *b as u32;
        for _ in 0..8 {
            crc = if crc & 1 != 0 { (crc >> 1) ^ 0x82F6_3B78 } else { crc >> 1 };
        }
    }
    !crc
}

/// Builds a sealed E57 file: header, one compressed vector section at physical offset 48, XML.
fn build(packets: &[u8], record_count: u64) -> Vec<u8> {
    let xml = format!(
        "<?xml version=\"1.0\" encoding=\"UTF-8\"?>\n\
<e57Root type=\"Structure\" xmlns=\"http://www.astm.org/COMMIT/E57/2010-e57-v1.0\">\n\
<formatName type=\"String\"><![CDATA[ASTM E57 3D Imaging Data File]]></formatName>\n\
<guid type=\"String\"><![CDATA[file-guid]]></guid>\n\
<versionMajor type=\"Integer\">1</versionMajor>\n\
<versionMinor type=\"Integer\">0</versionMinor>\n\
<data3D type=\"Vector\" allowHeterogeneousChildren=\"1\">\n\
<vectorChild type=\"Structure\">\n\
<guid type=\"String\"><![CDATA[cloud-guid]]></guid>\n\
<points type=\"CompressedVector\" fileOffset=\"48\" recordCount=\"{record_count}\">\n\
<prototype type=\"Structure\">\n\
<isColorInvalid type=\"Integer\" minimum=\"0\" maximum=\"1\"/>\n\
<cartesianX type=\"Float\"/>\n\
</prototype>\n\
</points>\n\
</vectorChild>\n\
</data3D>\n\
<images2D type=\"Vector\" allowHeterogeneousChildren=\"1\">\n\
</images2D>\n\
</e57Root>\n"
    );
    let phys = |logical: u64| logical + (logical / 1020) * 4;
    let mut logical = vec![0u8; 48];
    let mut section = vec![0u8; 32];
    section[0] = 1;
    section[8..16].copy_from_slice(&((32 + packets.len()) as u64).to_le_bytes());
    section[16..24].copy_from_slice(&phys(48 + 32).to_le_bytes());
    logical.extend_from_slice(&section);
    logical.extend_from_slice(packets);
    while logical.len() % 4 != 0 {
        logical.push(0);
    }
    let xml_offset = logical.len() as u64;
    logical.extend_from_slice(xml.as_bytes());
    while logical.len() % 1020 != 0 {
        logical.push(0);
    }
    let pages = logical.len() / 1020;
    logical[0..8].copy_from_slice(b"ASTM-E57");
    logical[8..12].copy_from_slice(&1u32.to_le_bytes());
    logical[12..16].copy_from_slice(&0u32.to_le_bytes());
    logical[16..24].copy_from_slice(&((pages * 1024) as u64).to_le_bytes());
    logical[24..32].copy_from_slice(&phys(xml_offset).to_le_bytes());
    logical[32..40].copy_from_slice(&(xml.len() as u64).to_le_bytes());
    logical[40..48].copy_from_slice(&1024u64.to_le_bytes());
    let mut file = Vec::with_capacity(pages * 1024);
    for chunk in logical.chunks(1020) {
        file.extend_from_slice(chunk);
        file.extend_from_slice(&crc32c(chunk).to_be_bytes());
    }
    file
}

/// One data packet with two byte streams of the given sizes (filled with zero bits).
fn data_packet(flag_bytes: usize, coordinate_bytes: usize) -> Vec<u8> {
    let mut packet = vec![1u8, 0, 0, 0, 2, 0];
    packet.extend_from_slice(&(flag_bytes as u16).to_le_bytes());
    packet.extend_from_slice(&(coordinate_bytes as u16).to_le_bytes());
    packet.resize(packet.len() + flag_bytes + coordinate_bytes, 0);
    while packet.len() % 4 != 0 {
        packet.push(0);
    }
    assert!(packet.len() <= 65536);
    let length = (packet.len() - 1) as u16;
    packet[2..4].copy_from_slice(&length.to_le_bytes());
    packet
}

/// Well-formed: every packet holds 8000 complete points (1000 bytes of flags, 64000 bytes of doubles).
fn balanced_file() -> Vec<u8> {
    let packets: Vec<u8> = (0..PACKETS).flat_map(|_| data_packet(1000, 64000)).collect();
    build(&packets, (PACKETS * 8000) as u64)
}

/// Crafted: the same packets, but all payload bytes belong to the 1-bit stream, the other one starves.
fn starved_file() -> Vec<u8> {
    let packets: Vec<u8> = (0..PACKETS).flat_map(|_| data_packet(65000, 0)).collect();
    build(&packets, (PACKETS * 8000) as u64)
}

#[test]
fn control_well_formed_file_of_the_same_size_reads_within_the_limit() {
    let file = balanced_file();
    let size = file.len();
    let mut reader = E57Reader::new(Cursor::new(file)).expect("the file opens");
    let pc = reader.pointclouds().remove(0);
    let before = LIVE.load(Ordering::SeqCst);
    PEAK.store(before, Ordering::SeqCst);
    let mut points = 0;
    for point in reader.pointcloud_raw(&pc).expect("raw iterator") {
        point.expect("valid point");
        points += 1;
    }
    assert_eq!(points, PACKETS * 8000);
    let used = PEAK.load(Ordering::SeqCst).saturating_sub(before);
    eprintln!("control: file of {size} bytes, {points} points, peak heap while iterating {used} bytes");
}

/// Runs only inside the child process: reads the crafted file like any application would.
#[test]
fn f3_child() {
    if std::env::var(CHILD_MARKER).is_err() {
        return;
    }
    let file = starved_file();
    eprintln!("child: file of {} bytes, heap limit {} bytes", file.len(), HEAP_LIMIT);
    let mut reader = E57Reader::new(Cursor::new(file)).expect("the file opens");
    let pc = reader.pointclouds().remove(0);
    let mut iter = reader.pointcloud_simple(&pc).expect("simple iterator");
    let first = iter.next();
    eprintln!("child: first next() returned {:?}", first.map(|r| r.map_err(|e| e.to_string())));
    eprintln!("child: peak heap {} bytes", PEAK.load(Ordering::SeqCst));
    eprintln!("child: finished without panic or abort");
}

#[test]
fn first_next_of_a_2mb_file_must_not_abort_with_256_mib_of_heap() {
    let exe = std::env::current_exe().expect("path of the test binary");
    let output = Command::new(exe)
        .args(["f3_child", "--exact", "--nocapture", "--test-threads=1"])
        .env(CHILD_MARKER, "1")
        .output()
        .expect("child process starts");
    let stderr = String::from_utf8_lossy(&output.stderr);
    eprintln!("----- child stderr -----\n{stderr}------------------------");
    assert!(
        output.status.success(),
        "the first next() on a 2 MB file ended with {:?} instead of a value or an error",
        output.status
    );
}
