//! C08 / round 3 / F1: a point cloud WITHOUT any record in its prototype can never deliver a point,
//! yet the size hint of both point iterators promises `recordCount` points (up to u64::MAX).
//! Every std consumer that reserves memory for the lower bound (collect, extend, unzip, ...)
//! panics with "capacity overflow" on a sealed 2 KB file.
//!
//! Run with: cargo test --offline --test f1_demo

use e57::E57Reader;
use std::io::Cursor;
use std::panic::{catch_unwind, AssertUnwindSafe};

fn crc32c(data: &[u8]) -> u32 {
    let mut crc = !0u32;
    for b in data {
        crc ^= *b as u32;
        for _ in 0..8 {
            crc = if crc & 1 != 0 { (crc >> 1) ^ 0x82F6_3B78 } else { crc >> 1 };
        }
    }
    !crc
}

/// Builds a sealed E57 file: header, one compressed vector section at physical offset 48, XML.
fn build(packets: &[u8], xml: &[u8]) -> Vec<u8> {
    let phys = |logical: u64| logical + (logical / 1020) * 4;
    let mut logical = vec![0u8; 48];
    // compressed vector section header (32 bytes)
    let mut section = vec![0u8; 32];
    section[0] = 1;
    section[8..16].copy_from_slice(&((32 + packets.len()) as u64).to_le_bytes());
    section[16..24].copy_from_slice(&phys(48 + 32).to_le_bytes());
    logical.extend_from_slice(&section);
    logical.extend_from_slice(packets);
    while logical.len() % 4 != 0 {
        logical.push(0);
    }
    let xml_offset = logical.len() as u64;
    logical.extend_from_slice(xml);
    while logical.len() % 1020 != 0 {
        logical.push(0);
    }
    let pages = logical.len() / 1020;
    logical[0..8].copy_from_slice(b"ASTM-E57");
    logical[8..12].copy_from_slice(&1u32.to_le_bytes());
    logical[12..16].copy_from_slice(&0u32.to_le_bytes());
    logical[16..24].copy_from_slice(&((pages * 1024) as u64).to_le_bytes());
    logical[24..32].copy_from_slice(&phys(xml_offset).to_le_bytes());
    logical[32..40].copy_from_slice(&(xml.len() as u64).to_le_bytes());
    logical[40..48].copy_from_slice(&1024u64.to_le_bytes());
    let mut file = Vec::new();
    for p in 0..pages {
        let chunk = &logical[p * 1020..(p + 1) * 1020];
        file.extend_from_slice(chunk);
        file.extend_from_slice(&crc32c(chunk).to_be_bytes());
    }
    file
}

fn file_with_empty_prototype(record_count: u64) -> Vec<u8> {
    let xml = format!(
        "<?xml version=\"1.0\" encoding=\"UTF-8\"?>\n\
<e57Root type=\"Structure\" xmlns=\"http://www.astm.org/COMMIT/E57/2010-e57-v1.0\">\n\
<formatName type=\"String\"><![CDATA[ASTM E57 3D Imaging Data File]]></formatName>\n\
<guid type=\"String\"><![CDATA[file-guid]]></guid>\n\
<versionMajor type=\"Integer\">1</versionMajor>\n\
<versionMinor type=\"Integer\">0</versionMinor>\n\
<data3D type=\"Vector\" allowHeterogeneousChildren=\"1\">\n\
<vectorChild type=\"Structure\">\n\
<guid type=\"String\"><![CDATA[cloud-guid]]></guid>\n\
<points type=\"CompressedVector\" fileOffset=\"48\" recordCount=\"{record_count}\">\n\
<prototype type=\"Structure\">\n\
</prototype>\n\
</points>\n\
</vectorChild>\n\
</data3D>\n\
<images2D type=\"Vector\" allowHeterogeneousChildren=\"1\">\n\
</images2D>\n\
</e57Root>\n"
    );
    // One (empty) ignored packet so that the section is not completely empty
    build(&[2, 0, 3, 0], xml.as_bytes())
}

#[test]
fn control_cloud_without_records_delivers_no_point() {
    let file = file_with_empty_prototype(u64::MAX);
    let mut reader = E57Reader::new(Cursor::new(file)).expect("the file opens");
    let pc = reader.pointclouds().remove(0);
    assert!(pc.prototype.is_empty());
    assert_eq!(pc.records, u64::MAX);
    let mut raw = reader.pointcloud_raw(&pc).expect("raw iterator");
    for _ in 0..5 {
        assert!(matches!(raw.next(), Some(Err(_))), "no point can come out of this cloud");
    }
    let mut simple = reader.pointcloud_simple(&pc).expect("simple iterator");
    for _ in 0..5 {
        assert!(matches!(simple.next(), Some(Err(_))), "no point can come out of this cloud");
    }
}

#[test]
fn collecting_the_raw_iterator_must_not_panic() {
    let file = file_with_empty_prototype(u64::MAX);
    assert!(file.len() <= 2048);
    let mut reader = E57Reader::new(Cursor::new(file)).expect("the file opens");
    let pc = reader.pointclouds().remove(0);
    let iter = reader.pointcloud_raw(&pc).expect("raw iterator");
    let lower = iter.size_hint().0;
    eprintln!("raw iterator: lower bound of size_hint = {lower}");
    let outcome = catch_unwind(AssertUnwindSafe(|| {
        // Guard only for repaired trees: an iterator that yields errors forever must not be collected.
        if lower > 1_000_000 {
            iter.collect::<Vec<_>>().len()
        } else {
            0
        }
    }));
    assert!(
        outcome.is_ok(),
        "collect() on the raw iterator of a 2 KB file panicked: size_hint promised {lower} points for a cloud that cannot deliver any"
    );
}

#[test]
fn extending_from_the_simple_iterator_must_not_panic() {
    let file = file_with_empty_prototype(1 << 62);
    let mut reader = E57Reader::new(Cursor::new(file)).expect("the file opens");
    let pc = reader.pointclouds().remove(0);
    let mut iter = reader.pointcloud_simple(&pc).expect("simple iterator");
    iter.normalize_color(false);
    let lower = iter.size_hint().0;
    eprintln!("simple iterator: lower bound of size_hint = {lower}");
    let outcome = catch_unwind(AssertUnwindSafe(|| {
        let mut points = Vec::new();
        if lower > 1_000_000 {
            points.extend(iter);
        }
        points.len()
    }));
    assert!(
        outcome.is_ok(),
        "Vec::extend() from the simple iterator of a 2 KB file panicked: size_hint promised {lower} points for a cloud that cannot deliver any"
    );
}
