// C18: a foreign attribute added to a standard element OUTSIDE the prototype (with the namespace
// declaration it needs on the same element) changes the namespace prefix the reader reports for the
// extension records INSIDE the prototype.
use e57::{E57Reader, E57Writer, Extension, Record, RecordDataType, RecordName, RecordValue, Result};
use std::io::Cursor;

fn build(transformer: impl Fn(String) -> Result<String>) -> Vec<u8> {
    let mut device = Cursor::new(Vec::new());
    let mut writer = E57Writer::new(&mut device, "file-guid").unwrap();
    writer
        .register_extension(Extension::new("ext", "http://example.com/ext"))
        .unwrap();
    let prototype = vec![
        Record::CARTESIAN_X_F64,
        Record::CARTESIAN_Y_F64,
        Record::CARTESIAN_Z_F64,
        Record {
            name: RecordName::Unknown {
                namespace: "ext".into(),
                name: "classification".into(),
            },
            data_type: RecordDataType::Integer { min: 0, max: 10 },
        },
    ];
    let mut pc = writer.add_pointcloud("pc-guid", prototype).unwrap();
    pc.add_point(vec![
        RecordValue::Double(1.0),
        RecordValue::Double(2.0),
        RecordValue::Double(3.0),
        RecordValue::Integer(4),
    ])
    .unwrap();
    pc.finalize().unwrap();
    writer.finalize_customized_xml(transformer).unwrap();
    drop(writer);
    device.into_inner()
}

fn reported_names(bytes: Vec<u8>) -> Vec<RecordName> {
    let reader = E57Reader::new(Cursor::new(bytes)).unwrap();
    let pc = reader.pointclouds().remove(0);
    pc.prototype.into_iter().map(|r| r.name).collect()
}

#[test]
fn foreign_attribute_on_points_element_keeps_record_prefix() {
    let expected = RecordName::Unknown {
        namespace: "ext".into(),
        name: "classification".into(),
    };

    // Without any addition the record is reported as ext:classification
    let plain = reported_names(build(Ok));
    assert_eq!(plain[3], expected);

    // A tool decorates the standard `points` element (outside the prototype) with one attribute of the
    // same extension. It declares the namespace where it needs it and uses its own prefix `e` for it.
    // The prototype is not touched, the record is still written as <ext:classification .../>.
    let decorated = build(|xml| {
        let old = "<points type=\"CompressedVector\"";
        let new = "<points xmlns:e=\"http://example.com/ext\" e:sorted=\"1\" type=\"CompressedVector\"";
        assert!(xml.contains(old));
        assert!(xml.contains("<ext:classification "));
        let xml = xml.replace(old, new);
        Ok(xml)
    });
    let names = reported_names(decorated);

    // Standard records are unaffected ...
    assert_eq!(names[0], RecordName::CartesianX);
    // ... and the extension record must still be reported with ITS prefix and name
    assert_eq!(
        names[3], expected,
        "an attribute added outside the prototype changed the prefix reported for <ext:classification>"
    );
    assert_eq!(names, plain);
}
