//! C10 demo F1: intensity / color limits that are only partly filled in are dropped silently.
//!
//! `PointCloudWriter::set_intensity_limits` / `set_color_limits` accept limits with a missing
//! member. Such limits cannot be stored (the E57 structures need all members), but no call
//! reports an error: every call including both `finalize()` calls succeeds and the file simply
//! contains no limits at all - also the members that WERE given are gone.
//!
//! The property demands: rejected with an error instead of being altered silently.

use e57::{
    ColorLimits, E57Reader, E57Writer, IntensityLimits, Record, RecordDataType, RecordName,
    RecordValue,
};
use std::io::Cursor;

fn prototype() -> Vec<Record> {
    vec![
        Record::CARTESIAN_X_F64,
        Record::CARTESIAN_Y_F64,
        Record::CARTESIAN_Z_F64,
        Record::COLOR_RED_U8,
        Record::COLOR_GREEN_U8,
        Record::COLOR_BLUE_U8,
        Record {
            name: RecordName::Intensity,
            data_type: RecordDataType::Integer { min: 0, max: 4095 },
        },
    ]
}

fn point() -> Vec<RecordValue> {
    vec![
        RecordValue::Double(1.0),
        RecordValue::Double(2.0),
        RecordValue::Double(3.0),
        RecordValue::Integer(10),
        RecordValue::Integer(20),
        RecordValue::Integer(30),
        RecordValue::Integer(1000),
    ]
}

#[test]
fn partial_intensity_limits_are_rejected_or_stored() {
    let mut device = Cursor::new(Vec::new());
    let mut writer = E57Writer::new(&mut device, "file-guid").unwrap();
    let mut pc = writer.add_pointcloud("pc-guid", prototype()).unwrap();

    // The sensor range is known to start at 100, the upper end is not known
    pc.set_intensity_limits(Some(IntensityLimits {
        intensity_min: Some(RecordValue::Integer(100)),
        intensity_max: None,
    }));
    pc.add_point(point()).unwrap();

    // Rejecting loudly is fine
    if pc.finalize().is_err() {
        return;
    }
    if writer.finalize().is_err() {
        return;
    }
    drop(writer);

    // All calls succeeded, so the file has to contain what was handed to the writer
    let reader = E57Reader::new(Cursor::new(device.into_inner())).unwrap();
    let read = reader.pointclouds().remove(0);
    let limits = read
        .intensity_limits
        .expect("all writer calls succeeded, but the intensity limits were dropped silently");
    assert_eq!(limits.intensity_min, Some(RecordValue::Integer(100)));
    assert_eq!(limits.intensity_max, None);
}

#[test]
fn partial_color_limits_are_rejected_or_stored() {
    let mut device = Cursor::new(Vec::new());
    let mut writer = E57Writer::new(&mut device, "file-guid").unwrap();
    let mut pc = writer.add_pointcloud("pc-guid", prototype()).unwrap();

    // Five of six members are given
    pc.set_color_limits(Some(ColorLimits {
        red_min: Some(RecordValue::Integer(0)),
        red_max: Some(RecordValue::Integer(200)),
        green_min: Some(RecordValue::Integer(0)),
        green_max: Some(RecordValue::Integer(200)),
        blue_min: Some(RecordValue::Integer(0)),
        blue_max: None,
    }));
    pc.add_point(point()).unwrap();

    if pc.finalize().is_err() {
        return;
    }
    if writer.finalize().is_err() {
        return;
    }
    drop(writer);

    let reader = E57Reader::new(Cursor::new(device.into_inner())).unwrap();
    let read = reader.pointclouds().remove(0);
    let limits = read
        .color_limits
        .expect("all writer calls succeeded, but the color limits were dropped silently");
    assert_eq!(limits.red_max, Some(RecordValue::Integer(200)));
    assert_eq!(limits.green_max, Some(RecordValue::Integer(200)));
    assert_eq!(limits.blue_min, Some(RecordValue::Integer(0)));
    assert_eq!(limits.blue_max, None);
}
