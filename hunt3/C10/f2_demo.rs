//! C10 demo F2: limits that this library's own reader refuses are stored without an error.
//!
//! `set_intensity_limits` / `set_color_limits` store any pair of values, also a minimum above
//! the maximum or NaN. All writer calls succeed, but the resulting point cloud cannot be read
//! with `E57Reader::pointcloud_simple()`: it fails with "Found invalid range" before the first
//! point. The prototype has the same rule for its float ranges since the fix e9cf8f9
//! (rejected in `validate_prototype`), the limits that are set through the setters were left out.

use e57::{
    ColorLimits, E57Reader, E57Writer, IntensityLimits, Record, RecordDataType, RecordName,
    RecordValue,
};
use std::io::Cursor;

fn write_and_read_back(
    intensity: Option<IntensityLimits>,
    color: Option<ColorLimits>,
) -> std::result::Result<usize, String> {
    let prototype = vec![
        Record::CARTESIAN_X_F64,
        Record::CARTESIAN_Y_F64,
        Record::CARTESIAN_Z_F64,
        Record::COLOR_RED_U8,
        Record::COLOR_GREEN_U8,
        Record::COLOR_BLUE_U8,
        Record {
            name: RecordName::Intensity,
            data_type: RecordDataType::Single {
                min: Some(0.0),
                max: Some(1.0),
            },
        },
    ];
    let mut device = Cursor::new(Vec::new());
    let mut writer = E57Writer::new(&mut device, "file-guid").unwrap();
    let mut pc = writer.add_pointcloud("pc-guid", prototype).unwrap();
    if intensity.is_some() {
        pc.set_intensity_limits(intensity);
    }
    if color.is_some() {
        pc.set_color_limits(color);
    }
    for i in 0..10 {
        pc.add_point(vec![
            RecordValue::Double(i as f64),
            RecordValue::Double(2.0),
            RecordValue::Double(3.0),
            RecordValue::Integer(10),
            RecordValue::Integer(20),
            RecordValue::Integer(30),
            RecordValue::Single(0.5),
        ])
        .unwrap();
    }

    // Rejecting loudly is fine: report "no points, but an error"
    if pc.finalize().is_err() || writer.finalize().is_err() {
        return Ok(usize::MAX);
    }
    drop(writer);

    // All calls succeeded: the file has to open and to read back
    let mut reader =
        E57Reader::new(Cursor::new(device.into_inner())).map_err(|e| format!("open: {e}"))?;
    let read = reader.pointclouds().remove(0);
    let raw = reader
        .pointcloud_raw(&read)
        .map_err(|e| format!("raw: {e}"))?
        .count();
    assert_eq!(raw, 10);
    let simple = reader
        .pointcloud_simple(&read)
        .map_err(|e| format!("pointcloud_simple: {e}"))?;
    let mut count = 0;
    for p in simple {
        p.map_err(|e| format!("simple point: {e}"))?;
        count += 1;
    }
    Ok(count)
}

#[test]
fn swapped_intensity_limits() {
    let limits = IntensityLimits {
        intensity_min: Some(RecordValue::Single(1.0)),
        intensity_max: Some(RecordValue::Single(0.0)),
    };
    let result = write_and_read_back(Some(limits), None);
    assert!(
        matches!(result, Ok(10) | Ok(usize::MAX)),
        "all writer calls succeeded, but the point cloud does not read back: {result:?}"
    );
}

#[test]
fn nan_color_limit() {
    let limits = ColorLimits {
        red_min: Some(RecordValue::Double(0.0)),
        red_max: Some(RecordValue::Double(255.0)),
        green_min: Some(RecordValue::Double(0.0)),
        green_max: Some(RecordValue::Double(f64::NAN)),
        blue_min: Some(RecordValue::Double(0.0)),
        blue_max: Some(RecordValue::Double(255.0)),
    };
    let result = write_and_read_back(None, Some(limits));
    assert!(
        matches!(result, Ok(10) | Ok(usize::MAX)),
        "all writer calls succeeded, but the point cloud does not read back: {result:?}"
    );
}
