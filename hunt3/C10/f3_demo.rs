//! C10 demo F3: a second `ImageWriter::add_visual_reference()` replaces the first one silently.
//!
//! An E57 image holds at most one visual reference representation. The three projection calls
//! (`add_pinhole`, `add_spherical`, `add_cylindrical`) reject a second representation with
//! "A projected image is already set", `add_visual_reference` has no such check: both calls
//! succeed, both blobs are written into the file, the metadata of the first one is overwritten
//! and its blob is never referenced. The image that reads back is not what the first
//! (successful) call stored.

use e57::{
    E57Reader, E57Writer, ImageFormat, PinholeImageProperties, VisualReferenceImageProperties,
};
use std::io::Cursor;

#[test]
fn second_visual_reference_is_rejected() {
    let mut device = Cursor::new(Vec::new());
    let mut writer = E57Writer::new(&mut device, "file-guid").unwrap();
    let mut image = writer.add_image("image-guid").unwrap();

    let first = vec![1_u8; 100];
    let second = vec![2_u8; 50];

    image
        .add_visual_reference(
            ImageFormat::Png,
            &mut Cursor::new(first.clone()),
            VisualReferenceImageProperties {
                width: 10,
                height: 10,
            },
            None,
        )
        .unwrap();
    let again = image.add_visual_reference(
        ImageFormat::Jpeg,
        &mut Cursor::new(second.clone()),
        VisualReferenceImageProperties {
            width: 5,
            height: 10,
        },
        None,
    );

    // For comparison: a second projection is refused by the same writer
    let props = PinholeImageProperties {
        width: 1,
        height: 1,
        focal_length: 1.0,
        pixel_width: 1.0,
        pixel_height: 1.0,
        principal_x: 0.0,
        principal_y: 0.0,
    };
    image
        .add_pinhole(
            ImageFormat::Png,
            &mut Cursor::new(vec![3_u8; 10]),
            props.clone(),
            None,
        )
        .unwrap();
    assert!(image
        .add_pinhole(ImageFormat::Png, &mut Cursor::new(vec![3_u8; 10]), props, None)
        .is_err());

    image.finalize().unwrap();
    writer.finalize().unwrap();
    drop(writer);

    // What did the file keep?
    let mut reader = E57Reader::new(Cursor::new(device.into_inner())).unwrap();
    let images = reader.images();
    assert_eq!(images.len(), 1);
    let visual = images[0].visual_reference.clone().unwrap();
    let mut stored = Vec::new();
    reader.blob(&visual.blob.data, &mut stored).unwrap();

    // Either the second call is refused, or - if the writer decides to accept it - nothing that
    // an earlier successful call stored may vanish. Only one representation fits into an image,
    // so the only faithful answer is an error for the second call.
    assert!(
        again.is_err(),
        "the second add_visual_reference() reported success; the image that reads back has \
         width {} and {} bytes of data, the 100 bytes PNG (width 10) of the first successful \
         call are lost without any error",
        visual.properties.width,
        stored.len()
    );
}
