// C11 f1: the paged writer does not retry a device read that reports ErrorKind::Interrupted.
//
// The page-layer test needs the verification hooks:
//   RUSTFLAGS="--cfg e57_verif" cargo test --offline --test f1_demo
// The second test uses only the normal public API (E57Writer/E57Reader) and runs without the flag.

use std::cell::RefCell;
use std::io::{Cursor, Error, ErrorKind, Read, Seek, SeekFrom, Write};
use std::rc::Rc;

/// An in-memory read/write/seek device. It is fully conforming to the std::io contracts.
/// Exactly once (on its first `read` call) it reports ErrorKind::Interrupted without
/// transferring anything, as a file on a slow medium does when a signal arrives (EINTR).
/// std documents this kind as non-fatal: "Interrupted operations can typically be retried";
/// read_exact, read_to_end, write_all and io::copy all retry it.
#[derive(Clone)]
struct EintrOnce {
    data: Rc<RefCell<Cursor<Vec<u8>>>>,
    pending: Rc<RefCell<bool>>,
}

impl EintrOnce {
    fn new() -> Self {
        Self {
            data: Rc::new(RefCell::new(Cursor::new(Vec::new()))),
            pending: Rc::new(RefCell::new(true)),
        }
    }
    fn content(&self) -> Vec<u8> {
        self.data.borrow().get_ref().clone()
    }
}

impl Read for EintrOnce {
    fn read(&mut self, buf: &mut [u8]) -> std::io::Result<usize> {
        if self.pending.replace(false) {
            return Err(Error::new(ErrorKind::Interrupted, "EINTR"));
        }
        self.data.borrow_mut().read(buf)
    }
}

impl Write for EintrOnce {
    fn write(&mut self, buf: &[u8]) -> std::io::Result<usize> {
        self.data.borrow_mut().write(buf)
    }
    fn flush(&mut self) -> std::io::Result<()> {
        Ok(())
    }
}

impl Seek for EintrOnce {
    fn seek(&mut self, pos: SeekFrom) -> std::io::Result<u64> {
        self.data.borrow_mut().seek(pos)
    }
}

#[cfg(e57_verif)]
fn crc32c(data: &[u8]) -> u32 {
    let mut crc = !0u32;
    for &b in data {
        crc ^= b as u32;
        for _ in 0..8 {
            crc = if crc & 1 != 0 { (crc >> 1) ^ 0x82F6_3B78 } else { crc >> 1 };
        }
    }
    !crc
}

/// Plain appending over a page boundary, then a flush: the file payload must be the stream.
#[cfg(e57_verif)]
#[test]
fn page_layer_append_with_one_interrupted_read() {
    use e57::verif_hooks::PagedWriter;

    let dev = EintrOnce::new();
    let mut writer = PagedWriter::new(dev.clone()).unwrap();
    let stream: Vec<u8> = (0..1500u32).map(|i| (i % 251) as u8 + 1).collect();

    let written = writer.write_all(&stream);
    assert!(
        written.is_ok(),
        "appending 1500 bytes failed on a conforming device: {written:?}"
    );
    writer.flush().expect("flush");
    assert_eq!(writer.physical_position().unwrap(), 1500 + 4);
    assert_eq!(writer.physical_size().unwrap(), 2048);
    drop(writer);

    let file = dev.content();
    assert_eq!(file.len(), 2048);
    let mut payload = Vec::new();
    for page in file.chunks(1024) {
        assert_eq!(&page[1020..], &crc32c(&page[..1020]).to_be_bytes());
        payload.extend_from_slice(&page[..1020]);
    }
    let mut expected = stream.clone();
    expected.resize(2040, 0);
    assert_eq!(payload, expected);
}

/// The same through the normal public API: an empty E57 file is written to the device.
#[test]
fn public_api_write_with_one_interrupted_read() {
    let dev = EintrOnce::new();
    let mut writer = e57::E57Writer::new(dev.clone(), "guid-c11-f1").unwrap();
    // Enough XML to cross the first page boundary for sure
    writer.set_coordinate_metadata(Some("x".repeat(3000)));
    let result = writer.finalize();
    assert!(
        result.is_ok(),
        "writing an empty E57 file failed on a conforming device: {result:?}"
    );
    drop(writer);

    let file = dev.content();
    let reader = e57::E57Reader::new(Cursor::new(file)).expect("file must be readable");
    assert_eq!(reader.guid(), "guid-c11-f1");
}
