//! C09 F1: character data that is split into many text / CDATA pieces makes `E57Reader::new`
//! quadratic in time. The XML parser (roxmltree 0.20, `append_text`) joins every further piece
//! of an element's character data with all earlier pieces by copying them into a new string.
//! The pre-scan `check_xml_shape` does not look at character data at all.
//!
//! The library's own writer produces exactly this shape: every carriage return in a string is
//! written as `]]>&#13;<![CDATA[` (fix 455b0c8), every `]]>` as `]]]]><![CDATA[>`.
//!
//! Both tests compare the time for opening the split file with the time for opening a file of the
//! same (or bigger) byte size whose string is stored in a single CDATA section. The property
//! demands a bound that is a fixed multiple of the input size, so both must be in the same league.

use e57::{E57Reader, E57Writer};
use std::io::Cursor;
use std::time::{Duration, Instant};

fn crc32c(data: &[u8]) -> u32 {
    let mut crc = !0u32;
    for b in data {
        crc ^= *b as u32;
        for _ in 0..8 {
            crc = if crc & 1 != 0 { (crc >> 1) ^ 0x82F6_3B78 } else { crc >> 1 };
        }
    }
    !crc
}

/// Valid E57 file without binary sections: header, XML, CRC pages.
fn build_file(xml: &[u8]) -> Vec<u8> {
    let mut logical = vec![0u8; 48];
    logical.extend_from_slice(xml);
    while logical.len() % 1020 != 0 {
        logical.push(0);
    }
    let pages = logical.len() / 1020;
    logical[0..8].copy_from_slice(b"ASTM-E57");
    logical[8..12].copy_from_slice(&1u32.to_le_bytes());
    logical[12..16].copy_from_slice(&0u32.to_le_bytes());
    logical[16..24].copy_from_slice(&((pages * 1024) as u64).to_le_bytes());
    logical[24..32].copy_from_slice(&48u64.to_le_bytes());
    logical[32..40].copy_from_slice(&(xml.len() as u64).to_le_bytes());
    logical[40..48].copy_from_slice(&1024u64.to_le_bytes());
    let mut out = Vec::with_capacity(pages * 1024);
    for p in 0..pages {
        let chunk = &logical[p * 1020..(p + 1) * 1020];
        out.extend_from_slice(chunk);
        out.extend_from_slice(&crc32c(chunk).to_be_bytes());
    }
    out
}

fn root_xml(inner: &str) -> String {
    format!(
        "<?xml version=\"1.0\" encoding=\"UTF-8\"?>\n\
         <e57Root type=\"Structure\" xmlns=\"http://www.astm.org/COMMIT/E57/2010-e57-v1.0\">\n\
         <formatName type=\"String\"><![CDATA[ASTM E57 3D Imaging Data File]]></formatName>\n\
         <guid type=\"String\"><![CDATA[g]]></guid>\n\
         <versionMajor type=\"Integer\">1</versionMajor>\n\
         <versionMinor type=\"Integer\">0</versionMinor>\n\
         {inner}</e57Root>\n"
    )
}

fn open(file: &[u8]) -> (Duration, Option<String>) {
    let start = Instant::now();
    let reader = E57Reader::new(Cursor::new(file.to_vec())).expect("the file is valid and must open");
    let elapsed = start.elapsed();
    (elapsed, reader.coordinate_metadata().map(|s| s.to_owned()))
}

/// A file written by this library: coordinate metadata (WKT text) with Windows line endings.
#[test]
fn file_of_the_own_writer_with_crlf_text_opens_in_linear_time() {
    const LINES: usize = 60_000;
    let line = "PARAMETER[\"x\",1]"; // 16 characters per line
    let crlf_text: String = (0..LINES).map(|_| format!("{line}\r\n")).collect();
    // Same text with plain line feeds, padded to at least the byte size of the escaped CRLF text
    // (each carriage return costs 17 bytes in the XML).
    let mut lf_text: String = (0..LINES).map(|_| format!("{line}\n")).collect();
    lf_text += &"x".repeat(LINES * 17);

    let write = |text: &str| -> Vec<u8> {
        let mut cursor = Cursor::new(Vec::new());
        let mut writer = E57Writer::new(&mut cursor, "guid").unwrap();
        writer.set_coordinate_metadata(Some(text.to_owned()));
        writer.finalize().unwrap();
        drop(writer);
        cursor.into_inner()
    };
    let crlf_file = write(&crlf_text);
    let lf_file = write(&lf_text);
    assert!(lf_file.len() >= crlf_file.len());

    let (lf_time, lf_value) = open(&lf_file);
    assert_eq!(lf_value.as_deref(), Some(lf_text.as_str()));
    let (crlf_time, crlf_value) = open(&crlf_file);
    assert_eq!(crlf_value.as_deref(), Some(crlf_text.as_str()));

    println!(
        "own writer: CRLF file {} bytes opens in {crlf_time:?}, LF file {} bytes opens in {lf_time:?}",
        crlf_file.len(),
        lf_file.len()
    );
    assert!(
        crlf_time < lf_time * 8 + Duration::from_millis(200),
        "opening {} bytes took {crlf_time:?}, a bigger file with the same text in one piece took {lf_time:?}",
        crlf_file.len()
    );
}

/// A file of another producer: a string split into many CDATA sections and text pieces.
/// Doubling the file must not quadruple the time.
#[test]
fn split_character_data_opens_in_linear_time() {
    let make = |pieces: usize| -> Vec<u8> {
        let mut s = String::from("<coordinateMetadata type=\"String\">");
        for _ in 0..pieces {
            s += "<![CDATA[]]>xxxxxxxxxxxx";
        }
        s += "</coordinateMetadata>\n";
        build_file(root_xml(&s).as_bytes())
    };
    let small = make(30_000);
    let big = make(120_000);
    let (small_time, small_value) = open(&small);
    let (big_time, big_value) = open(&big);
    assert_eq!(small_value.map(|s| s.len()), Some(30_000 * 12));
    assert_eq!(big_value.map(|s| s.len()), Some(120_000 * 12));
    println!(
        "split text: {} bytes open in {small_time:?}, {} bytes open in {big_time:?}",
        small.len(),
        big.len()
    );
    // Four times the input may cost four times the time (plus generous slack), not sixteen times or more
    assert!(
        big_time < small_time * 8 + Duration::from_millis(200),
        "{} bytes opened in {small_time:?} but {} bytes (x4) needed {big_time:?}",
        small.len(),
        big.len()
    );
}
