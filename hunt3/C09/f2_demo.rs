//! C09 F2: `PointCloud::from_node` calls `Node::lookup_prefix` for every record of a prototype.
//! `lookup_prefix` compares the namespace URI of the record with the URI of every namespace in scope.
//! With ~500 declared namespaces (inside the reader's limit of 512) whose URIs are long, equally long
//! and differ only at the end, every record of 25 bytes costs 500 comparisons of L bytes each:
//! P records * 500 * L bytes, where 500 * L and 25 * P are both about half of the file.
//! The time for `E57Reader::new` grows with the square of the input size.
//!
//! The test opens two files of identical size and structure. They differ only in the prefix that the
//! prototype records use: the namespace declared first (found at once) or the one declared last.

use e57::E57Reader;
use std::io::Cursor;
use std::time::{Duration, Instant};

fn crc32c(data: &[u8]) -> u32 {
    let mut crc = !0u32;
    for b in data {
        crc ^= *b as u32;
        for _ in 0..8 {
            crc = if crc & 1 != 0 { (crc >> 1) ^ 0x82F6_3B78 } else { crc >> 1 };
        }
    }
    !crc
}

/// Valid E57 file: header, 64 zero bytes, XML, CRC pages.
fn build_file(xml: &[u8]) -> Vec<u8> {
    let mut logical = vec![0u8; 48 + 64];
    logical.extend_from_slice(xml);
    while logical.len() % 1020 != 0 {
        logical.push(0);
    }
    let pages = logical.len() / 1020;
    logical[0..8].copy_from_slice(b"ASTM-E57");
    logical[8..12].copy_from_slice(&1u32.to_le_bytes());
    logical[12..16].copy_from_slice(&0u32.to_le_bytes());
    logical[16..24].copy_from_slice(&((pages * 1024) as u64).to_le_bytes());
    logical[24..32].copy_from_slice(&112u64.to_le_bytes());
    logical[32..40].copy_from_slice(&(xml.len() as u64).to_le_bytes());
    logical[40..48].copy_from_slice(&1024u64.to_le_bytes());
    let mut out = Vec::with_capacity(pages * 1024);
    for p in 0..pages {
        let chunk = &logical[p * 1020..(p + 1) * 1020];
        out.extend_from_slice(chunk);
        out.extend_from_slice(&crc32c(chunk).to_be_bytes());
    }
    out
}

const NAMESPACES: usize = 500; // the reader accepts up to 512 declarations and 512 attributes

fn make(uri_len: usize, records: usize, use_last_namespace: bool) -> Vec<u8> {
    let mut xml = String::from(
        "<?xml version=\"1.0\" encoding=\"UTF-8\"?>\n<e57Root type=\"Structure\" xmlns=\"http://www.astm.org/COMMIT/E57/2010-e57-v1.0\"",
    );
    let base = "u".repeat(uri_len - 4);
    for i in 0..NAMESPACES {
        xml += &format!(" xmlns:n{i}=\"{base}{i:04}\"");
    }
    xml += ">\n<formatName type=\"String\"><![CDATA[ASTM E57 3D Imaging Data File]]></formatName>\n\
            <guid type=\"String\"><![CDATA[g]]></guid>\n\
            <versionMajor type=\"Integer\">1</versionMajor>\n\
            <versionMinor type=\"Integer\">0</versionMinor>\n\
            <data3D type=\"Vector\" allowHeterogeneousChildren=\"1\">\n\
            <vectorChild type=\"Structure\">\n<guid type=\"String\"><![CDATA[pc]]></guid>\n\
            <points type=\"CompressedVector\" fileOffset=\"48\" recordCount=\"0\">\n<prototype type=\"Structure\">\n";
    for i in 0..records {
        // unique record names, both variants have the same length
        if use_last_namespace {
            xml += &format!("<n{}:a{i:06} type=\"Integer\"/>", NAMESPACES - 1);
        } else {
            xml += &format!("<n0:a{i:06} type=\"Integer\"/>  ");
        }
    }
    xml += "</prototype>\n</points>\n</vectorChild>\n</data3D>\n</e57Root>\n";
    build_file(xml.as_bytes())
}

fn open(file: &[u8], records: usize) -> Duration {
    let start = Instant::now();
    let reader = E57Reader::new(Cursor::new(file.to_vec())).expect("the file is valid and must open");
    let elapsed = start.elapsed();
    let pcs = reader.pointclouds();
    assert_eq!(pcs.len(), 1);
    assert_eq!(pcs[0].prototype.len(), records);
    assert_eq!(reader.extensions().len(), NAMESPACES);
    elapsed
}

#[test]
fn prototype_records_of_the_last_declared_namespace_open_in_linear_time() {
    let uri_len = 6000;
    let records = 120_000;
    let first = make(uri_len, records, false);
    let last = make(uri_len, records, true);
    assert_eq!(first.len(), last.len());

    let first_time = open(&first, records);
    let last_time = open(&last, records);
    println!(
        "{} bytes: records in the first namespace open in {first_time:?}, records in the last namespace in {last_time:?}",
        first.len()
    );
    assert!(
        last_time < first_time * 5 + Duration::from_millis(200),
        "two files of {} bytes with the same structure: {first_time:?} versus {last_time:?}",
        first.len()
    );
}

/// Four times the URI length and four times the records give four times the file, not sixteen times the time.
#[test]
fn four_times_the_file_does_not_cost_sixteen_times_the_time() {
    let small = make(2000, 40_000, true);
    let big = make(8000, 160_000, true);
    let small_time = open(&small, 40_000);
    let big_time = open(&big, 160_000);
    println!(
        "{} bytes open in {small_time:?}, {} bytes open in {big_time:?}",
        small.len(),
        big.len()
    );
    assert!(big.len() < small.len() * 4 + 4096);
    // Four times the input may cost four times the time (plus generous slack), not sixteen times
    assert!(
        big_time < small_time * 8 + Duration::from_millis(200),
        "{} bytes opened in {small_time:?} but {} bytes (x4) needed {big_time:?}",
        small.len(),
        big.len()
    );
}
