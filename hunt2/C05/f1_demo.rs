// F1 demo: an option switch made after the iteration has started takes effect at an
// arbitrary, undocumented position (the next internal packet boundary), so the points
// handed out after the switch are NOT the documented view for the current option setting.
use e57::{
    CartesianCoordinate, E57Reader, E57Writer, Quaternion, Record, RecordDataType, RecordName,
    RecordValue, Transform, Translation,
};
use std::io::Cursor;

const N: usize = 10_000;

fn build_file() -> Vec<u8> {
    let mut cursor = Cursor::new(Vec::new());
    let mut writer = E57Writer::new(&mut cursor, "file-guid").unwrap();
    let prototype = vec![
        Record::CARTESIAN_X_F64,
        Record::CARTESIAN_Y_F64,
        Record::CARTESIAN_Z_F64,
        Record {
            name: RecordName::Intensity,
            data_type: RecordDataType::U8,
        },
    ];
    {
        let mut pc = writer.add_pointcloud("pc-guid", prototype).unwrap();
        // Unit quaternion (identity rotation) and a translation of +100 m in X
        pc.set_transform(Some(Transform {
            rotation: Quaternion {
                w: 1.0,
                x: 0.0,
                y: 0.0,
                z: 0.0,
            },
            translation: Translation {
                x: 100.0,
                y: 0.0,
                z: 0.0,
            },
        }));
        for _ in 0..N {
            pc.add_point(vec![
                RecordValue::Double(1.0),
                RecordValue::Double(2.0),
                RecordValue::Double(3.0),
                RecordValue::Integer(255),
            ])
            .unwrap();
        }
        pc.finalize().unwrap();
    }
    writer.finalize().unwrap();
    drop(writer);
    cursor.into_inner()
}

fn x_of(c: &CartesianCoordinate) -> f64 {
    match c {
        CartesianCoordinate::Valid { x, .. } => *x,
        other => panic!("unexpected coordinate {other:?}"),
    }
}

#[test]
fn apply_pose_switch_after_first_point() {
    let mut reader = E57Reader::new(Cursor::new(build_file())).unwrap();
    let pc = reader.pointclouds().remove(0);
    assert_eq!(reader.pointcloud_raw(&pc).unwrap().count(), N);

    let mut iter = reader.pointcloud_simple(&pc).unwrap();

    // Default setting: pose applied, stored x = 1.0 becomes 101.0
    let first = iter.next().unwrap().unwrap();
    assert_eq!(x_of(&first.cartesian), 101.0);

    // Switch the documented aspect off: "If enabled, the iterator will apply the point cloud pose"
    iter.apply_pose(false);

    // From now on every point must be the documented view for apply_pose = false: the stored x = 1.0
    let mut wrong = Vec::new();
    let mut count = 1;
    for (i, p) in iter.enumerate() {
        count += 1;
        let x = x_of(&p.unwrap().cartesian);
        if x != 1.0 {
            wrong.push((i + 1, x));
        }
    }
    assert_eq!(count, N);
    assert!(
        wrong.is_empty(),
        "{} points returned after apply_pose(false) still have the pose applied, first {:?}, last {:?}",
        wrong.len(),
        wrong.first(),
        wrong.last()
    );
}

#[test]
fn normalize_intensity_switch_after_first_point() {
    let mut reader = E57Reader::new(Cursor::new(build_file())).unwrap();
    let pc = reader.pointclouds().remove(0);
    let mut iter = reader.pointcloud_simple(&pc).unwrap();

    let first = iter.next().unwrap().unwrap();
    assert_eq!(first.intensity, Some(1.0));

    // "If disabled, the original intensity value is returned as f32."
    iter.normalize_intensity(false);
    let wrong = iter
        .map(|p| p.unwrap().intensity)
        .filter(|i| *i != Some(255.0))
        .count();
    assert_eq!(
        wrong, 0,
        "{wrong} points returned after normalize_intensity(false) are still normalized"
    );
}
