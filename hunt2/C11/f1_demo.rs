// Needs the page layer hook:
//   RUSTFLAGS="--cfg e57_verif" cargo test --offline --test f1_demo
//
// C11, read side: "reported physical positions and sizes translate to logical ones by
// skipping 4 checksum bytes per 1020 payload bytes. Reading such a file through the page
// layer returns the logical stream for any sequence of physical seeks, reads of any size
// and alignments."
//
// A physical seek to a position inside the 4 checksum bytes of a page is accepted by
// PagedReader::seek_physical, but it is not translated by skipping the checksum: the bytes
// of the checksum that lie in front of the position are counted as payload. Physical 1021
// becomes logical 1021 (the same as physical 1025), physical 1023 becomes logical 1023 and
// the next physical position 1024 becomes logical 1020 again. The following read silently
// returns payload that starts 1..3 bytes too late.
use e57::verif_hooks::{PagedReader, PagedWriter};
use std::io::{Cursor, Read, Write};

const PAGE: u64 = 1024;
const PAYLOAD: u64 = 1020;

#[test]
fn seek_into_checksum_is_translated_by_skipping_the_checksum_or_rejected() {
    // Produce a three page file with the page layer itself.
    let logical: Vec<u8> = (0..3 * PAYLOAD).map(|i| (i % 251) as u8 + 1).collect();
    let mut file = Cursor::new(Vec::new());
    {
        let mut writer = PagedWriter::new(&mut file).unwrap();
        writer.write_all(&logical).unwrap();
        writer.flush().unwrap();
    }
    let file = file.into_inner();
    assert_eq!(file.len() as u64, 3 * PAGE);

    let mut reader = PagedReader::new(Cursor::new(file), PAGE).unwrap();
    let mut violations = Vec::new();
    for page in 0..2_u64 {
        for inside in 0..4_u64 {
            let physical = page * PAGE + PAYLOAD + inside;
            // Skipping the checksum bytes: everything in front of this position that is
            // payload are the complete pages 0..=page, the next payload byte is the first
            // byte of the following page.
            let expected_logical = (page + 1) * PAYLOAD;
            match reader.seek_physical(physical) {
                // Rejecting the position (like PagedWriter::physical_seek does) is fine.
                Err(_) => {}
                Ok(reported) => {
                    let mut byte = [0_u8; 1];
                    reader.read_exact(&mut byte).unwrap();
                    if reported != expected_logical || byte[0] != logical[expected_logical as usize] {
                        violations.push(format!(
                            "seek_physical({physical}) -> logical {reported} (read byte {}), \
                             expected an error or logical {expected_logical} (byte {})",
                            byte[0], logical[expected_logical as usize]
                        ));
                    }
                }
            }
        }
    }

    // The translation must also be monotonic: moving forward in the file never moves backward
    // in the logical stream.
    let before = reader.seek_physical(PAGE - 1);
    let after = reader.seek_physical(PAGE).unwrap();
    if let Ok(before) = before {
        if before > after {
            violations.push(format!(
                "seek_physical({}) -> logical {before} but seek_physical({PAGE}) -> logical {after}",
                PAGE - 1
            ));
        }
    }

    assert!(violations.is_empty(), "{}", violations.join("\n"));
}
