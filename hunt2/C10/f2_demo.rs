//! C10 / F2: ImageWriter::add_visual_reference / add_pinhole / add_spherical / add_cylindrical
//! still succeed after a successful ImageWriter::finalize(). The blob bytes are written into the
//! file, the call reports Ok(()), but the representation never reaches the XML: the image that is
//! read back lacks data the writer claimed to have stored ("all call orders").

use e57::{
    E57Reader, E57Writer, ImageFormat, PinholeImageProperties, Projection,
    VisualReferenceImageProperties,
};
use std::io::Cursor;

fn pinhole_props() -> PinholeImageProperties {
    PinholeImageProperties {
        width: 2,
        height: 3,
        focal_length: 0.01,
        pixel_width: 0.001,
        pixel_height: 0.001,
        principal_x: 1.0,
        principal_y: 1.5,
    }
}

#[test]
fn calls_after_image_finalize_are_refused_or_stored() {
    let mut device = Cursor::new(Vec::new());
    let pinhole_accepted;
    let second_preview_accepted;
    {
        let mut w = E57Writer::new(&mut device, "file").unwrap();
        let mut img = w.add_image("img").unwrap();

        let mut preview = Cursor::new(vec![1_u8, 2, 3]);
        img.add_visual_reference(
            ImageFormat::Png,
            &mut preview,
            VisualReferenceImageProperties { width: 1, height: 1 },
            None,
        )
        .unwrap();
        img.finalize().unwrap();

        // The image is complete. PointCloudWriter::add_point and E57Writer::add_* refuse such calls.
        let mut pixels = Cursor::new(vec![9_u8; 100]);
        pinhole_accepted = img
            .add_pinhole(ImageFormat::Jpeg, &mut pixels, pinhole_props(), None)
            .is_ok();

        let mut preview2 = Cursor::new(vec![7_u8; 50]);
        second_preview_accepted = img
            .add_visual_reference(
                ImageFormat::Jpeg,
                &mut preview2,
                VisualReferenceImageProperties { width: 5, height: 5 },
                None,
            )
            .is_ok();

        w.finalize().unwrap();
    }

    // All calls up to and including finalize succeeded, so everything must read back
    device.set_position(0);
    let mut reader = E57Reader::new(device).unwrap();
    let images = reader.images();
    assert_eq!(images.len(), 1);
    let image = &images[0];

    if pinhole_accepted {
        match &image.projection {
            Some(Projection::Pinhole(p)) => {
                let mut data = Vec::new();
                reader.blob(&p.blob.data, &mut data).unwrap();
                assert_eq!(data, vec![9_u8; 100]);
            }
            other => panic!(
                "add_pinhole() returned Ok(()) after finalize() but the image read back has projection {other:?}"
            ),
        }
    }
    if second_preview_accepted {
        let vis = image.visual_reference.as_ref().unwrap();
        assert_eq!(
            (vis.properties.width, vis.properties.height),
            (5, 5),
            "add_visual_reference() returned Ok(()) after finalize() but was dropped silently"
        );
    }
}
