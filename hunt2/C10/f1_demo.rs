//! C10 / F1: prototype validation only looks at the FIRST record with a given name.
//! A second record with the same name ("duplicate names" are part of the property's domain)
//! bypasses every per-name type rule, the broken prototype is accepted, and points that are
//! later rejected because of it leave traces (bounds) in the finished file.

use e57::{E57Reader, E57Writer, Record, RecordDataType, RecordName, RecordValue};
use std::io::Cursor;

fn xyz() -> Vec<Record> {
    vec![
        Record::CARTESIAN_X_F64,
        Record::CARTESIAN_Y_F64,
        Record::CARTESIAN_Z_F64,
    ]
}

fn rec(name: RecordName, data_type: RecordDataType) -> Record {
    Record { name, data_type }
}

/// Every one of these prototypes is rejected when the offending record is the only one of its name.
/// Putting a well-formed record with the same name in front of it must not change that.
#[test]
fn duplicate_names_do_not_bypass_the_type_rules() {
    let int = |min, max| RecordDataType::Integer { min, max };
    let spherical = || {
        vec![
            rec(RecordName::SphericalRange, RecordDataType::F64),
            rec(RecordName::SphericalAzimuth, RecordDataType::F64),
            rec(RecordName::SphericalElevation, RecordDataType::F64),
        ]
    };

    let mut cases: Vec<(&str, Vec<Record>, Vec<Record>)> = Vec::new();

    // (description, base prototype, [good record, bad record with the same name])
    cases.push((
        "RowIndex must have an integer type",
        xyz(),
        vec![rec(RecordName::RowIndex, int(0, 10)), rec(RecordName::RowIndex, RecordDataType::F64)],
    ));
    cases.push((
        "ColumnIndex must have an integer type",
        xyz(),
        vec![rec(RecordName::ColumnIndex, int(0, 10)), rec(RecordName::ColumnIndex, RecordDataType::F32)],
    ));
    cases.push((
        "CartesianInvalidState needs to be an integer between 0 and 2",
        xyz(),
        vec![
            rec(RecordName::CartesianInvalidState, int(0, 2)),
            rec(RecordName::CartesianInvalidState, int(0, 1000)),
        ],
    ));
    cases.push((
        "CartesianInvalidState needs to be an integer (float given)",
        xyz(),
        vec![
            rec(RecordName::CartesianInvalidState, int(0, 2)),
            rec(RecordName::CartesianInvalidState, RecordDataType::F32),
        ],
    ));
    cases.push((
        "SphericalAzimuth cannot have an integer type",
        spherical(),
        vec![rec(RecordName::SphericalAzimuth, int(-3, 3))],
    ));
    cases.push((
        "SphericalInvalidState needs to be an integer between 0 and 2",
        spherical(),
        vec![
            rec(RecordName::SphericalInvalidState, int(0, 2)),
            rec(RecordName::SphericalInvalidState, int(-5, 5)),
        ],
    ));

    let mut accepted = Vec::new();
    for (what, base, extra) in cases {
        // Sanity: the bad record alone (without the good one in front) is rejected today.
        {
            let mut alone = base.clone();
            // for the azimuth case the "good" record is already part of the base prototype
            let bad = extra.last().unwrap().clone();
            if bad.name == RecordName::SphericalAzimuth {
                alone.retain(|r| r.name != RecordName::SphericalAzimuth);
            }
            alone.push(bad);
            let mut w = E57Writer::new(Cursor::new(Vec::new()), "file").unwrap();
            assert!(
                w.add_pointcloud("pc", alone).is_err(),
                "sanity: '{what}' is a rule the writer enforces for a single record"
            );
        }

        let mut proto = base;
        proto.extend(extra);
        let mut w = E57Writer::new(Cursor::new(Vec::new()), "file").unwrap();
        if w.add_pointcloud("pc", proto).is_ok() {
            accepted.push(what);
        }
    }
    assert!(
        accepted.is_empty(),
        "prototypes breaking these rules were accepted because the broken record has a duplicate name: {accepted:#?}"
    );
}

/// Consequence: with such a prototype every well-typed point is refused with an *internal* error
/// after its coordinates already went into the bounds, so the finished file claims zero points
/// but carries Cartesian and index bounds of points that were never stored.
#[test]
fn rejected_points_leave_no_traces() {
    let mut device = Cursor::new(Vec::new());
    let stored = {
        let mut w = E57Writer::new(&mut device, "file").unwrap();
        let mut proto = xyz();
        proto.push(rec(RecordName::RowIndex, RecordDataType::Integer { min: 0, max: 10 }));
        proto.push(rec(RecordName::RowIndex, RecordDataType::F64));
        let mut pc = match w.add_pointcloud("pc", proto) {
            Ok(pc) => pc,
            Err(_) => return, // rejecting the prototype is the expected behaviour
        };
        let point = vec![
            RecordValue::Double(100.0),
            RecordValue::Double(200.0),
            RecordValue::Double(300.0),
            RecordValue::Integer(7),
            RecordValue::Double(1.0),
        ];
        let res = pc.add_point(point);
        if let Err(err) = &res {
            // An internal error for a point that matches the accepted prototype exactly
            println!("add_point refused a well-typed point: {err}");
        }
        pc.finalize().unwrap();
        w.finalize().unwrap();
        if res.is_ok() { 1 } else { 0 }
    };

    device.set_position(0);
    let reader = E57Reader::new(device).unwrap();
    let pc = &reader.pointclouds()[0];
    assert_eq!(pc.records, stored);
    if stored == 0 {
        let b = pc.cartesian_bounds.clone().unwrap_or_default();
        assert!(
            b.x_min.is_none() && b.x_max.is_none() && b.y_min.is_none() && b.z_max.is_none(),
            "rejected point left traces in the Cartesian bounds: {b:?}"
        );
        let i = pc.index_bounds.clone().unwrap_or_default();
        assert!(
            i.row_min.is_none() && i.row_max.is_none(),
            "rejected point left traces in the index bounds: {i:?}"
        );
    }
}
