//! C10 / F3: the writer stores strings it cannot represent. GUIDs and other string arguments that
//! contain characters XML 1.0 cannot hold (U+0000, other C0 controls) are accepted by every call
//! including finalize(), but the resulting file cannot be opened at all any more.
//! (register_extension already rejects such characters in URLs since fix fbc3716.)

use e57::{E57Reader, E57Writer, Record};
use std::io::Cursor;

fn xyz() -> Vec<Record> {
    vec![
        Record::CARTESIAN_X_F64,
        Record::CARTESIAN_Y_F64,
        Record::CARTESIAN_Z_F64,
    ]
}

/// Returns Ok(Some(bytes)) when every writer call succeeded, Ok(None) when some call refused the string.
fn write_with_pc_guid(guid: &str) -> Option<Vec<u8>> {
    let mut device = Cursor::new(Vec::new());
    {
        let mut w = E57Writer::new(&mut device, "file-guid").ok()?;
        let mut pc = w.add_pointcloud(guid, xyz()).ok()?;
        pc.finalize().ok()?;
        w.finalize().ok()?;
    }
    Some(device.into_inner())
}

fn write_with_file_guid(guid: &str) -> Option<Vec<u8>> {
    let mut device = Cursor::new(Vec::new());
    {
        let mut w = E57Writer::new(&mut device, guid).ok()?;
        w.finalize().ok()?;
    }
    Some(device.into_inner())
}

fn write_with_pc_name(name: &str) -> Option<Vec<u8>> {
    let mut device = Cursor::new(Vec::new());
    {
        let mut w = E57Writer::new(&mut device, "file-guid").ok()?;
        let mut pc = w.add_pointcloud("pc", xyz()).ok()?;
        pc.set_name(Some(name.to_owned()));
        pc.finalize().ok()?;
        w.finalize().ok()?;
    }
    Some(device.into_inner())
}

#[test]
fn strings_are_stored_faithfully_or_refused() {
    // A C string with its terminator, a typical serial number read from a device, other controls
    let samples = ["scan\u{0}", "a\u{1}b", "\u{8}", "x\u{B}y", "\u{C}", "\u{1F}"];
    let mut broken = Vec::new();
    for s in samples {
        // GUID argument of add_pointcloud (the call that also takes the prototype)
        if let Some(bytes) = write_with_pc_guid(s) {
            match E57Reader::new(Cursor::new(bytes)) {
                Ok(r) => assert_eq!(r.pointclouds()[0].guid.as_deref(), Some(s)),
                Err(e) => broken.push(format!("add_pointcloud guid {s:?}: {e}")),
            }
        }
        // GUID argument of E57Writer::new
        if let Some(bytes) = write_with_file_guid(s) {
            match E57Reader::new(Cursor::new(bytes)) {
                Ok(r) => assert_eq!(r.guid(), s),
                Err(e) => broken.push(format!("E57Writer::new guid {s:?}: {e}")),
            }
        }
        // Point cloud name
        if let Some(bytes) = write_with_pc_name(s) {
            match E57Reader::new(Cursor::new(bytes)) {
                Ok(r) => assert_eq!(r.pointclouds()[0].name.as_deref(), Some(s)),
                Err(e) => broken.push(format!("set_name {s:?}: {e}")),
            }
        }
    }
    assert!(
        broken.is_empty(),
        "all writer calls including finalize() succeeded but the file cannot be opened:\n{broken:#?}"
    );
}
