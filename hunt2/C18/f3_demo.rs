// C18 / F3: the writer accepts any number of extensions, but the reader (since commit 237bfe1)
// refuses every XML element with more than 256 attributes. Each registered extension is one
// `xmlns:` attribute of `e57Root`, so with 255 registered extensions the file that the writer
// produced without any error cannot be opened any more and the extension records do not round-trip.
use e57::{E57Reader, E57Writer, Extension, Record, RecordDataType, RecordName, RecordValue};
use std::io::Cursor;

#[test]
fn extension_records_round_trip_with_255_registered_extensions() {
    let count = 255;
    let mut cursor = Cursor::new(Vec::new());
    let record_name = RecordName::Unknown {
        namespace: format!("ext{}", count - 1),
        name: String::from("classification"),
    };
    {
        let mut writer = E57Writer::new(&mut cursor, "file_guid").unwrap();
        for i in 0..count {
            // every single call is accepted
            writer
                .register_extension(Extension::new(
                    &format!("ext{i}"),
                    &format!("http://example.com/ext/{i}"),
                ))
                .unwrap();
        }
        let prototype = vec![
            Record::CARTESIAN_X_F32,
            Record::CARTESIAN_Y_F32,
            Record::CARTESIAN_Z_F32,
            Record {
                name: record_name.clone(),
                data_type: RecordDataType::Integer { min: 0, max: 10 },
            },
        ];
        let mut pc = writer.add_pointcloud("pc_guid", prototype).unwrap();
        pc.add_point(vec![
            RecordValue::Single(1.0),
            RecordValue::Single(2.0),
            RecordValue::Single(3.0),
            RecordValue::Integer(9),
        ])
        .unwrap();
        pc.finalize().unwrap();
        writer.finalize().unwrap();
    }

    let mut reader = match E57Reader::new(Cursor::new(cursor.into_inner())) {
        Ok(reader) => reader,
        Err(err) => panic!("file written without any error cannot be read: {err}"),
    };
    let pc = reader.pointclouds().remove(0);
    assert_eq!(pc.prototype[3].name, record_name);
    let points: Vec<_> = reader
        .pointcloud_raw(&pc)
        .unwrap()
        .collect::<e57::Result<Vec<_>>>()
        .unwrap();
    assert_eq!(points[0][0], RecordValue::Single(1.0));
    assert_eq!(points[0][3], RecordValue::Integer(9));
}
