// C18 / F1: the subtree of a foreign (extension) element is searched for standard elements.
// The reader looks for `data3D`, `images2D` and the color/intensity limit values with
// `descendants()`, so a standard-looking element that is only the CHILD OF AN EXTENSION ELEMENT
// replaces the real one. Extension structures with unprefixed children are normal E57 practice,
// see testdata/las2e57_no_images_tag.e57 (`<las:variableLengthRecords><vectorChild ...>`).
use e57::{
    E57Reader, E57Writer, Extension, ImageFormat, Record, RecordValue,
    VisualReferenceImageProperties,
};
use std::io::Cursor;

const ROOT_START: &str = "xmlns=\"http://www.astm.org/COMMIT/E57/2010-e57-v1.0\">\n";

/// Writes a small file (one colored point cloud, one image); `edit` may add extension content to the XML.
fn write_file(edit: &dyn Fn(String) -> String) -> Vec<u8> {
    let mut cursor = Cursor::new(Vec::new());
    {
        let mut writer = E57Writer::new(&mut cursor, "file_guid").unwrap();
        writer
            .register_extension(Extension::new("ext", "http://example.com/ext"))
            .unwrap();
        let prototype = vec![
            Record::CARTESIAN_X_F32,
            Record::CARTESIAN_Y_F32,
            Record::CARTESIAN_Z_F32,
            Record::COLOR_RED_U8,
            Record::COLOR_GREEN_U8,
            Record::COLOR_BLUE_U8,
        ];
        let mut pc = writer.add_pointcloud("pc_guid", prototype).unwrap();
        pc.add_point(vec![
            RecordValue::Single(1.0),
            RecordValue::Single(2.0),
            RecordValue::Single(3.0),
            RecordValue::Integer(100),
            RecordValue::Integer(150),
            RecordValue::Integer(200),
        ])
        .unwrap();
        pc.finalize().unwrap();
        let mut img = writer.add_image("img_guid").unwrap();
        img.add_visual_reference(
            ImageFormat::Png,
            &mut Cursor::new(vec![1_u8, 2, 3, 4]),
            VisualReferenceImageProperties {
                width: 2,
                height: 2,
            },
            None,
        )
        .unwrap();
        img.finalize().unwrap();
        writer
            .finalize_customized_xml(|xml| {
                Ok(edit(xml))
            })
            .unwrap();
    }
    cursor.into_inner()
}

/// Everything the reader reports about the standard content.
fn report(file: Vec<u8>) -> String {
    let mut reader = E57Reader::new(Cursor::new(file)).unwrap();
    let pointclouds = reader.pointclouds();
    let mut text = format!("{:#?}\n{:#?}\n", pointclouds, reader.images());
    for pc in &pointclouds {
        let points: Vec<_> = reader.pointcloud_simple(pc).unwrap().collect();
        text += &format!("{points:?}\n");
    }
    text
}

fn insert_after(xml: String, anchor: &str, snippet: &str) -> String {
    assert!(xml.contains(anchor));
    xml.replacen(anchor, &format!("{anchor}{snippet}"), 1)
}

#[test]
fn extension_structure_with_a_data3d_child_does_not_hide_the_point_clouds() {
    let original = report(write_file(&|xml| xml));
    // An extension element (foreign namespace) as first child of the root. Its children are written
    // without prefix, exactly like the children of `las:variableLengthRecords` in the LAS extension.
    let snippet = "<ext:archivedScans type=\"Structure\">\
        <data3D type=\"Vector\" allowHeterogeneousChildren=\"1\"></data3D>\
        <images2D type=\"Vector\" allowHeterogeneousChildren=\"1\"></images2D>\
        </ext:archivedScans>\n";
    let extended = report(write_file(&|xml| insert_after(xml, ROOT_START, snippet)));
    assert_eq!(
        original, extended,
        "unknown extension content changed the reported point clouds / images"
    );
}

#[test]
fn extension_structure_inside_color_limits_does_not_change_limits_and_colors() {
    let original = report(write_file(&|xml| xml));
    let snippet = "<ext:sensorRange type=\"Structure\">\
        <colorRedMinimum type=\"Integer\">90</colorRedMinimum>\
        <colorRedMaximum type=\"Integer\">110</colorRedMaximum>\
        </ext:sensorRange>\n";
    let extended = report(write_file(&|xml| {
        insert_after(xml, "<colorLimits type=\"Structure\">\n", snippet)
    }));
    assert_eq!(
        original, extended,
        "unknown extension content changed the reported color limits / normalized colors"
    );
}
