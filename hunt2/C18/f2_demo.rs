// C18 / F2: harmless foreign content makes the whole file unreadable.
// Since commit 237bfe1 `check_xml_shape` refuses every XML section with more than 64 nested
// elements or an element with more than 256 attributes, also if all of that is extension content
// that the reader has to ignore. The property quantifies over "any nesting" and "foreign attributes".
use e57::{E57Reader, E57Writer, Extension, Record, RecordValue};
use std::io::Cursor;

const ROOT_START: &str = "xmlns=\"http://www.astm.org/COMMIT/E57/2010-e57-v1.0\">\n";

fn write_file(snippet: &str) -> Vec<u8> {
    let mut cursor = Cursor::new(Vec::new());
    {
        let mut writer = E57Writer::new(&mut cursor, "file_guid").unwrap();
        writer
            .register_extension(Extension::new("ext", "http://example.com/ext"))
            .unwrap();
        let prototype = vec![
            Record::CARTESIAN_X_F32,
            Record::CARTESIAN_Y_F32,
            Record::CARTESIAN_Z_F32,
        ];
        let mut pc = writer.add_pointcloud("pc_guid", prototype).unwrap();
        pc.add_point(vec![
            RecordValue::Single(1.0),
            RecordValue::Single(2.0),
            RecordValue::Single(3.0),
        ])
        .unwrap();
        pc.finalize().unwrap();
        writer
            .finalize_customized_xml(|xml| {
                assert!(xml.contains(ROOT_START));
                Ok(xml.replacen(ROOT_START, &format!("{ROOT_START}{snippet}"), 1))
            })
            .unwrap();
    }
    cursor.into_inner()
}

fn report(file: Vec<u8>) -> String {
    match E57Reader::new(Cursor::new(file)) {
        Ok(mut reader) => {
            let pointclouds = reader.pointclouds();
            let points: Vec<_> = reader.pointcloud_raw(&pointclouds[0]).unwrap().collect();
            format!("{:?} {:?} {:?}", reader.guid(), pointclouds, points)
        }
        Err(err) => format!("cannot open file: {err}"),
    }
}

#[test]
fn nested_extension_elements_do_not_change_the_standard_content() {
    let original = report(write_file(""));
    // 64 nested extension elements below the root, less than 1 KiB of XML
    let nested = format!("{}{}\n", "<ext:group>".repeat(64), "</ext:group>".repeat(64));
    let extended = report(write_file(&nested));
    assert_eq!(original, extended);
}

#[test]
fn extension_element_with_many_extension_attributes_does_not_change_the_standard_content() {
    let original = report(write_file(""));
    let attributes: Vec<String> = (0..257).map(|i| format!("ext:a{i}=\"{i}\"")).collect();
    let element = format!("<ext:lookupTable {}/>\n", attributes.join(" "));
    let extended = report(write_file(&element));
    assert_eq!(original, extended);
}
