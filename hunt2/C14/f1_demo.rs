// C14 f1: default intensity / colour limits of ScaledInteger attributes are stored as bare raw
// numbers (`<intensityMinimum type="ScaledInteger">0</intensityMinimum>`), without the scale and
// offset of the attribute type. In an E57 file a ScaledInteger element without these attributes has
// scale 1 and offset 0, so the limits stored in the file denote 0..1000 although the declared range
// of the attribute type is 0..1.
use e57::{E57Reader, E57Writer, Record, RecordDataType, RecordName, RecordValue};
use std::io::Cursor;

/// Value of a numeric E57 element as defined by the standard:
/// Integer and Float elements are their text, ScaledInteger elements are
/// rawValue * scale + offset with the defaults scale = 1 and offset = 0.
fn element_value(xml: &str, tag: &str) -> f64 {
    let start = xml
        .find(&format!("<{tag} "))
        .unwrap_or_else(|| panic!("element {tag} is missing"));
    let rest = &xml[start..];
    let head_end = rest.find('>').unwrap();
    let head = &rest[..head_end];
    let text_end = rest.find(&format!("</{tag}>")).unwrap();
    let raw: f64 = rest[head_end + 1..text_end].trim().parse().unwrap();
    let attr = |name: &str| -> Option<f64> {
        let key = format!(" {name}=\"");
        let pos = head.find(&key)? + key.len();
        let len = head[pos..].find('"')?;
        head[pos..pos + len].parse().ok()
    };
    if head.contains("type=\"ScaledInteger\"") {
        raw * attr("scale").unwrap_or(1.0) + attr("offset").unwrap_or(0.0)
    } else {
        raw
    }
}

#[test]
fn default_limits_of_scaled_integer_attributes_equal_the_declared_range() {
    // Intensity 0..1 in steps of 1/1000, colours 0..1 in steps of 1/256 (raw 0..256)
    let intensity = RecordDataType::ScaledInteger { min: 0, max: 1000, scale: 0.001, offset: 0.0 };
    let color = RecordDataType::ScaledInteger { min: 0, max: 256, scale: 1.0 / 256.0, offset: 0.0 };
    let prototype = vec![
        Record::CARTESIAN_X_F64,
        Record::CARTESIAN_Y_F64,
        Record::CARTESIAN_Z_F64,
        Record { name: RecordName::Intensity, data_type: intensity },
        Record { name: RecordName::ColorRed, data_type: color.clone() },
        Record { name: RecordName::ColorGreen, data_type: color.clone() },
        Record { name: RecordName::ColorBlue, data_type: color },
    ];

    let mut file = Cursor::new(Vec::new());
    {
        let mut writer = E57Writer::new(&mut file, "file").unwrap();
        let mut pc = writer.add_pointcloud("pc", prototype).unwrap();
        pc.add_point(vec![
            RecordValue::Double(1.0),
            RecordValue::Double(2.0),
            RecordValue::Double(3.0),
            RecordValue::ScaledInteger(500), // intensity 0.5
            RecordValue::ScaledInteger(256), // red 1.0
            RecordValue::ScaledInteger(128), // green 0.5
            RecordValue::ScaledInteger(0),   // blue 0.0
        ])
        .unwrap();
        // No call of set_intensity_limits / set_color_limits: the defaults apply
        pc.finalize().unwrap();
        writer.finalize().unwrap();
    }

    file.set_position(0);
    let reader = E57Reader::new(file).unwrap();
    let xml = reader.xml().to_owned();

    // Declared range of the attribute types as real values (after scale and offset)
    let declared = [
        ("intensityMinimum", 0.0),
        ("intensityMaximum", 1000.0 * 0.001 + 0.0),
        ("colorRedMinimum", 0.0),
        ("colorRedMaximum", 1.0),
        ("colorGreenMinimum", 0.0),
        ("colorGreenMaximum", 1.0),
        ("colorBlueMinimum", 0.0),
        ("colorBlueMaximum", 1.0),
    ];
    for (tag, expected) in declared {
        let stored = element_value(&xml, tag);
        assert_eq!(
            stored, expected,
            "{tag}: the file stores the limit {stored}, the declared range of the attribute type ends at {expected}"
        );
    }
}
