// C13 / F1: a normalisation switch that is changed while iterating does not take effect
// for the points the iterator has already pre-converted (up to a whole data packet).
// With normalisation ENABLED the iterator then delivers raw values far outside [0,1],
// with normalisation DISABLED it delivers normalised instead of stored values.
use e57::{E57Reader, E57Writer, Record, RecordValue};
use std::io::Cursor;

const N: usize = 10;

fn file() -> Vec<u8> {
    let proto = vec![
        Record::CARTESIAN_X_F32,
        Record::CARTESIAN_Y_F32,
        Record::CARTESIAN_Z_F32,
        Record::COLOR_RED_U8,
        Record::COLOR_GREEN_U8,
        Record::COLOR_BLUE_U8,
        Record::INTENSITY_U16,
    ];
    let mut cur = Cursor::new(Vec::new());
    {
        let mut w = E57Writer::new(&mut cur, "file-guid").unwrap();
        let mut pw = w.add_pointcloud("pc-guid", proto).unwrap();
        for _ in 0..N {
            pw.add_point(vec![
                RecordValue::Single(1.0),
                RecordValue::Single(2.0),
                RecordValue::Single(3.0),
                RecordValue::Integer(255),
                RecordValue::Integer(255),
                RecordValue::Integer(255),
                RecordValue::Integer(65535),
            ])
            .unwrap();
        }
        pw.finalize().unwrap();
        w.finalize().unwrap();
    }
    cur.into_inner()
}

/// Switch is off for the first point, then turned on: every later component must be in [0,1].
#[test]
fn enabled_switch_must_yield_unit_interval() {
    let mut reader = E57Reader::new(Cursor::new(file())).unwrap();
    let pc = reader.pointclouds()[0].clone();
    let mut iter = reader.pointcloud_simple(&pc).unwrap();

    iter.normalize_intensity(false);
    iter.normalize_color(false);
    let first = iter.next().unwrap().unwrap();
    assert_eq!(first.intensity, Some(65535.0)); // stored value, unchanged
    assert_eq!(first.color.unwrap().red, 255.0);

    // From here on normalisation is enabled
    iter.normalize_intensity(true);
    iter.normalize_color(true);
    let mut count = 1;
    for p in iter {
        let p = p.unwrap();
        count += 1;
        let i = p.intensity.unwrap();
        assert!(
            (0.0..=1.0).contains(&i),
            "point {count}: normalisation is enabled but intensity {i} is not in [0,1]"
        );
        assert_eq!(i, 1.0, "stored maximum must be delivered as 1");
        let c = p.color.unwrap();
        for comp in [c.red, c.green, c.blue] {
            assert!(
                (0.0..=1.0).contains(&comp),
                "point {count}: normalisation is enabled but colour {comp} is not in [0,1]"
            );
        }
    }
    assert_eq!(count, N);
}

/// Switch is on (default) for the first point, then turned off: stored values must be delivered.
#[test]
fn disabled_switch_must_yield_stored_value() {
    let mut reader = E57Reader::new(Cursor::new(file())).unwrap();
    let pc = reader.pointclouds()[0].clone();
    let mut iter = reader.pointcloud_simple(&pc).unwrap();

    let first = iter.next().unwrap().unwrap();
    assert_eq!(first.intensity, Some(1.0));

    iter.normalize_intensity(false);
    iter.normalize_color(false);
    for p in iter {
        let p = p.unwrap();
        assert_eq!(
            p.intensity,
            Some(65535.0),
            "normalisation is disabled, the stored value must be delivered unchanged"
        );
        assert_eq!(p.color.unwrap().green, 255.0);
    }
}
