// C13 / F2: limits that are both given as scaled integers are still ignored when the
// attribute itself is not a scaled integer (left over from the repair of the earlier F2).
use e57::{
    ColorLimits, E57Reader, E57Writer, IntensityLimits, Record, RecordDataType, RecordName,
    RecordValue,
};
use std::io::Cursor;

#[test]
fn scaled_integer_limits_on_integer_records() {
    let proto = vec![
        Record::CARTESIAN_X_F32,
        Record::CARTESIAN_Y_F32,
        Record::CARTESIAN_Z_F32,
        Record::COLOR_RED_U8,
        Record::COLOR_GREEN_U8,
        Record::COLOR_BLUE_U8,
        Record::INTENSITY_U16, // Integer 0..65535
    ];
    let stored: [i64; 4] = [0, 50, 100, 200];
    let mut cur = Cursor::new(Vec::new());
    {
        let mut w = E57Writer::new(&mut cur, "file-guid").unwrap();
        let mut pw = w.add_pointcloud("pc-guid", proto).unwrap();
        // Sensor range 0..200, written as <intensityMinimum type="ScaledInteger">0</...> and
        // <intensityMaximum type="ScaledInteger">200</...>. A ScaledInteger element without
        // scale/offset attributes has scale 1 and offset 0, so the limits are the numbers 0 and 200.
        pw.set_intensity_limits(Some(IntensityLimits {
            intensity_min: Some(RecordValue::ScaledInteger(0)),
            intensity_max: Some(RecordValue::ScaledInteger(200)),
        }));
        let lim = |v| Some(RecordValue::ScaledInteger(v));
        pw.set_color_limits(Some(ColorLimits {
            red_min: lim(0),
            red_max: lim(200),
            green_min: lim(0),
            green_max: lim(200),
            blue_min: lim(0),
            blue_max: lim(200),
        }));
        for v in stored {
            pw.add_point(vec![
                RecordValue::Single(0.0),
                RecordValue::Single(0.0),
                RecordValue::Single(0.0),
                RecordValue::Integer(v),
                RecordValue::Integer(v),
                RecordValue::Integer(v),
                RecordValue::Integer(v),
            ])
            .unwrap();
        }
        pw.finalize().unwrap();
        w.finalize().unwrap();
    }

    let mut reader = E57Reader::new(Cursor::new(cur.into_inner())).unwrap();
    let pc = reader.pointclouds()[0].clone();

    // Both limits are given in the point cloud that was read back
    let il = pc.intensity_limits.clone().unwrap();
    assert_eq!(il.intensity_min, Some(RecordValue::ScaledInteger(0)));
    assert_eq!(il.intensity_max, Some(RecordValue::ScaledInteger(200)));
    assert!(pc.color_limits.is_some());
    let intensity = pc.prototype.iter().find(|r| r.name == RecordName::Intensity).unwrap();
    assert!(matches!(intensity.data_type, RecordDataType::Integer { min: 0, max: 65535 }));

    let points: Vec<_> = reader
        .pointcloud_simple(&pc)
        .unwrap()
        .map(|p| p.unwrap())
        .collect();
    for (v, p) in stored.iter().zip(points.iter()) {
        let expected = (*v as f64 / 200.0) as f32; // (value - min) / (max - min)
        let got = p.intensity.unwrap();
        assert!(
            (got - expected).abs() < 1e-6,
            "intensity {v} with limits 0..200 must be delivered as {expected}, got {got} \
             (the limits were ignored, the data type range 0..65535 was used)"
        );
        let c = p.color.clone().unwrap();
        assert!(
            (c.red - expected).abs() < 1e-6,
            "red {v} with limits 0..200 must be delivered as {expected}, got {}",
            c.red
        );
    }
}
