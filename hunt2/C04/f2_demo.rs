// C04 f2: metadata strings that make the XML section larger than 10 MiB are written
// without any error, but the resulting file cannot be opened by the reader any more.
// Drop into tests/ and run: cargo test --offline --test f2_demo
use e57::{E57Reader, E57Writer, Record};
use std::io::Cursor;

fn roundtrip(description_len: usize) {
    // Plain ASCII letters and spaces, all of them characters XML can carry
    let description: String = "lorem ipsum ".chars().cycle().take(description_len).collect();

    let mut cursor = Cursor::new(Vec::new());
    {
        let mut writer = E57Writer::new(&mut cursor, "file-guid").unwrap();
        writer.set_coordinate_metadata(Some(String::from("some WKT")));
        let prototype = vec![
            Record::CARTESIAN_X_F32,
            Record::CARTESIAN_Y_F32,
            Record::CARTESIAN_Z_F32,
        ];
        let mut pc_writer = writer.add_pointcloud("pc-guid", prototype).unwrap();
        pc_writer.set_description(Some(description.clone()));
        pc_writer.finalize().unwrap();
        // The writer accepts everything and reports success
        writer.finalize().unwrap();
    }

    let reader = match E57Reader::new(Cursor::new(cursor.into_inner())) {
        Ok(reader) => reader,
        Err(err) => panic!(
            "file with a description of {description_len} bytes was written without any error \
             but cannot be read back: {err}"
        ),
    };
    assert_eq!(reader.guid(), "file-guid");
    assert_eq!(reader.coordinate_metadata(), Some("some WKT"));
    let pc = &reader.pointclouds()[0];
    assert_eq!(pc.guid.as_deref(), Some("pc-guid"));
    assert_eq!(pc.description.as_deref(), Some(description.as_str()));
}

#[test]
fn description_9_mib_roundtrip() {
    // Control: this passes
    roundtrip(9 * 1024 * 1024);
}

#[test]
fn description_10_mib_roundtrip() {
    // Fails: "Not implemented: XML sections larger than 10485760 bytes are not supported"
    roundtrip(10 * 1024 * 1024);
}
