// C04 f1: a file with 255 (or more) registered extensions cannot be read back at all.
// Drop into tests/ and run: cargo test --offline --test f1_demo
use e57::{E57Reader, E57Writer, Extension, Record, RecordDataType, RecordName};
use std::io::Cursor;

fn write_file(extension_count: usize) -> Vec<u8> {
    let mut cursor = Cursor::new(Vec::new());
    {
        let mut writer = E57Writer::new(&mut cursor, "file-guid").unwrap();
        writer.set_coordinate_metadata(Some(String::from("some WKT")));
        for i in 0..extension_count {
            // Every call is accepted: valid name, unique name, unique non-reserved URL
            let ext = Extension::new(&format!("ext{i}"), &format!("http://example.com/ext/{i}"));
            writer.register_extension(ext).unwrap();
        }
        let prototype = vec![
            Record::CARTESIAN_X_F32,
            Record::CARTESIAN_Y_F32,
            Record::CARTESIAN_Z_F32,
            Record {
                name: RecordName::Unknown {
                    namespace: format!("ext{}", extension_count - 1),
                    name: String::from("classification"),
                },
                data_type: RecordDataType::U8,
            },
        ];
        let mut pc_writer = writer.add_pointcloud("pc-guid", prototype).unwrap();
        pc_writer.set_name(Some(String::from("scan")));
        pc_writer.finalize().unwrap();
        writer.finalize().unwrap();
    }
    cursor.into_inner()
}

fn check_roundtrip(extension_count: usize) {
    let bytes = write_file(extension_count);
    let reader = match E57Reader::new(Cursor::new(bytes)) {
        Ok(reader) => reader,
        Err(err) => panic!(
            "file with {extension_count} registered extensions was written without any error \
             but cannot be read back: {err}"
        ),
    };
    assert_eq!(reader.guid(), "file-guid");
    assert_eq!(reader.coordinate_metadata(), Some("some WKT"));
    let extensions = reader.extensions();
    assert_eq!(extensions.len(), extension_count);
    for (i, ext) in extensions.iter().enumerate() {
        assert_eq!(ext.namespace, format!("ext{i}"));
        assert_eq!(ext.url, format!("http://example.com/ext/{i}"));
    }
    let pc = &reader.pointclouds()[0];
    assert_eq!(pc.name.as_deref(), Some("scan"));
    assert_eq!(
        pc.prototype[3].name,
        RecordName::Unknown {
            namespace: format!("ext{}", extension_count - 1),
            name: String::from("classification"),
        }
    );
}

#[test]
fn extensions_254_roundtrip() {
    // Control: this passes
    check_roundtrip(254);
}

#[test]
fn extensions_255_roundtrip() {
    // Fails: "Invalid E57 content: XML elements with more than 256 attributes are not supported"
    check_roundtrip(255);
}
