// C02 / F2: after a blob (or image) source failed part way, finalize() starts the XML section
// on an offset that is not 4-byte aligned.
use e57::{E57Writer, ImageFormat, VisualReferenceImageProperties};
use std::io::{Cursor, Read};

/// Caller-supplied source that delivers some bytes and then reports an error.
struct FailAfter(usize);

impl Read for FailAfter {
    fn read(&mut self, buf: &mut [u8]) -> std::io::Result<usize> {
        if self.0 == 0 {
            return Err(std::io::Error::other("source broke"));
        }
        let n = self.0.min(buf.len());
        buf[..n].fill(0xAB);
        self.0 -= n;
        Ok(n)
    }
}

fn xml_offset(file: &[u8]) -> u64 {
    assert_eq!(&file[0..8], b"ASTM-E57");
    u64::from_le_bytes(file[24..32].try_into().unwrap())
}

#[test]
fn xml_is_aligned_after_failed_blob() {
    for delivered in 1..=8 {
        let mut cursor = Cursor::new(Vec::new());
        {
            let mut writer = E57Writer::new(&mut cursor, "file-guid").unwrap();
            assert!(writer.add_blob(&mut FailAfter(delivered)).is_err());
            // The writer itself is fine (the error came from the source) and finalizing succeeds
            writer.finalize().unwrap();
        }
        let file = cursor.into_inner();
        let offset = xml_offset(&file);
        assert_eq!(
            offset % 4,
            0,
            "XML section starts at unaligned physical offset {offset} after a source failed behind {delivered} bytes"
        );
    }
}

#[test]
fn xml_is_aligned_after_failed_image_source() {
    let mut cursor = Cursor::new(Vec::new());
    {
        let mut writer = E57Writer::new(&mut cursor, "file-guid").unwrap();
        let mut image = writer.add_image("image-guid").unwrap();
        let props = VisualReferenceImageProperties { width: 1, height: 1 };
        let mut good = Cursor::new(vec![1_u8, 2, 3, 4, 5]);
        image
            .add_visual_reference(ImageFormat::Png, &mut good, props.clone(), None)
            .unwrap();
        // Replacing the preview fails because the new source breaks
        assert!(image
            .add_visual_reference(ImageFormat::Png, &mut FailAfter(3), props, None)
            .is_err());
        image.finalize().unwrap();
        drop(image);
        writer.finalize().unwrap();
    }
    let file = cursor.into_inner();
    let offset = xml_offset(&file);
    assert_eq!(offset % 4, 0, "XML section starts at unaligned physical offset {offset}");
}
