// C02 / F1: a prototype with two records of the same name is accepted and ends up as an
// E57 Structure with two children of the same element name.
use e57::{E57Writer, Extension, Record, RecordDataType, RecordName, RecordValue};
use std::collections::HashSet;
use std::io::Cursor;

/// Independent page layer: checks size and every CRC-32C, returns the logical bytes.
fn logical_bytes(file: &[u8]) -> Vec<u8> {
    fn crc32c(data: &[u8]) -> u32 {
        let mut crc: u32 = !0;
        for b in data {
            crc ^= *b as u32;
            for _ in 0..8 {
                crc = if crc & 1 != 0 { (crc >> 1) ^ 0x82F6_3B78 } else { crc >> 1 };
            }
        }
        !crc
    }
    assert_eq!(file.len() % 1024, 0, "file is not a whole number of pages");
    let mut out = Vec::new();
    for page in file.chunks(1024) {
        assert_eq!(crc32c(&page[..1020]).to_be_bytes(), page[1020..], "bad page checksum");
        out.extend_from_slice(&page[..1020]);
    }
    out
}

fn xml_of(file: &[u8]) -> String {
    let logical = logical_bytes(file);
    let xml_phys = u64::from_le_bytes(file[24..32].try_into().unwrap());
    let xml_len = u64::from_le_bytes(file[32..40].try_into().unwrap()) as usize;
    assert!(xml_phys % 1024 < 1020);
    let start = (xml_phys / 1024 * 1020 + xml_phys % 1024) as usize;
    String::from_utf8(logical[start..start + xml_len].to_vec()).unwrap()
}

/// Qualified names of the direct children of the first <prototype> element.
/// (The writer emits one child per line and prototype children have no children themselves.)
fn prototype_child_names(xml: &str) -> Vec<String> {
    let start = xml.find("<prototype").expect("prototype start");
    let body_start = start + xml[start..].find('>').unwrap() + 1;
    let body_end = body_start + xml[body_start..].find("</prototype>").expect("prototype end");
    let mut names = Vec::new();
    let mut rest = &xml[body_start..body_end];
    while let Some(p) = rest.find('<') {
        rest = &rest[p + 1..];
        if rest.starts_with('/') {
            continue;
        }
        let end = rest.find(|c: char| c == ' ' || c == '>' || c == '/').unwrap();
        names.push(rest[..end].to_owned());
    }
    names
}

fn check(prototype: Vec<Record>, point: Vec<RecordValue>) {
    let mut cursor = Cursor::new(Vec::new());
    {
        let mut writer = E57Writer::new(&mut cursor, "file-guid").unwrap();
        writer
            .register_extension(Extension::new("ext", "http://example.com/ext"))
            .unwrap();
        // Rejecting the prototype (or any later call) would be fine: the property only
        // speaks about files that were finalized successfully.
        let mut pc = match writer.add_pointcloud("pc-guid", prototype) {
            Ok(pc) => pc,
            Err(_) => return,
        };
        if pc.add_point(point).is_err() || pc.finalize().is_err() {
            return;
        }
        drop(pc);
        if writer.finalize().is_err() {
            return;
        }
    }
    let file = cursor.into_inner();
    let xml = xml_of(&file);
    let names = prototype_child_names(&xml);
    let unique: HashSet<&String> = names.iter().collect();
    assert_eq!(
        unique.len(),
        names.len(),
        "the finalized file has a prototype Structure with duplicate child element names: {names:?}"
    );
}

#[test]
fn duplicate_standard_record_with_different_types() {
    // cartesianX once as single and once as double precision float
    check(
        vec![
            Record::CARTESIAN_X_F32,
            Record::CARTESIAN_Y_F32,
            Record::CARTESIAN_Z_F32,
            Record::CARTESIAN_X_F64,
        ],
        vec![
            RecordValue::Single(1.0),
            RecordValue::Single(2.0),
            RecordValue::Single(3.0),
            RecordValue::Double(99.0),
        ],
    );
}

#[test]
fn duplicate_extension_record() {
    let ext = Record {
        name: RecordName::Unknown {
            namespace: "ext".to_owned(),
            name: "classification".to_owned(),
        },
        data_type: RecordDataType::Integer { min: 0, max: 9 },
    };
    check(
        vec![
            Record::CARTESIAN_X_F32,
            Record::CARTESIAN_Y_F32,
            Record::CARTESIAN_Z_F32,
            ext.clone(),
            ext,
        ],
        vec![
            RecordValue::Single(1.0),
            RecordValue::Single(2.0),
            RecordValue::Single(3.0),
            RecordValue::Integer(1),
            RecordValue::Integer(2),
        ],
    );
}
