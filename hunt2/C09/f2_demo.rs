//! C09 demo: `E57Reader::new` is still far from linear for XML that passes the shape pre-scan
//! (at most 64 levels, at most 256 attributes per element).
//!
//! The XML parser copies all namespace declarations that are in scope into every element that
//! declares a namespace of its own, and checks each copied entry against all entries copied so far.
//! The pre-scan bounds the depth and the attributes of ONE element, but not the number of
//! declarations in scope (up to depth * attributes = 16384, the test uses 4000), so every small element like
//! `<x:l xmlns:q="v"/>` (19 bytes) costs K*K/2 steps and K table entries, K = declarations in scope.
//!
//! The first test compares two files of the same size whose only difference is the name of one attribute
//! of the small elements (`xmlns:q="v1"` versus `x:q="v1"` plus padding), the second test measures
//! what 60 more of these small elements cost.

use std::alloc::{GlobalAlloc, Layout, System};
use std::io::Cursor;
use std::sync::atomic::{AtomicUsize, Ordering};
use std::time::{Duration, Instant};

struct CountingAllocator;
static CURRENT: AtomicUsize = AtomicUsize::new(0);
static PEAK: AtomicUsize = AtomicUsize::new(0);

unsafe impl GlobalAlloc for CountingAllocator {
    unsafe fn alloc(&self, layout: Layout) -> *mut u8 {
        let ptr = System.alloc(layout);
        if !ptr.is_null() {
            let now = CURRENT.fetch_add(layout.size(), Ordering::Relaxed) + layout.size();
            PEAK.fetch_max(now, Ordering::Relaxed);
        }
        ptr
    }
    unsafe fn dealloc(&self, ptr: *mut u8, layout: Layout) {
        CURRENT.fetch_sub(layout.size(), Ordering::Relaxed);
        System.dealloc(ptr, layout)
    }
}

#[global_allocator]
static ALLOCATOR: CountingAllocator = CountingAllocator;

/// The tests measure the heap of the whole process, so they must not run at the same time
static ONE_AT_A_TIME: std::sync::Mutex<()> = std::sync::Mutex::new(());

fn crc32c(data: &[u8]) -> u32 {
    let mut crc = !0u32;
    for b in data {
        crc ^= *b as u32;
        for _ in 0..8 {
            crc = if crc & 1 != 0 { (crc >> 1) ^ 0x82F6_3B78 } else { crc >> 1 };
        }
    }
    !crc
}

fn phys(logical: u64) -> u64 {
    logical + (logical / 1020) * 4
}

/// File layout: 48 byte header, XML section, zero padding
fn build_file(xml: &str) -> Vec<u8> {
    let mut logical = vec![0u8; 48];
    let xml_offset = logical.len() as u64;
    logical.extend_from_slice(xml.as_bytes());
    while logical.len() % 1020 != 0 {
        logical.push(0);
    }
    let pages = logical.len() / 1020;
    logical[0..8].copy_from_slice(b"ASTM-E57");
    logical[8..12].copy_from_slice(&1u32.to_le_bytes());
    logical[12..16].copy_from_slice(&0u32.to_le_bytes());
    logical[16..24].copy_from_slice(&((pages * 1024) as u64).to_le_bytes());
    logical[24..32].copy_from_slice(&phys(xml_offset).to_le_bytes());
    logical[32..40].copy_from_slice(&(xml.len() as u64).to_le_bytes());
    logical[40..48].copy_from_slice(&1024u64.to_le_bytes());
    let mut file = Vec::with_capacity(pages * 1024);
    for p in 0..pages {
        let payload = &logical[p * 1020..(p + 1) * 1020];
        file.extend_from_slice(payload);
        file.extend_from_slice(&crc32c(payload).to_be_bytes());
    }
    file
}

const LEVELS: usize = 16; // limit of the pre-scan: 64
const DECLARATIONS: usize = 250; // per element, limit of the pre-scan: 256 attributes

/// A complete e57Root with an extension structure of LEVELS nested elements that declare
/// DECLARATIONS namespaces each, and `leaves` small empty elements inside the innermost one.
fn xml(leaves: usize, leaves_declare_namespace: bool) -> String {
    let mut xml = String::from(
        "<?xml version=\"1.0\" encoding=\"UTF-8\"?>\n\
         <e57Root type=\"Structure\" xmlns=\"http://www.astm.org/COMMIT/E57/2010-e57-v1.0\" xmlns:x=\"http://example.com/x\">\n\
         <formatName type=\"String\"><![CDATA[ASTM E57 3D Imaging Data File]]></formatName>\n\
         <guid type=\"String\"><![CDATA[file]]></guid>\n\
         <versionMajor type=\"Integer\">1</versionMajor>\n\
         <versionMinor type=\"Integer\">0</versionMinor>\n",
    );
    for level in 0..LEVELS {
        xml += "<x:w type=\"Structure\"";
        for k in 0..DECLARATIONS {
            xml += &format!(" xmlns:n{level}_{k}=\"u{level}_{k}\"");
        }
        xml += ">\n";
    }
    for i in 0..leaves {
        if leaves_declare_namespace {
            xml += &format!("<x:l xmlns:q=\"v{}\"/>", i % 7);
        } else {
            xml += &format!("<x:l     x:q=\"v{}\"/>", i % 7);
        }
    }
    for _ in 0..LEVELS {
        xml += "</x:w>";
    }
    xml += "\n</e57Root>\n";
    xml
}

/// Returns the time and the additional peak heap of one `E57Reader::new` call
fn open(file: Vec<u8>) -> (Duration, usize) {
    let before = CURRENT.load(Ordering::Relaxed);
    PEAK.store(before, Ordering::Relaxed);
    let start = Instant::now();
    let reader = e57::E57Reader::new(Cursor::new(file));
    let elapsed = start.elapsed();
    let peak = PEAK.load(Ordering::Relaxed).saturating_sub(before);
    // The file is accepted, the namespaces of the root element are reported as usual
    let reader = reader.expect("the file passes the XML shape check and is opened");
    assert_eq!(reader.extensions().len(), 1);
    (elapsed, peak)
}

#[test]
fn opening_is_linear_in_the_file_size() {
    let _guard = ONE_AT_A_TIME.lock().unwrap_or_else(|e| e.into_inner());
    // Same size, same elements, same nesting, same number of attributes
    let xml_plain = xml(150, false);
    let xml_attack = xml(150, true);
    assert_eq!(xml_plain.len(), xml_attack.len());
    let plain = build_file(&xml_plain);
    let attack = build_file(&xml_attack);
    let size = attack.len();

    let (t_plain, m_plain) = open(plain);
    let (t_attack, m_attack) = open(attack);
    println!("file size {size}: plain leaves {t_plain:?} / {m_plain} heap bytes, leaves with xmlns {t_attack:?} / {m_attack} heap bytes");

    // 150 elements of 19 bytes each (2850 of {size} bytes) must not dominate the time to open the file
    assert!(
        t_attack <= t_plain * 5 + Duration::from_millis(250),
        "opening {size} bytes took {t_attack:?}, a file of the same size and shape without the 150 tiny namespace declarations took {t_plain:?}"
    );
}

#[test]
fn additional_bytes_cost_a_fixed_multiple_of_memory_and_time() {
    let _guard = ONE_AT_A_TIME.lock().unwrap_or_else(|e| e.into_inner());
    // The second file is 1140 bytes longer than the first one: 60 more elements of 19 bytes
    let small = xml(30, true);
    let large = xml(90, true);
    let added = large.len() - small.len();
    let (t_small, m_small) = open(build_file(&small));
    let (t_large, m_large) = open(build_file(&large));
    println!("added {added} bytes: time {t_small:?} -> {t_large:?}, peak heap {m_small} -> {m_large}");

    // 256 heap bytes per additional input byte is a very generous multiple
    let allowed = m_small + 256 * added + 64 * 1024;
    assert!(
        m_large <= allowed,
        "{added} additional input bytes increased the peak heap by {} bytes ({} heap bytes per input byte)",
        m_large - m_small,
        (m_large - m_small) / added
    );
    // 100 microseconds per additional input byte is a very generous multiple as well
    assert!(
        t_large <= t_small + Duration::from_micros(100 * added as u64) + Duration::from_millis(250),
        "{added} additional input bytes increased the time from {t_small:?} to {t_large:?}"
    );
}
