//! C09 demo: one `next()` call of a point iterator is quadratic in the input size.
//!
//! Every ignored (or index) packet that is skipped costs one evaluation of
//! `QueueReader::available()`, which walks over all records of the prototype.
//! A file with P prototype records and N four-byte ignored packets makes a single
//! `next()` call perform P * N steps, both factors grow with the file size.
//!
//! The test compares two files of the SAME size, with the SAME prototype and the SAME
//! number of bytes in ignored packets. Only the packet length field differs
//! (few packets of 64 KiB versus many packets of 4 bytes).

use std::io::Cursor;
use std::time::{Duration, Instant};

fn crc32c(data: &[u8]) -> u32 {
    let mut crc = !0u32;
    for b in data {
        crc ^= *b as u32;
        for _ in 0..8 {
            crc = if crc & 1 != 0 { (crc >> 1) ^ 0x82F6_3B78 } else { crc >> 1 };
        }
    }
    !crc
}

/// Physical offset of a logical offset (1020 payload bytes + 4 CRC bytes per page)
fn phys(logical: u64) -> u64 {
    logical + (logical / 1020) * 4
}

/// File layout: 48 byte header, binary section at logical offset 48, XML section, zero padding
fn build_file(binary: &[u8], xml: &str) -> Vec<u8> {
    let mut logical = vec![0u8; 48];
    logical.extend_from_slice(binary);
    while logical.len() % 4 != 0 {
        logical.push(0);
    }
    let xml_offset = logical.len() as u64;
    logical.extend_from_slice(xml.as_bytes());
    while logical.len() % 1020 != 0 {
        logical.push(0);
    }
    let pages = logical.len() / 1020;
    logical[0..8].copy_from_slice(b"ASTM-E57");
    logical[8..12].copy_from_slice(&1u32.to_le_bytes());
    logical[12..16].copy_from_slice(&0u32.to_le_bytes());
    logical[16..24].copy_from_slice(&((pages * 1024) as u64).to_le_bytes());
    logical[24..32].copy_from_slice(&phys(xml_offset).to_le_bytes());
    logical[32..40].copy_from_slice(&(xml.len() as u64).to_le_bytes());
    logical[40..48].copy_from_slice(&1024u64.to_le_bytes());
    let mut file = Vec::with_capacity(pages * 1024);
    for p in 0..pages {
        let payload = &logical[p * 1020..(p + 1) * 1020];
        file.extend_from_slice(payload);
        file.extend_from_slice(&crc32c(payload).to_be_bytes());
    }
    file
}

fn xml_with_prototype(records: usize) -> String {
    let mut xml = String::from(
        "<?xml version=\"1.0\" encoding=\"UTF-8\"?>\n\
         <e57Root type=\"Structure\" xmlns=\"http://www.astm.org/COMMIT/E57/2010-e57-v1.0\">\n\
         <formatName type=\"String\"><![CDATA[ASTM E57 3D Imaging Data File]]></formatName>\n\
         <guid type=\"String\"><![CDATA[file]]></guid>\n\
         <versionMajor type=\"Integer\">1</versionMajor>\n\
         <versionMinor type=\"Integer\">0</versionMinor>\n\
         <data3D type=\"Vector\" allowHeterogeneousChildren=\"1\">\n\
         <vectorChild type=\"Structure\">\n\
         <guid type=\"String\"><![CDATA[pc]]></guid>\n",
    );
    xml += &format!(
        "<points type=\"CompressedVector\" fileOffset=\"{}\" recordCount=\"1\">\n\
         <prototype type=\"Structure\">\n",
        phys(48)
    );
    for _ in 0..records {
        xml += "<a type=\"Integer\"/>";
    }
    xml += "</prototype>\n</points>\n</vectorChild>\n</data3D>\n</e57Root>\n";
    xml
}

/// Compressed vector section at logical offset 48: header, then only ignored packets.
/// `packet_size` is the size of each ignored packet (a multiple of four between 4 and 65536).
fn section_with_ignored_packets(total_bytes: usize, packet_size: usize) -> Vec<u8> {
    let mut section = vec![0u8; 32];
    section[0] = 1; // section id
    section[16..24].copy_from_slice(&phys(48 + 32).to_le_bytes()); // data offset
    let mut remaining = total_bytes;
    while remaining > 0 {
        let size = packet_size.min(remaining);
        assert!(size >= 4 && size % 4 == 0);
        let mut packet = vec![0u8; size];
        packet[0] = 2; // ignored packet
        packet[2..4].copy_from_slice(&((size - 1) as u16).to_le_bytes());
        section.extend_from_slice(&packet);
        remaining -= size;
    }
    section
}

/// Opens the file, creates an iterator and measures ONE call of next()
fn time_of_first_step(file: Vec<u8>, simple: bool) -> Duration {
    let mut reader = e57::E57Reader::new(Cursor::new(file)).expect("file must open");
    let pc = reader.pointclouds().remove(0);
    if simple {
        let mut iter = reader.pointcloud_simple(&pc).unwrap();
        let start = Instant::now();
        let item = iter.next();
        let elapsed = start.elapsed();
        // The packets are followed by the XML section, which is not a packet: first Err ends the exploration
        assert!(matches!(item, Some(Err(_))));
        elapsed
    } else {
        let mut iter = reader.pointcloud_raw(&pc).unwrap();
        let start = Instant::now();
        let item = iter.next();
        let elapsed = start.elapsed();
        assert!(matches!(item, Some(Err(_))));
        elapsed
    }
}

#[test]
fn one_step_is_linear_in_the_file_size() {
    const RECORDS: usize = 15_000; // 285 KB of XML
    const IGNORED_BYTES: usize = 320_000; // 80_000 packets of four bytes

    let xml = xml_with_prototype(RECORDS);
    let baseline = build_file(&section_with_ignored_packets(IGNORED_BYTES, 65536), &xml);
    let attack = build_file(&section_with_ignored_packets(IGNORED_BYTES, 4), &xml);
    assert_eq!(baseline.len(), attack.len());
    println!("file size: {} bytes", attack.len());

    for simple in [false, true] {
        let t_baseline = time_of_first_step(baseline.clone(), simple);
        let t_attack = time_of_first_step(attack.clone(), simple);
        println!("simple={simple}: baseline {t_baseline:?}, many small ignored packets {t_attack:?}");

        // Both calls read and skip exactly the same bytes of a file of the same size.
        // A bound of "fixed multiple of the input size plus a constant" allows a generous
        // factor between them, but not a factor that is itself proportional to the file size.
        let allowed = t_baseline * 20 + Duration::from_millis(250);
        assert!(
            t_attack <= allowed,
            "one next() call took {t_attack:?} for a file of {} bytes, a file of the same size with the same \
             prototype and the same amount of skipped bytes took {t_baseline:?}",
            attack.len()
        );
    }
}

#[test]
fn doubling_the_file_does_not_quadruple_the_step() {
    // Same shape, two sizes: P records and 4 * P ignored packets of four bytes
    let mut times = Vec::new();
    for records in [6_000usize, 12_000, 24_000] {
        let xml = xml_with_prototype(records);
        let file = build_file(&section_with_ignored_packets(records * 16, 4), &xml);
        let size = file.len();
        let t = time_of_first_step(file, false);
        println!("records={records} size={size} one next(): {t:?}");
        times.push(t);
    }
    // Linear growth means a factor of about 4 from the first to the last file (allow 8),
    // the quadratic loop produces a factor of about 16.
    assert!(
        times[2] <= times[0] * 8 + Duration::from_millis(250),
        "4x bigger file, one next() call went from {:?} to {:?}",
        times[0],
        times[2]
    );
}
