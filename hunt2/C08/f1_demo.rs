//! F1 demo: the XML depth guard (`check_xml_shape`, fix 237bfe1) can be switched off with the
//! five bytes `<!-->`, after which `E57Reader::new` dies with a stack overflow (SIGABRT) again.
//!
//! Run with: cargo test --offline --test f1_demo
use e57::E57Reader;
use std::io::Cursor;
use std::process::Command;

fn crc32c(data: &[u8]) -> u32 {
    let mut crc = !0_u32;
    for b in data {
        crc ^= *b as u32;
        for _ in 0..8 {
            crc = if crc & 1 != 0 {
                (crc >> 1) ^ 0x82F6_3B78
            } else {
                crc >> 1
            };
        }
    }
    !crc
}

/// Minimal E57 file: 48 byte header directly followed by the XML section, pages sealed with CRC-32C.
fn file_from_xml(xml: &str) -> Vec<u8> {
    let mut logical = vec![0_u8; 48];
    logical.extend_from_slice(xml.as_bytes());
    while logical.len() % 1020 != 0 {
        logical.push(0);
    }
    let pages = logical.len() / 1020;
    logical[0..8].copy_from_slice(b"ASTM-E57");
    logical[8..12].copy_from_slice(&1_u32.to_le_bytes());
    logical[12..16].copy_from_slice(&0_u32.to_le_bytes());
    logical[16..24].copy_from_slice(&((pages * 1024) as u64).to_le_bytes());
    logical[24..32].copy_from_slice(&48_u64.to_le_bytes());
    logical[32..40].copy_from_slice(&(xml.len() as u64).to_le_bytes());
    logical[40..48].copy_from_slice(&1024_u64.to_le_bytes());
    let mut out = Vec::with_capacity(pages * 1024);
    for chunk in logical.chunks(1020) {
        out.extend_from_slice(chunk);
        out.extend_from_slice(&crc32c(chunk).to_be_bytes());
    }
    out
}

fn root(body: &str) -> String {
    format!(
        "<?xml version=\"1.0\" encoding=\"UTF-8\"?>\n\
         <e57Root type=\"Structure\" xmlns=\"http://www.astm.org/COMMIT/E57/2010-e57-v1.0\">\n\
         <formatName type=\"String\"><![CDATA[ASTM E57 3D Imaging Data File]]></formatName>\n\
         <guid type=\"String\"><![CDATA[guid]]></guid>\n\
         <versionMajor type=\"Integer\">1</versionMajor>\n\
         <versionMinor type=\"Integer\">0</versionMinor>\n\
         {body}</e57Root>\n"
    )
}

/// 200000 levels of real nesting. After every 50 start tags comes a comment that starts with
/// `<!-->` and contains 50 end tags. For an XML parser this is one comment (the `-->` that ends a
/// comment cannot overlap with the `<!--` that starts it), so nothing is closed.
fn bomb() -> Vec<u8> {
    let mut body = String::new();
    for _ in 0..4000 {
        body += &"<x>".repeat(50);
        body += "<!-->";
        body += &"</x>".repeat(50);
        body += "-->";
    }
    file_from_xml(&root(&body))
}

/// Control: the trick is well-formed XML, the parser sees ONE comment and the element stays open.
#[test]
fn control_small_file_with_the_same_comment_is_accepted() {
    let file = file_from_xml(&root("<x><!--></x></x></x>--></x>\n"));
    let reader = E57Reader::new(Cursor::new(file)).expect("well-formed XML with a comment");
    assert_eq!(reader.guid(), "guid");
}

/// Control: the guard works as long as the nesting is not hidden.
#[test]
fn control_plain_deep_nesting_is_rejected_with_an_error() {
    let body = "<x>".repeat(200_000);
    assert!(E57Reader::new(Cursor::new(file_from_xml(&root(&body)))).is_err());
}

/// Helper that is executed in a child process, because a stack overflow cannot be caught.
#[test]
fn child_open() {
    if std::env::var("F1_DEMO_CHILD").is_err() {
        return;
    }
    let result = E57Reader::new(Cursor::new(bomb()));
    println!("child: open returned, is_ok = {}", result.is_ok());
}

#[test]
fn opening_never_aborts() {
    let exe = std::env::current_exe().unwrap();
    let out = Command::new(exe)
        .args(["child_open", "--exact", "--nocapture", "--test-threads=1"])
        .env("F1_DEMO_CHILD", "1")
        .output()
        .unwrap();
    let stderr = String::from_utf8_lossy(&out.stderr);
    let stdout = String::from_utf8_lossy(&out.stdout);
    assert!(
        out.status.success() && stdout.contains("child: open returned"),
        "E57Reader::new must return a value or an error for a {} byte file, but the process died: {:?}\nstderr: {}",
        bomb().len(),
        out.status,
        stderr
    );
}
