//! F2 demo: `size_hint()` of both point iterators promises `recordCount` more items as LOWER
//! bound. `recordCount` is an unchecked number from the XML of the file, so every consumer that
//! reserves memory from the hint (`collect::<Vec<_>>()`, `Vec::extend`, `VecDeque::from_iter`, ...)
//! panics with "capacity overflow" (or aborts in `handle_alloc_error` for smaller counts)
//! while iterating the points of a 2 KB file.
//!
//! Run with: cargo test --offline --test f2_demo
use e57::E57Reader;
use std::io::Cursor;
use std::panic::{catch_unwind, AssertUnwindSafe};

fn crc32c(data: &[u8]) -> u32 {
    let mut crc = !0_u32;
    for b in data {
        crc ^= *b as u32;
        for _ in 0..8 {
            crc = if crc & 1 != 0 {
                (crc >> 1) ^ 0x82F6_3B78
            } else {
                crc >> 1
            };
        }
    }
    !crc
}

/// Layout: 48 byte header | compressed vector section with one data packet (two f32 values) | XML
fn file(record_count: u64) -> Vec<u8> {
    let mut logical = vec![0_u8; 48];

    // Compressed vector section header (32 bytes), the data packet follows directly
    let section_offset = logical.len() as u64;
    let packet: Vec<u8> = vec![
        1, 0, 15, 0, 1, 0, // data packet header: length 16, one byte stream
        8, 0, // length of byte stream 0
        0, 0, 128, 63, 0, 0, 0, 64, // 1.0f32, 2.0f32
    ];
    let mut section = vec![0_u8; 32];
    section[0] = 1;
    section[8..16].copy_from_slice(&(32 + packet.len() as u64).to_le_bytes());
    section[16..24].copy_from_slice(&(section_offset + 32).to_le_bytes());
    logical.extend_from_slice(&section);
    logical.extend_from_slice(&packet);

    let xml = format!(
        "<?xml version=\"1.0\" encoding=\"UTF-8\"?>\n\
         <e57Root type=\"Structure\" xmlns=\"http://www.astm.org/COMMIT/E57/2010-e57-v1.0\">\n\
         <formatName type=\"String\"><![CDATA[ASTM E57 3D Imaging Data File]]></formatName>\n\
         <guid type=\"String\"><![CDATA[guid]]></guid>\n\
         <versionMajor type=\"Integer\">1</versionMajor>\n\
         <versionMinor type=\"Integer\">0</versionMinor>\n\
         <data3D type=\"Vector\" allowHeterogeneousChildren=\"1\">\n\
         <vectorChild type=\"Structure\">\n\
         <guid type=\"String\"><![CDATA[pc]]></guid>\n\
         <points type=\"CompressedVector\" fileOffset=\"{section_offset}\" recordCount=\"{record_count}\">\n\
         <prototype type=\"Structure\">\n\
         <cartesianX type=\"Float\" precision=\"single\"/>\n\
         </prototype>\n\
         </points>\n\
         </vectorChild>\n\
         </data3D>\n\
         </e57Root>\n"
    );
    let xml_offset = logical.len() as u64; // still inside the first page: physical == logical
    logical.extend_from_slice(xml.as_bytes());
    assert!(xml_offset < 1020);

    while logical.len() % 1020 != 0 {
        logical.push(0);
    }
    let pages = logical.len() / 1020;
    logical[0..8].copy_from_slice(b"ASTM-E57");
    logical[8..12].copy_from_slice(&1_u32.to_le_bytes());
    logical[12..16].copy_from_slice(&0_u32.to_le_bytes());
    logical[16..24].copy_from_slice(&((pages * 1024) as u64).to_le_bytes());
    logical[24..32].copy_from_slice(&xml_offset.to_le_bytes());
    logical[32..40].copy_from_slice(&(xml.len() as u64).to_le_bytes());
    logical[40..48].copy_from_slice(&1024_u64.to_le_bytes());
    let mut out = Vec::with_capacity(pages * 1024);
    for chunk in logical.chunks(1020) {
        out.extend_from_slice(chunk);
        out.extend_from_slice(&crc32c(chunk).to_be_bytes());
    }
    out
}

/// Stops at the first error like most callers do. It forwards the size hint of the wrapped
/// iterator the same way the adaptors of std (`map`, `inspect`, ...) do.
struct UntilError<I> {
    inner: I,
    done: bool,
}

impl<T, I: Iterator<Item = e57::Result<T>>> Iterator for UntilError<I> {
    type Item = e57::Result<T>;
    fn next(&mut self) -> Option<Self::Item> {
        if self.done {
            return None;
        }
        let item = self.inner.next();
        self.done = matches!(item, Some(Err(_)) | None);
        item
    }
    fn size_hint(&self) -> (usize, Option<usize>) {
        self.inner.size_hint()
    }
}

/// Control: with the true record count everything works, two points and the end.
#[test]
fn control_honest_record_count() {
    let mut reader = E57Reader::new(Cursor::new(file(2))).unwrap();
    let pc = reader.pointclouds().remove(0);
    let points: Vec<_> = reader.pointcloud_simple(&pc).unwrap().collect();
    assert_eq!(points.len(), 2);
    assert!(points.iter().all(|p| p.is_ok()));
    let points: Vec<_> = reader.pointcloud_raw(&pc).unwrap().collect();
    assert_eq!(points.len(), 2);
}

#[test]
fn collecting_simple_points_never_panics() {
    let bytes = file(1 << 60);
    assert!(bytes.len() <= 2048);
    let mut reader = E57Reader::new(Cursor::new(bytes)).unwrap();
    let pc = reader.pointclouds().remove(0);
    let iter = reader.pointcloud_simple(&pc).unwrap();
    let iter = UntilError { inner: iter, done: false };
    let result = catch_unwind(AssertUnwindSafe(|| {
        let items: Vec<_> = iter.collect();
        items.len()
    }));
    // The file holds two points, the third item is the error for the missing data
    assert_eq!(
        result.ok(),
        Some(3),
        "collecting the simple iterator of a 2 KB file panicked instead of yielding values and an error"
    );
}

#[test]
fn collecting_raw_points_never_panics() {
    let mut reader = E57Reader::new(Cursor::new(file(1 << 60))).unwrap();
    let pc = reader.pointclouds().remove(0);
    let iter = reader.pointcloud_raw(&pc).unwrap();
    let iter = UntilError { inner: iter, done: false };
    let result = catch_unwind(AssertUnwindSafe(|| {
        let mut items = Vec::new();
        items.extend(iter);
        items.len()
    }));
    assert_eq!(
        result.ok(),
        Some(3),
        "extending a vector from the raw iterator of a 2 KB file panicked instead of yielding values and an error"
    );
}
