// C20 demo: e57-check-crc reports success for a file whose page 0 has an invalid checksum.
//
// The tool (through E57Reader::validate_crc) takes the page size from the raw, not yet
// validated header bytes at offset 40. Damage that is confined to page 0 can therefore
// change the page layout that is checked. Here page 0 of a file written by the crate's own
// writer is damaged in 12 bytes (page size field + 4 free bytes); the checksum of page 0 is
// then wrong, the library refuses to open the file, but the tool prints "All files are okay!"
// and exits with status 0.

use e57::{E57Reader, E57Writer, Record, RecordValue};
use std::path::PathBuf;
use std::process::Command;

fn crc32c(data: &[u8]) -> u32 {
    let mut crc = 0xFFFF_FFFF_u32;
    for b in data {
        crc ^= *b as u32;
        for _ in 0..8 {
            crc = if crc & 1 != 0 {
                (crc >> 1) ^ 0x82F6_3B78
            } else {
                crc >> 1
            };
        }
    }
    !crc
}

// Checksum state of every 1024 byte page (the only page size of the E57 format)
fn invalid_pages(file: &[u8]) -> Vec<usize> {
    assert_eq!(file.len() % 1024, 0);
    file.chunks(1024)
        .enumerate()
        .filter(|(_, p)| crc32c(&p[..1020]).to_be_bytes() != p[1020..])
        .map(|(i, _)| i)
        .collect()
}

// Finds the four bytes for file[pos..pos+4] that make crc32c(file[..end]) equal to target.
// CRCs are affine in the message bits, so this is a 32x32 linear system over GF(2).
fn forge(file: &mut [u8], pos: usize, end: usize, target: u32) {
    let mut eval = |p: u32, file: &mut [u8]| {
        file[pos..pos + 4].copy_from_slice(&p.to_le_bytes());
        crc32c(&file[..end])
    };
    let base = eval(0, file);
    // rows[i] = (effect of patch bit i on the crc, patch bits used)
    let mut rows: Vec<(u32, u32)> = (0..32).map(|i| (eval(1 << i, file) ^ base, 1 << i)).collect();
    let mut want = target ^ base;
    let mut patch = 0_u32;
    for bit in 0..32 {
        let idx = rows
            .iter()
            .position(|r| r.0 & (1 << bit) != 0)
            .expect("system is regular");
        let pivot = rows.swap_remove(idx);
        for r in rows.iter_mut() {
            if r.0 & (1 << bit) != 0 {
                r.0 ^= pivot.0;
                r.1 ^= pivot.1;
            }
        }
        if want & (1 << bit) != 0 {
            want ^= pivot.0;
            patch ^= pivot.1;
        }
    }
    assert_eq!(want, 0);
    assert_eq!(eval(patch, file), target);
}

fn run_tool(root: &PathBuf, file: &PathBuf) -> bool {
    let out = Command::new(root.join("target/debug/e57-check-crc"))
        .arg(file)
        .output()
        .expect("run e57-check-crc");
    println!(
        "e57-check-crc {}: {:?}\n{}{}",
        file.display(),
        out.status,
        String::from_utf8_lossy(&out.stdout),
        String::from_utf8_lossy(&out.stderr)
    );
    out.status.success()
}

#[test]
fn check_crc_succeeds_although_page_zero_is_damaged() {
    let root = PathBuf::from(env!("CARGO_MANIFEST_DIR"));
    let status = Command::new("cargo")
        .args(["build", "--offline", "-p", "e57-check-crc"])
        .current_dir(&root)
        .status()
        .expect("build tool");
    assert!(status.success());

    let dir = root.join("target/f1_demo_tmp");
    std::fs::create_dir_all(&dir).unwrap();

    // A small regular file from the crate's own writer
    let intact_path = dir.join("intact.e57");
    {
        let mut w = E57Writer::from_file(&intact_path, "file-guid").unwrap();
        let proto = vec![
            Record::CARTESIAN_X_F32,
            Record::CARTESIAN_Y_F32,
            Record::CARTESIAN_Z_F32,
        ];
        let mut pc = w.add_pointcloud("pc-guid", proto).unwrap();
        for i in 0..500 {
            let v = i as f32;
            pc.add_point(vec![
                RecordValue::Single(v),
                RecordValue::Single(-v),
                RecordValue::Single(v * 0.5),
            ])
            .unwrap();
        }
        pc.finalize().unwrap();
        w.finalize().unwrap();
    }
    let intact = std::fs::read(&intact_path).unwrap();
    assert!(intact.len() > 2048 && intact.len() <= 1024 * 1024);
    assert!(invalid_pages(&intact).is_empty());
    assert!(run_tool(&root, &intact_path), "intact file must validate");

    // Control: four damaged bytes in page 0 are detected
    let mut control = intact.clone();
    for b in &mut control[1000..1004] {
        *b ^= 0x5A;
    }
    let control_path = dir.join("control.e57");
    std::fs::write(&control_path, &control).unwrap();
    assert_eq!(invalid_pages(&control), vec![0]);
    assert!(!run_tool(&root, &control_path), "damage must be detected");

    // Damage ONLY page 0: page size field (offset 40) and four bytes at offset 1000.
    // All other pages, including their checksums, stay exactly as the writer made them.
    let mut damaged = intact.clone();
    let len = damaged.len();
    damaged[40..48].copy_from_slice(&(len as u64).to_le_bytes());
    let target = u32::from_be_bytes(damaged[len - 4..].try_into().unwrap());
    forge(&mut damaged, 1000, len - 4, target);
    assert_eq!(damaged[1024..], intact[1024..], "only page 0 was touched");
    let damaged_path = dir.join("damaged.e57");
    std::fs::write(&damaged_path, &damaged).unwrap();

    // The checksum of page 0 is invalid now, the library itself refuses the file
    assert_eq!(invalid_pages(&damaged), vec![0]);
    assert!(E57Reader::from_file(&damaged_path).is_err());

    // Property: "the checksum tool exits successfully exactly when every page checksum is valid"
    let ok = run_tool(&root, &damaged_path);
    assert!(
        !ok,
        "e57-check-crc exited successfully although the checksum of page 0 is invalid"
    );
}
