//! Coverage-guided driver for every property check: the fuzz input is the
//! choice tape of the property's generator, the oracle is the property's own.
//! Select the property with E57_FUZZ_CHECK=C01..C20 (default C08).
#![no_main]
use libfuzzer_sys::fuzz_target;

fuzz_target!(|data: &[u8]| {
    static ID: std::sync::OnceLock<String> = std::sync::OnceLock::new();
    let id = ID.get_or_init(|| {
        checks::kit::install_panic_hook();
        std::env::var("E57_FUZZ_CHECK").unwrap_or_else(|_| "C08".to_string())
    });
    if let Some(msg) = checks::fuzz_one(id, data) {
        // a violation of the property (not a listed known finding): make it a crash so
        // that libFuzzer saves the tape; bin/check replays it deterministically afterwards
        eprintln!("PROPERTY VIOLATION {id}: {msg}");
        std::process::abort();
    }
});
