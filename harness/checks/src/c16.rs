//! C16 - device faults surface as errors; short I/O changes nothing.
use crate::adapt::read_scene;
use crate::c15::small_program;
use crate::dev::{FaultKind, MemDev};
use crate::kit::{guard, Check, Level, Src, Tier, Verdict};
use crate::prog::{self, Program, Trace};
use crate::rops::{all_ops, blob_list, run_op};
use e57::E57Reader;
use e57ref::scene::diff_scene;
use serde::{Deserialize, Serialize};

pub struct C16;

#[derive(Clone, Serialize, Deserialize)]
pub struct Case {
    pub program: Program,
    /// chunk sizes for the short-transfer part
    pub chunks: Vec<u16>,
}

fn kind_for(k: usize) -> FaultKind {
    // rotate through the error kinds a device may report (never Interrupted)
    if k % 3 == 0 {
        FaultKind::Hard
    } else {
        FaultKind::Kind((k / 3) as u8)
    }
}

fn run_writer(p: &Program, fault: Option<usize>, chunks: &[u16]) -> (Trace, MemDev, Result<(), String>) {
    run_writer_with(p, fault.map(|k| (k, kind_for(k))), chunks, false)
}

/// `stubborn`: after the first failing call the caller gives up adding data but still calls the top-level finalize.
fn run_writer_with(p: &Program, fault: Option<(usize, FaultKind)>, chunks: &[u16], stubborn: bool) -> (Trace, MemDev, Result<(), String>) {
    let dev = MemDev::new();
    {
        let mut st = dev.st.borrow_mut();
        st.fault_at = fault;
        st.chunks = chunks.iter().map(|c| *c as usize).collect();
    }
    let h = dev.handle();
    let mut tr = Trace { retry_finalize: fault.is_some(), finalize_after_error: stubborn, ..Trace::default() };
    let r = guard(|| prog::exec(p, dev, &mut tr));
    (tr, h, r)
}

/// The two entry points that take the device itself: checksum validation of the whole file and raw XML extraction.
/// Returns the number of device operations used.
fn run_static(bytes: &[u8], fault: Option<usize>, chunks: &[u16]) -> Result<(usize, (bool, Option<Vec<u8>>)), String> {
    let mut ops = 0;
    let mut outs = (false, None);
    for which in 0..2 {
        let dev = MemDev::with_data(bytes.to_vec());
        {
            let mut st = dev.st.borrow_mut();
            // the fault position counts through both calls
            st.fault_at = fault.and_then(|k| k.checked_sub(ops)).map(|k| (k, kind_for(k + ops)));
            st.chunks = chunks.iter().map(|c| *c as usize).collect();
        }
        let h = dev.handle();
        let name = ["validate_crc", "raw_xml"][which];
        let r = guard(|| if which == 0 { E57Reader::validate_crc(dev).map(|_| None) } else { E57Reader::raw_xml(dev).map(Some) });
        match r {
            Err(pn) => return Err(format!("{name} panicked: {pn}")),
            Ok(Ok(x)) => {
                if h.fault_fired() {
                    return Err(format!("{name} reported success although the device reported an error during the call"));
                }
                if which == 0 {
                    outs.0 = true;
                } else {
                    outs.1 = x;
                }
            }
            Ok(Err(e)) => {
                if fault.is_none() {
                    return Err(format!("{name} failed without any device fault: {e}"));
                }
            }
        }
        ops += h.st.borrow().ops;
    }
    Ok((ops, outs))
}

/// The reader program: open, then every read operation once.  Returns the
/// number of device operations used, or the violation.
fn run_reader(bytes: &[u8], free: &[(u64, u64)], fault: Option<usize>, chunks: &[u16]) -> Result<(usize, Vec<crate::rops::OpOut>), String> {
    let dev = MemDev::with_data(bytes.to_vec());
    {
        let mut st = dev.st.borrow_mut();
        st.fault_at = fault.map(|k| (k, kind_for(k)));
        st.chunks = chunks.iter().map(|c| *c as usize).collect();
    }
    let h = dev.handle();
    let r = guard(|| -> Result<Vec<crate::rops::OpOut>, String> {
        let mut rd = match E57Reader::new(dev) {
            Ok(r) => r,
            Err(e) => {
                return if h.fault_fired() { Ok(vec![]) } else { Err(format!("open failed without a device fault: {e}")) };
            }
        };
        if h.fault_fired() {
            return Err("E57Reader::new reported success although the device reported an error during the call".into());
        }
        let nb = blob_list(&rd, free).len();
        let ops = all_ops(rd.pointclouds().len(), nb);
        let mut outs = Vec::new();
        for op in &ops {
            let fired_before = h.fault_fired();
            let o = run_op(&mut rd, op, free);
            if !fired_before && h.fault_fired() && o.err.is_none() {
                return Err(format!("{op:?} reported success although the device reported an error during the call"));
            }
            if fault.is_none() && o.err.is_some() {
                return Err(format!("{op:?} failed without a device fault: {:?}", o.err));
            }
            let stop = o.err.is_some();
            outs.push(o);
            if stop {
                break; // a caller stops at the first error
            }
        }
        Ok(outs)
    });
    let n = h.st.borrow().ops;
    match r {
        Err(p) => Err(format!("reader panicked: {p}")),
        Ok(Err(e)) => Err(e),
        Ok(Ok(outs)) => Ok((n, outs)),
    }
}

/// Both iterators of every cloud driven step by step on a device with one injected error: the next() call during
/// which the device reports the error must not deliver a point. Returns the number of device operations used.
fn run_reader_steps(bytes: &[u8], fault: Option<usize>) -> Result<usize, String> {
    let dev = MemDev::with_data(bytes.to_vec());
    dev.st.borrow_mut().fault_at = fault.map(|k| (k, kind_for(k)));
    let h = dev.handle();
    let r = guard(|| -> Result<(), String> {
        let mut rd = match E57Reader::new(dev) {
            Ok(r) => r,
            Err(_) => return Ok(()),
        };
        for (ci, pc) in rd.pointclouds().iter().enumerate() {
            for simple in [false, true] {
                let mut step = 0u64;
                if simple {
                    let Ok(mut it) = rd.pointcloud_simple(pc) else { continue };
                    loop {
                        let before = h.fault_fired();
                        let item = it.next();
                        if !before && h.fault_fired() && matches!(item, Some(Ok(_))) {
                            return Err(format!("cloud {ci}: simple iterator step {step} delivered a point although the device reported an error during this very call"));
                        }
                        step += 1;
                        if !matches!(item, Some(Ok(_))) || step > pc.records + 2 {
                            break;
                        }
                    }
                } else {
                    let Ok(mut it) = rd.pointcloud_raw(pc) else { continue };
                    loop {
                        let before = h.fault_fired();
                        let item = it.next();
                        if !before && h.fault_fired() && matches!(item, Some(Ok(_))) {
                            return Err(format!("cloud {ci}: raw iterator step {step} delivered a point although the device reported an error during this very call"));
                        }
                        step += 1;
                        if !matches!(item, Some(Ok(_))) || step > pc.records + 2 {
                            break;
                        }
                    }
                }
                if h.fault_fired() {
                    return Ok(());
                }
            }
        }
        Ok(())
    });
    let n = h.st.borrow().ops;
    match r {
        Err(p) => Err(format!("reader panicked: {p}")),
        Ok(Err(e)) => Err(e),
        Ok(Ok(())) => Ok(n),
    }
}

impl Check for C16 {
    type Case = Case;
    const ID: &'static str = "C16";
    fn level() -> Level {
        Level::FaultEnumeration
    }
    fn rule() -> String {
        "Small writer programs and the reader program {open, XML, descriptors, raw + simple iteration of every cloud, every blob} x EVERY index k \
         of the device operation sequence (read, write, seek, flush all counted) with one injected hard error (the error kind rotates through \
         Other, InvalidInput, InvalidData, UnexpectedEof, PermissionDenied, BrokenPipe, TimedOut, NotFound, WriteZero): the public call \
         during which the fault fired must return Err (iterators Some(Err)), never panic, never report success; a caller stops at the first Err; \
         if top-level finalize reports success the device equals the fault-free file. Faults firing only inside Drop have no call to report to and \
         are counted, not asserted. A caller that gives up adding data after the first failing call but still calls the top-level finalize (every fault position, also on a short-transfer device): a reported success means a readable file of whole pages. Every device operation interrupted once (ErrorKind::Interrupted): a call fails or all succeed and the file is the fault-free one. Both iterators are also driven step by step: the next() call during which the device fails must not deliver a point. Short transfers: the same programs on a device that serves reads and writes in generated chunk sizes (1..) must \
         succeed with a byte-identical file and identical read results. `evaluations` counts programs, `executions_of_code_under_test` counts \
         faulted/chunked executions. Non-trivial: program with >= 40 fault positions in both writer and reader, or a 1-byte chunk schedule."
            .into()
    }
    fn assumptions() -> Vec<String> {
        vec!["ErrorKind::Interrupted retry behaviour is not part of the statement and is not asserted".into()]
    }
    fn budget(t: Tier) -> usize {
        t.pick(1500, 300_000)
    }
    fn gen(s: &mut Src, _t: Tier) -> Case {
        let program = small_program(s);
        let n = 1 + s.below(5) as usize;
        let chunks = (0..n)
            .map(|_| match s.weighted(&[3, 3, 2]) {
                0 => 1,
                1 => 1 + s.below(16) as u16,
                _ => 1 + s.below(2000) as u16,
            })
            .collect();
        Case { program, chunks }
    }
    fn run(case: &Case) -> Verdict {
        let mut v = Verdict::new();
        let p = &case.program;
        let mut execs = 1u64;
        // fault-free baseline
        let (tr0, h0, r0) = run_writer(p, None, &[]);
        if let Err(pn) = r0 {
            v.fail(format!("writer panicked in {}: {pn}", tr0.current));
            return v;
        }
        if tr0.error.is_some() || !tr0.finalized {
            v.label("writer_error_out_of_scope");
            return v;
        }
        let good = h0.bytes();
        let wops = h0.st.borrow().ops;
        let free = tr0.blobs.clone();
        // every fault position in the writer program
        let mut in_drop = 0;
        for k in 0..wops {
            execs += 1;
            let (tr, h, r) = run_writer(p, Some(k), &[]);
            if let Err(pn) = r {
                v.fail(format!("device fault at operation {k}: writer panicked in {}: {pn}", tr.current));
                v.execs = execs;
                return v;
            }
            if let Some(call) = &tr.swallowed {
                v.fail(format!("device fault at operation {k}: {call} reported success although the device reported an error during the call"));
                v.execs = execs;
                return v;
            }
            if tr.error.is_none() {
                if h.fault_fired() {
                    in_drop += 1; // fired after the last call returned: inside Drop
                } else {
                    v.infra(format!("fault position {k} was never reached although the fault-free run used {wops} operations"));
                    return v;
                }
            }
            if tr.finalized_on_retry {
                // the first finalize call failed (reported), a second call reported success: the device must hold a complete file
                v.nt("finalize_called_again_after_a_fault");
                let a = guard(|| read_scene(MemDev::with_data(h.bytes())));
                let b = guard(|| read_scene(MemDev::with_data(good.clone())));
                match (a, b) {
                    (Ok(Ok((a, _))), Ok(Ok((b, _)))) => {
                        if let Some(d) = diff_scene(&b, &a, "fault_free", "after_retried_finalize") {
                            v.fail(format!("device fault at operation {k}: finalize failed, a second finalize call reported success, but the file differs: {d}"));
                            v.execs = execs;
                            return v;
                        }
                    }
                    (a, _) => {
                        v.fail(format!("device fault at operation {k}: finalize failed, a second finalize call reported success, but the device does not hold a complete file ({})", match a { Ok(Err(e)) => e, Err(p) => p, _ => "?".into() }));
                        v.execs = execs;
                        return v;
                    }
                }
            }
            if tr.finalized && h.bytes() != good {
                v.fail(format!("device fault at operation {k}: top-level finalize reported success but the device does not hold the complete file"));
                v.execs = execs;
                return v;
            }
        }
        if in_drop > 0 {
            v.label("faults_inside_drop_not_asserted");
        }
        // a caller that, after the first failing call, gives up adding data but still calls the top-level finalize:
        // whenever that finalize reports success the device must hold a complete, readable file
        // (also on a device with short transfers, where a fault can hit the second part of a page)
        // (pass 1: pages are written in two parts, 700 + 324 bytes; at most 400 evenly spread fault positions per pass)
        for (pass, chunks) in [(0, &[][..]), (1, &[700u16][..])] {
            let (_, hc, _) = run_writer_with(p, None, chunks, false);
            let n_ops = hc.st.borrow().ops;
            let stride = (n_ops / 400).max(1);
            for k in (0..n_ops).step_by(stride) {
                execs += 1;
                let (tr, h, r) = run_writer_with(p, Some((k, kind_for(k))), chunks, true);
                if let Err(pn) = r {
                    v.fail(format!("device fault at operation {k} (pass {pass}): writer panicked in {}: {pn}", tr.current));
                    v.execs = execs;
                    return v;
                }
                if tr.finalized_after_error {
                    v.nt("finalize_after_a_failed_call");
                    match guard(|| read_scene(MemDev::with_data(h.bytes()))) {
                        Ok(Ok(_)) if h.bytes().len() % 1024 == 0 => {}
                        other => {
                            v.fail(format!(
                                "device fault at operation {k}{}: {} failed, the top-level finalize called afterwards reported success, but the device does not hold a complete file ({})",
                                if pass == 1 { " on a device that transfers at most 700 bytes at a time".to_string() } else { String::new() },
                                tr.error.as_ref().map(|e| e.0.clone()).unwrap_or_default(),
                                match other { Ok(Err(e)) => e, Err(pn) => pn, _ => "size is not a whole number of pages".into() }
                            ));
                            v.execs = execs;
                            return v;
                        }
                    }
                }
            }
        }
        // a device operation interrupted once (ErrorKind::Interrupted): the call in progress reports an error, or
        // everything succeeds and the file is the fault-free one
        for k in 0..wops {
            execs += 1;
            let (tr, h, r) = run_writer_with(p, Some((k, FaultKind::Interrupted)), &[], false);
            if let Err(pn) = r {
                v.fail(format!("interrupted device operation {k}: writer panicked in {}: {pn}", tr.current));
                v.execs = execs;
                return v;
            }
            if tr.error.is_none() && tr.finalized && h.bytes() != good {
                v.fail(format!("device operation {k} reported ErrorKind::Interrupted once: every call reported success but the file differs from the fault-free one"));
                v.execs = execs;
                return v;
            }
        }
        // reader program, fault-free then every fault position
        let (rops, base) = match run_reader(&good, &free, None, &[]) {
            Ok(x) => x,
            Err(e) => {
                v.fail(format!("fault-free reading failed: {e}"));
                return v;
            }
        };
        for k in 0..rops {
            execs += 1;
            if let Err(e) = run_reader(&good, &free, Some(k), &[]) {
                v.fail(format!("device fault at read-side operation {k}: {e}"));
                v.execs = execs;
                return v;
            }
        }
        match run_static(&good, None, &[]) {
            Err(e) => {
                v.fail(e);
                return v;
            }
            Ok((n, base_static)) => {
                for k in 0..n {
                    execs += 1;
                    if let Err(e) = run_static(&good, Some(k), &[]) {
                        v.fail(format!("device fault at operation {k} of validate_crc + raw_xml: {e}"));
                        v.execs = execs;
                        return v;
                    }
                }
                // a damaged page is found by validate_crc however the device chunks its transfers
                for page in [good.len() / 1024 - 1, good.len() / 2048] {
                    let mut bad = good.clone();
                    bad[page * 1024 + 500] ^= 0x04;
                    for chunks in [&[][..], &case.chunks[..], &[4096, 1000][..]] {
                        execs += 1;
                        let dev = MemDev::with_data(bad.clone());
                        dev.st.borrow_mut().chunks = chunks.iter().map(|c| *c as usize).collect();
                        if matches!(guard(|| E57Reader::validate_crc(dev)), Ok(Ok(_))) {
                            v.fail(format!("validate_crc accepts a file with a flipped bit in page {page} when the device serves transfers of {chunks:?} bytes"));
                            v.execs = execs;
                            return v;
                        }
                    }
                }
                execs += 1;
                match run_static(&good, None, &case.chunks) {
                    Ok((_, o)) if o == base_static => {}
                    Ok(_) => {
                        v.fail(format!("short transfers {:?}: validate_crc / raw_xml give other results than with full transfers", case.chunks));
                        return v;
                    }
                    Err(e) => {
                        v.fail(format!("short transfers {:?}: {e}", case.chunks));
                        return v;
                    }
                }
            }
        }
        if let Ok(n) = run_reader_steps(&good, None) {
            for k in 0..n {
                execs += 1;
                if let Err(e) = run_reader_steps(&good, Some(k)) {
                    v.fail(format!("device fault at read-side operation {k} (iterators step by step): {e}"));
                    v.execs = execs;
                    return v;
                }
            }
        }
        if wops >= 40 && rops >= 40 {
            v.nt("many_fault_positions");
        }
        // short transfers
        execs += 2;
        let (trc, hc, rc) = run_writer(p, None, &case.chunks);
        if let Err(pn) = rc {
            v.fail(format!("short transfers {:?}: writer panicked in {}: {pn}", case.chunks, trc.current));
            return v;
        }
        if let Some((c, e)) = &trc.error {
            v.fail(format!("short transfers {:?}: {c} failed: {e}", case.chunks));
            return v;
        }
        if hc.bytes() != good {
            v.fail(format!("short transfers {:?}: the produced file differs from the one written with full transfers", case.chunks));
            return v;
        }
        if case.chunks.contains(&1) {
            v.nt("one_byte_transfers");
        }
        match run_reader(&good, &free, None, &case.chunks) {
            Ok((_, outs)) => {
                if outs != base {
                    v.fail(format!("short transfers {:?}: read results differ from those with full transfers", case.chunks));
                }
            }
            Err(e) => v.fail(format!("short transfers {:?}: {e}", case.chunks)),
        }
        // and the full scene through a chunked device
        let dev = MemDev::with_data(good.clone());
        dev.st.borrow_mut().chunks = case.chunks.iter().map(|c| *c as usize).collect();
        let a = guard(|| read_scene(dev));
        let b = guard(|| read_scene(MemDev::with_data(good.clone())));
        if let (Ok(Ok((a, _))), Ok(Ok((b, _)))) = (&a, &b) {
            if let Some(d) = diff_scene(b, a, "full_transfers", "short_transfers") {
                v.fail(format!("short transfers {:?}: {d}", case.chunks));
            }
        } else if a.is_err() || matches!(a, Ok(Err(_))) {
            v.fail(format!("short transfers {:?}: reading the scene failed", case.chunks));
        }
        v.execs = execs;
        v
    }
}
