//! Model validity: the independent codec must be right before any alarm that
//! depends on it is believed.  Failure here is exit 2, never a violation.
use e57ref::decode::decode;

/// Files in /repo/testdata written by libE57Format (the reference
/// implementation) that the reference decoder must accept without complaint.
pub const REFERENCE_FILES: [&str; 12] = [
    "bunnyDouble.e57",
    "bunnyFloat.e57",
    "bunnyInt19.e57",
    "bunnyInt21.e57",
    "bunnyInt24.e57",
    "bunnyInt32.e57",
    "tinyCartesianFloatRgb.e57",
    "tiny_pc_and_images.e57",
    "tiny_pc_with_extension.e57",
    "tiny_spherical.e57",
    "empty_pc.e57",
    "empty.e57",
];

pub fn bundled(name: &str) -> Result<Vec<u8>, String> {
    std::fs::read(crate::kit::repo_root().join("testdata").join(name)).map_err(|e| format!("cannot read bundled file {name}: {e}"))
}

pub fn decoder_preflight() -> Result<(), String> {
    e57ref::crc::self_test()?;
    for f in REFERENCE_FILES {
        let bytes = bundled(f)?;
        let d = decode(&bytes).map_err(|e| format!("reference decoder rejects bundled file {f}: {e}"))?;
        if !d.complaints.is_empty() {
            return Err(format!("reference decoder complains about bundled file {f}: {:?}", &d.complaints[..d.complaints.len().min(3)]));
        }
        for (i, c) in d.scene.clouds.iter().enumerate() {
            if c.points.len() as u64 != d.clouds[i].record_count {
                return Err(format!("reference decoder decoded {} of {} points of {f}", c.points.len(), d.clouds[i].record_count));
            }
        }
    }
    Ok(())
}
