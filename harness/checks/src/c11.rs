//! C11 - page layer: file payload always equals the logical stream written.
//! Drives the crate-private PagedWriter / PagedReader through the
//! cfg(e57_verif) hook against a byte-vector model.
use crate::dev::MemDev;
use crate::kit::{guard, Check, Src, Tier, Verdict};
use e57::verif_hooks::{PagedReader, PagedWriter};
use e57ref::pages::{self, log_to_phys, phys_to_log, PAGE, PAYLOAD};
use serde::{Deserialize, Serialize};
use std::io::{Read, Write};

pub struct C11;

#[derive(Clone, Copy, Debug, PartialEq, Serialize, Deserialize)]
pub enum Target {
    Zero,
    P44,
    P48,
    CurPageStart,
    LastPageLastPayloadByte,
    LastWrittenByte,
    DeviceEnd,
    InsideChecksum,
    BeyondEnd,
    Abs(u32),
}

#[derive(Clone, Copy, Debug, PartialEq, Serialize, Deserialize)]
pub enum WOp {
    Write(u16),
    Seek(Target),
    Flush,
    Align,
    Pos,
    Size,
}

#[derive(Clone, Copy, Debug, PartialEq, Serialize, Deserialize)]
pub enum ROp {
    Seek(Target),
    Read(u16),
    ReadOnce(u16),
    Align,
}

#[derive(Clone, Serialize, Deserialize)]
pub struct Case {
    pub wops: Vec<WOp>,
    pub rops: Vec<ROp>,
    /// maximum transfer sizes of the device (cyclic); empty = whole transfers
    #[serde(default)]
    pub chunks: Vec<u16>,
}

const ALPHABET: [WOp; 20] = [
    WOp::Write(1),
    WOp::Write(3),
    WOp::Write(4),
    WOp::Write(5),
    WOp::Write(1019),
    WOp::Write(1020),
    WOp::Write(1021),
    WOp::Write(2041),
    WOp::Write(48),
    WOp::Seek(Target::Zero),
    WOp::Seek(Target::P44),
    WOp::Seek(Target::CurPageStart),
    WOp::Seek(Target::LastPageLastPayloadByte),
    WOp::Seek(Target::LastWrittenByte),
    WOp::Seek(Target::DeviceEnd),
    WOp::Seek(Target::InsideChecksum),
    WOp::Flush,
    WOp::Align,
    WOp::Pos,
    WOp::Size,
];

struct Model {
    stream: Vec<u8>,
    cursor: usize,
}
impl Model {
    fn phys_size(&self) -> u64 {
        ((self.stream.len() + PAYLOAD - 1) / PAYLOAD * PAGE) as u64
    }
    fn resolve(&self, t: Target) -> u64 {
        let size = self.phys_size();
        match t {
            Target::Zero => 0,
            Target::P44 => 44,
            Target::P48 => 48,
            Target::CurPageStart => (self.cursor / PAYLOAD * PAGE) as u64,
            Target::LastPageLastPayloadByte => size.saturating_sub(5),
            Target::LastWrittenByte => log_to_phys(self.stream.len().saturating_sub(1) as u64),
            Target::DeviceEnd => size,
            Target::InsideChecksum => size.saturating_sub(2).max(1021),
            Target::BeyondEnd => size + 1024,
            Target::Abs(p) => p as u64,
        }
    }
}

fn data_for(step: usize, n: usize) -> Vec<u8> {
    (0..n).map(|i| ((step * 31 + i * 7) % 251 + 1) as u8).collect()
}

fn check_device(dev: &MemDev, m: &Model, at: &str) -> Result<(), String> {
    let bytes = dev.bytes();
    if bytes.len() as u64 != m.phys_size() {
        return Err(format!("{at}: device holds {} bytes, the logical stream of {} bytes needs {}", bytes.len(), m.stream.len(), m.phys_size()));
    }
    for (i, ok) in pages::page_verdicts(&bytes).iter().enumerate() {
        if !ok {
            return Err(format!("{at}: page {i} carries an invalid checksum at a flush point"));
        }
    }
    let log = pages::unpage(&bytes)?;
    let mut want = m.stream.clone();
    want.resize(log.len(), 0);
    if log != want {
        let pos = log.iter().zip(want.iter()).position(|(a, b)| a != b);
        return Err(format!("{at}: file payload differs from the logical stream written, first at logical byte {pos:?}"));
    }
    Ok(())
}

fn run_writer(ops: &[WOp], chunks: &[u16], v: &mut Verdict) -> Result<Vec<u8>, String> {
    let dev = MemDev::new();
    dev.st.borrow_mut().chunks = chunks.iter().map(|c| *c as usize).collect();
    let h = dev.handle();
    let mut w = PagedWriter::new(dev).map_err(|e| format!("PagedWriter::new: {e}"))?;
    let mut m = Model { stream: Vec::new(), cursor: 0 };
    let mut partial_flush = false;
    let mut back_seek = false;
    for (step, op) in ops.iter().enumerate() {
        let at = format!("step {step} {op:?}");
        match op {
            WOp::Write(n) => {
                let d = data_for(step, *n as usize);
                w.write_all(&d).map_err(|e| format!("{at}: write_all failed: {e}"))?;
                if m.stream.len() < m.cursor + d.len() {
                    m.stream.resize(m.cursor + d.len(), 0);
                }
                m.stream[m.cursor..m.cursor + d.len()].copy_from_slice(&d);
                if back_seek && m.cursor / PAYLOAD != (m.cursor + d.len()) / PAYLOAD {
                    v.nt("write_after_backward_seek_crosses_page");
                }
                if partial_flush {
                    v.nt("write_after_flush_of_partial_page");
                }
                m.cursor += d.len();
            }
            WOp::Align => {
                w.align().map_err(|e| format!("{at}: align failed: {e}"))?;
                let pad = (4 - m.cursor % 4) % 4;
                if pad > 0 {
                    if m.stream.len() < m.cursor + pad {
                        m.stream.resize(m.cursor + pad, 0);
                    }
                    for b in &mut m.stream[m.cursor..m.cursor + pad] {
                        *b = 0;
                    }
                    m.cursor += pad;
                }
            }
            WOp::Flush => {
                w.flush().map_err(|e| format!("{at}: flush failed: {e}"))?;
                if m.cursor % PAYLOAD != 0 {
                    partial_flush = true;
                }
                // flushing a partially filled page materialises the whole page
                if m.cursor % PAYLOAD != 0 && m.stream.len() < m.cursor {
                    m.stream.resize(m.cursor, 0);
                }
                check_device(&h, &m, &at)?;
            }
            WOp::Pos => {
                let p = w.physical_position().map_err(|e| format!("{at}: physical_position failed: {e}"))?;
                if p != log_to_phys(m.cursor as u64) {
                    return Err(format!("{at}: physical_position {p}, logical cursor {} translates to {}", m.cursor, log_to_phys(m.cursor as u64)));
                }
            }
            WOp::Size => {
                let s = w.physical_size().map_err(|e| format!("{at}: physical_size failed: {e}"))?;
                if m.cursor % PAYLOAD != 0 && m.stream.len() < m.cursor {
                    m.stream.resize(m.cursor, 0);
                }
                if s != m.phys_size() {
                    return Err(format!("{at}: physical_size {s}, model {}", m.phys_size()));
                }
                check_device(&h, &m, &at)?;
                // position must be unaffected
                let p = w.physical_position().map_err(|e| format!("{at}: physical_position failed: {e}"))?;
                if p != log_to_phys(m.cursor as u64) {
                    return Err(format!("{at}: physical_size moved the cursor to {p}"));
                }
            }
            WOp::Seek(t) => {
                if m.cursor % PAYLOAD != 0 && m.stream.len() < m.cursor {
                    m.stream.resize(m.cursor, 0);
                }
                let p = m.resolve(*t);
                let valid = p <= m.phys_size() && phys_to_log(p).is_some();
                match (w.physical_seek(p), valid) {
                    (Ok(()), true) => {
                        let l = phys_to_log(p).unwrap_or(0) as usize;
                        if l < m.cursor {
                            back_seek = true;
                        }
                        if p == m.phys_size() {
                            v.nt("seek_to_device_end");
                        }
                        m.cursor = l;
                        // seeking into a page materialises it on the next flush only if written; nothing to do
                        check_device(&h, &m, &at)?;
                        let q = w.physical_position().map_err(|e| format!("{at}: physical_position failed: {e}"))?;
                        if q != p {
                            return Err(format!("{at}: physical_position after seek to {p} is {q}"));
                        }
                    }
                    (Err(_), false) => {
                        // a rejected seek writes nothing and moves nothing (apart from the flush it may have done): the history goes on
                        v.nt("invalid_seek_rejected_history_continues");
                        check_device(&h, &m, &at)?;
                        let q = w.physical_position().map_err(|e| format!("{at}: physical_position failed: {e}"))?;
                        if q != log_to_phys(m.cursor as u64) {
                            return Err(format!("{at}: the rejected seek to {p} moved the position from {} to {q}", log_to_phys(m.cursor as u64)));
                        }
                    }
                    (Ok(()), false) => return Err(format!("{at}: seek to invalid position {p} (device size {}) succeeded", m.phys_size())),
                    (Err(e), true) => return Err(format!("{at}: seek to valid position {p} (device size {}) failed: {e}", m.phys_size())),
                }
            }
        }
    }
    drop(w);
    if m.cursor % PAYLOAD != 0 && m.stream.len() < m.cursor {
        m.stream.resize(m.cursor, 0);
    }
    check_device(&h, &m, "after drop")?;
    Ok(m.stream)
}

fn run_reader(stream: &[u8], ops: &[ROp], chunks: &[u16], v: &mut Verdict) -> Result<(), String> {
    if stream.is_empty() {
        return Ok(());
    }
    let file = pages::page(stream);
    let mut log = stream.to_vec();
    log.resize(file.len() / PAGE * PAYLOAD, 0);
    let m = Model { stream: stream.to_vec(), cursor: 0 };
    let rdev = MemDev::with_data(file.clone());
    rdev.st.borrow_mut().chunks = chunks.iter().map(|c| *c as usize).collect();
    let mut r = PagedReader::new(rdev, PAGE as u64).map_err(|e| format!("PagedReader::new: {e}"))?;
    let mut cur = 0usize;
    for (step, op) in ops.iter().enumerate() {
        let at = format!("reader step {step} {op:?}");
        match op {
            ROp::Seek(t) => {
                let p = m.resolve(*t);
                // a position inside the 4 checksum bytes of a page is no position of the logical stream: like the writer
                // the reader must refuse it (and stay where it is); the end itself is valid (reads return 0 there)
                let valid = p <= file.len() as u64 && phys_to_log(p).is_some();
                if phys_to_log(p).is_none() {
                    v.nt("reader_seek_into_a_checksum");
                }
                match (r.seek_physical(p), valid) {
                    (Ok(l), true) => {
                        let want = phys_to_log(p).unwrap_or(0);
                        if l != want {
                            return Err(format!("{at}: seek_physical({p}) returned logical {l}, expected {want}"));
                        }
                        cur = want as usize;
                    }
                    (Err(_), false) => v.label("reader_seek_beyond_end_rejected"),
                    (Ok(_), false) => return Err(format!("{at}: seek_physical({p}) to a position that does not exist (file of {} bytes, checksums are no positions) succeeded", file.len())),
                    (Err(e), true) => return Err(format!("{at}: seek_physical({p}) failed: {e}")),
                }
            }
            ROp::Read(n) => {
                let mut buf = vec![0u8; *n as usize];
                let mut got = 0;
                while got < buf.len() {
                    let k = r.read(&mut buf[got..]).map_err(|e| format!("{at}: read failed: {e}"))?;
                    if k == 0 {
                        break;
                    }
                    got += k;
                }
                let want = &log[cur..(cur + *n as usize).min(log.len())];
                if &buf[..got] != want {
                    return Err(format!("{at}: read at logical {cur} returned {got} bytes differing from the logical stream ({} expected)", want.len()));
                }
                if (cur % PAYLOAD) + got > PAYLOAD {
                    v.nt("read_crosses_page_boundary");
                }
                cur += got;
            }
            ROp::ReadOnce(n) => {
                let mut buf = vec![0u8; *n as usize];
                let k = r.read(&mut buf).map_err(|e| format!("{at}: read failed: {e}"))?;
                if k == 0 && *n > 0 && cur < log.len() {
                    return Err(format!("{at}: read returned 0 bytes before the end (logical {cur} of {})", log.len()));
                }
                if buf[..k] != log[cur..cur + k] {
                    return Err(format!("{at}: read at logical {cur} returned other bytes than the logical stream"));
                }
                cur += k;
            }
            ROp::Align => {
                let next = (cur + 3) / 4 * 4;
                match r.align() {
                    Ok(()) => {
                        if next > log.len() {
                            return Err(format!("{at}: align moved beyond the end of the stream"));
                        }
                        cur = next;
                    }
                    Err(e) => {
                        if next <= log.len() {
                            return Err(format!("{at}: align failed: {e}"));
                        }
                    }
                }
            }
        }
    }
    Ok(())
}

fn target(s: &mut Src) -> Target {
    match s.weighted(&[2, 1, 1, 3, 2, 3, 3, 1, 1, 3]) {
        0 => Target::Zero,
        1 => Target::P44,
        2 => Target::P48,
        3 => Target::CurPageStart,
        4 => Target::LastPageLastPayloadByte,
        5 => Target::LastWrittenByte,
        6 => Target::DeviceEnd,
        7 => Target::InsideChecksum,
        8 => Target::BeyondEnd,
        _ => Target::Abs(s.below(5 * 1024) as u32),
    }
}

fn wlen(s: &mut Src) -> u16 {
    match s.weighted(&[5, 3]) {
        0 => *s.pick(&[0u16, 1, 3, 4, 5, 16, 32, 48, 1019, 1020, 1021, 2039, 2040, 2041]),
        _ => s.below(3001) as u16,
    }
}

impl Check for C11 {
    type Case = Case;
    const ID: &'static str = "C11";
    fn rule() -> String {
        "Histories over {write(n), physical_seek(p), flush, align, physical_position, physical_size, drop} against a byte-vector model: exhaustive \
         to depth 4 (thorough: 5) over a 20-letter alphabet (write lengths 1,3,4,5,48,1019,1020,1021,2041; seeks to 0, 44, current page start, last \
         payload byte of the last page, last written byte, device end, inside a checksum; flush, align, position, size), random histories up to 40 \
         steps beyond (n in {0,1,3,4,5,16,32,48,1019,1020,1021,2039,2040,2041} u random <= 3000; p from the same symbolic targets, beyond the end, \
         or absolute). After every step positions/sizes equal the model; at every flush point the device is whole pages with valid CRC-32C \
         (e57ref, bit-serial) whose payload is the zero-filled logical stream. A rejected (invalid) seek must leave position and device untouched and the history continues. 1 random history in 4 runs on a device that serves short reads and writes. Each resulting stream is \
         then read back through PagedReader under a generated history of {seek_physical, read(n) to completion, single read, align}. \
         Non-trivial: a write after a backward seek crossing a page boundary, a write after a flush of a partial page, a seek to the device end, \
         or a read crossing a page boundary."
            .into()
    }
    fn assumptions() -> Vec<String> {
        vec!["hook: cfg(e57_verif) re-exports PagedWriter/PagedReader unchanged".into(), "nothing is asserted about the writer's state after a failed seek".into()]
    }
    fn budget(t: Tier) -> usize {
        t.pick(300_000, 15_000_000)
    }
    fn fixed(t: Tier) -> Vec<Case> {
        let depth = t.pick(4, 5);
        let mut out = Vec::new();
        let n = ALPHABET.len();
        let total = n.pow(depth as u32);
        let rops = vec![ROp::Read(7), ROp::Seek(Target::Zero), ROp::Read(1021), ROp::Align, ROp::ReadOnce(2000), ROp::Seek(Target::LastWrittenByte), ROp::Read(10), ROp::Read(1)];
        for i in 0..total {
            let mut k = i;
            let mut ops = Vec::with_capacity(depth);
            for _ in 0..depth {
                ops.push(ALPHABET[k % n]);
                k /= n;
            }
            out.push(Case { wops: ops, rops: rops.clone(), chunks: vec![] });
        }
        out
    }
    fn describe_fixed(t: Tier) -> Option<String> {
        Some(format!("all 20^{} writer histories over the 20-letter alphabet, each followed by a fixed reader history", t.pick(4, 5)))
    }
    fn gen(s: &mut Src, _t: Tier) -> Case {
        let n = 1 + s.below(40) as usize;
        let mut wops = Vec::new();
        for _ in 0..n {
            wops.push(match s.weighted(&[8, 4, 2, 2, 1, 1]) {
                0 => WOp::Write(wlen(s)),
                1 => WOp::Seek(target(s)),
                2 => WOp::Flush,
                3 => WOp::Align,
                4 => WOp::Pos,
                _ => WOp::Size,
            });
        }
        let k = s.below(16) as usize;
        let mut rops = Vec::new();
        for _ in 0..k {
            rops.push(match s.weighted(&[4, 4, 2, 2]) {
                0 => ROp::Seek(target(s)),
                1 => ROp::Read(wlen(s)),
                2 => ROp::ReadOnce(wlen(s)),
                _ => ROp::Align,
            });
        }
        let chunks = if s.chance(1, 4) { (0..1 + s.below(3)).map(|_| *s.pick(&[1u16, 3, 100, 512, 1000, 1023, 1024, 1500])).collect() } else { vec![] };
        Case { wops, rops, chunks }
    }
    fn run(case: &Case) -> Verdict {
        let mut v = Verdict::new();
        let mut v2 = Verdict::new();
        match guard(|| run_writer(&case.wops, &case.chunks, &mut v2)) {
            Err(p) => {
                v.fail(format!("page writer panicked: {p}"));
                return v;
            }
            Ok(Err(e)) => {
                v.fail(e);
                return v;
            }
            Ok(Ok(stream)) => {
                v.labels = v2.labels.clone();
                v.nontrivial = v2.nontrivial;
                {
                    let mut v3 = Verdict::new();
                    match guard(|| run_reader(&stream, &case.rops, &case.chunks, &mut v3)) {
                        Err(p) => v.fail(format!("page reader panicked: {p}")),
                        Ok(Err(e)) => v.fail(e),
                        Ok(Ok(())) => {
                            for l in v3.labels {
                                v.label(&l);
                            }
                            v.nontrivial |= v3.nontrivial;
                        }
                    }
                }
            }
        }
        v
    }
}
