//! C17 - read operations are independent of what was read before.
use crate::c15::small_program;
use crate::dev::MemDev;
use crate::kit::{guard, Check, Src, Tier, Verdict};
use crate::prog::{self, Program, Trace};
use crate::rops::{gen_op, run_op, OpOut, ReadOp};
use e57::E57Reader;
use serde::{Deserialize, Serialize};

pub struct C17;

#[derive(Clone, Debug, Serialize, Deserialize)]
pub enum Damage {
    /// flip a bit of the page payload without fixing the checksum
    Unsealed { page: u8, byte: u16, bit: u8 },
    /// overwrite a byte at a logical offset and re-seal the page
    Resealed { page: u8, byte: u16, value: u8 },
    /// overwrite a field of the section header of point cloud `cloud` (1 section length, 2 data offset, 3 index offset)
    /// and re-seal the pages: values beyond the file, inside a checksum, zero, ...
    CloudHeader { cloud: u8, field: u8, value: u64 },
    /// flip a bit of the 48-byte file header (without fixing the checksum of page 0); the file need not open any more
    HeaderBit { byte: u8, bit: u8 },
}

#[derive(Clone, Serialize, Deserialize)]
pub struct Case {
    pub program: Program,
    pub damage: Vec<Damage>,
    pub ops: Vec<ReadOp>,
    /// a transient device problem on the used reader: one device operation (selector modulo the number of operations the
    /// sequence needs) reports an error of kind `.1`, while transfers are served in chunks of the sizes `.2`
    #[serde(default)]
    pub fault: Option<(u32, u8, Vec<u16>)>,
}

pub fn damaged(bytes: &[u8], damage: &[Damage]) -> Vec<u8> {
    damaged_with(bytes, damage, &[])
}

/// `sections`: physical offsets of the point cloud sections (for `Damage::CloudHeader`).
pub fn damaged_with(bytes: &[u8], damage: &[Damage], sections: &[u64]) -> Vec<u8> {
    let mut b = bytes.to_vec();
    let pages = b.len() / 1024;
    for d in damage {
        match d {
            Damage::Unsealed { page, byte, bit } => {
                // never the first page's header bytes (the file must still open) and never the XML-only tail
                let pg = (*page as usize) % pages.max(1);
                let off = pg * 1024 + (*byte as usize % 1020).max(if pg == 0 { 48 } else { 0 });
                b[off] ^= 1 << (bit % 8);
            }
            Damage::HeaderBit { byte, bit } => {
                let at = *byte as usize % 48;
                if at < b.len() {
                    b[at] ^= 1 << (bit % 8);
                }
            }
            Damage::CloudHeader { cloud, field, value } => {
                if sections.is_empty() {
                    continue;
                }
                let start = sections[*cloud as usize % sections.len()] + 8 * (*field as u64 % 3 + 1);
                // the 8 bytes of the field, skipping checksum bytes when the header straddles a page
                let mut p = start;
                for v in value.to_le_bytes() {
                    if p % 1024 >= 1020 {
                        p += 4;
                    }
                    if (p as usize) < b.len() {
                        b[p as usize] = v;
                    }
                    p += 1;
                }
                for pg in [start / 1024, p / 1024] {
                    let at = pg as usize * 1024;
                    if at + 1024 <= b.len() {
                        e57ref::pages::reseal(&mut b[at..at + 1024]);
                    }
                }
            }
            Damage::Resealed { page, byte, value } => {
                let pg = (*page as usize) % pages.max(1);
                let off = pg * 1024 + (*byte as usize % 1020).max(if pg == 0 { 48 } else { 0 });
                b[off] = *value;
                e57ref::pages::reseal(&mut b[pg * 1024..pg * 1024 + 1024]);
            }
        }
    }
    b
}

fn fresh(bytes: &[u8], free: &[(u64, u64)], op: &ReadOp) -> Result<OpOut, String> {
    let mut rd = E57Reader::new(MemDev::with_data(bytes.to_vec())).map_err(|e| e.to_string())?;
    Ok(run_op(&mut rd, op, free))
}

impl Check for C17 {
    type Case = Case;
    const ID: &'static str = "C17";
    fn rule() -> String {
        "Files with several point clouds, blobs and images from the writer generator (1 in 4 of medium size: sections start up to 110 pages into the file), optionally damaged (bit flips in page payload without \
         re-sealing => checksum failures; byte overwrites with re-sealed checksum => damaged sections; section header fields of a point cloud set to zero, into a checksum, beyond the file) as long as the file still opens; x sequences \
         of up to 12 read operations {xml, descriptors, raw(i, take k), simple(i, options, take k), blob(j), blob(j) into a target with limited room that fails or reports Ok(0) when full} with arbitrary early termination on ONE \
         reader. 1 sequence in 5 runs on a device that serves short transfers and reports ONE transient error at a generated operation index: the operation in progress may fail, all later ones must be unaffected. Oracle: the result of every operation (hash of every Ok item in order, completion, error message) equals the result of the same \
         operation on a freshly opened reader. Non-trivial: sequence with an iterator abandoned early followed by another operation, or a failing \
         operation followed by another operation."
            .into()
    }
    fn budget(t: Tier) -> usize {
        t.pick(60_000, 6_000_000)
    }
    fn gen(s: &mut Src, _t: Tier) -> Case {
        let mut program = small_program(s);
        if s.chance(1, 4) {
            // a medium sized file: the sections of the small program start 1..70 pages into the file
            let len = 1020 * (1 + s.below(70)) as u32 - *s.pick(&[0u32, 0, 16, 48, 52, 500]);
            program.ops.insert(0, prog::Op::Blob(crate::gen::BlobSpec { len, seed: 5, chunk: 0, xmlish: false }));
            if s.flag() {
                let len2 = 1020 * (1 + s.below(40)) as u32 + s.below(1020) as u32;
                let at = 1 + s.below(program.ops.len() as u64) as usize;
                program.ops.insert(at, prog::Op::Blob(crate::gen::BlobSpec { len: len2, seed: 6, chunk: 0, xmlish: false }));
            }
        }
        let nd = s.weighted(&[3, 2, 1]);
        let damage = (0..nd)
            .map(|_| match s.weighted(&[4, 4, 2]) {
                0 => Damage::Unsealed { page: s.byte(), byte: s.u16(), bit: s.byte() },
                1 => Damage::Resealed { page: s.byte(), byte: s.u16(), value: s.byte() },
                _ => Damage::CloudHeader { cloud: s.byte(), field: s.below(3) as u8, value: *s.pick(&[0u64, 1, 47, 1020, 1022, 2044, 1 << 20, 1 << 40, u64::MAX, u64::MAX - 1023]) },
            })
            .collect();
        let n = 2 + s.below(11) as usize;
        let ops = (0..n).map(|_| gen_op(s)).collect();
        let fault = if s.chance(1, 5) { Some((s.u32(), s.byte(), (0..1 + s.below(3)).map(|_| *s.pick(&[1u16, 100, 300, 511, 1000, 1023, 4000])).collect())) } else { None };
        Case { program, damage, ops, fault }
    }
    fn run(case: &Case) -> Verdict {
        let mut v = Verdict::new();
        let dev = MemDev::new();
        let h = dev.handle();
        let mut tr = Trace::default();
        if guard(|| prog::exec(&case.program, dev, &mut tr)).is_err() || tr.error.is_some() || !tr.finalized {
            v.label("writer_error_out_of_scope");
            return v;
        }
        let intact = h.bytes();
        let sections: Vec<u64> = guard(|| E57Reader::new(MemDev::with_data(intact.clone())).map(|r| r.pointclouds().iter().map(|p| p.file_offset).collect()).unwrap_or_default()).unwrap_or_default();
        let bytes = damaged_with(&intact, &case.damage, &sections);
        let free = tr.blobs.clone();
        if !case.damage.is_empty() {
            v.label("damaged_file");
        }
        // a transient device fault: count the device operations of the sequence on a healthy device first
        let mut fault_at: Option<usize> = None;
        if let Some((sel, _, chunks)) = &case.fault {
            let dev = MemDev::with_data(bytes.clone());
            dev.st.borrow_mut().chunks = chunks.iter().map(|c| *c as usize).collect();
            let h = dev.handle();
            let _ = guard(|| {
                if let Ok(mut rd) = E57Reader::new(dev) {
                    for op in &case.ops {
                        let _ = run_op(&mut rd, op, &free);
                    }
                }
            });
            let n = h.st.borrow().ops;
            if n > 0 {
                fault_at = Some(*sel as usize % n);
            }
        }
        let r = guard(|| -> Result<(), String> {
            let dev = MemDev::with_data(bytes.clone());
            if let (Some(k), Some((_, kind, chunks))) = (fault_at, &case.fault) {
                let mut st = dev.st.borrow_mut();
                st.chunks = chunks.iter().map(|c| *c as usize).collect();
                st.fault_at = Some((k, if kind % 3 == 0 { crate::dev::FaultKind::Hard } else { crate::dev::FaultKind::Kind(*kind) }));
            }
            let h = dev.handle();
            let mut rd = match E57Reader::new(dev) {
                Ok(r) => r,
                Err(_) => return Ok(()), // damage hit the XML (or the device failed during open): nothing to compare
            };
            let mut prev_failed = false;
            let mut prev_abandoned = false;
            for (i, op) in case.ops.iter().enumerate() {
                let fired_before = h.fault_fired();
                let got = run_op(&mut rd, op, &free);
                let want = fresh(&bytes, &free, op).map_err(|e| format!("fresh reader cannot open the file: {e}"))?;
                if !fired_before && h.fault_fired() {
                    // the device failed during this very operation: it may fail (C16), or still deliver the right result
                    // (skip / step_by discard the items they pass over, errors included: nothing is asserted for a strided
                    // iteration during which the device failed)
                    if got.err.is_some() || got == want || matches!(op, ReadOp::Stride { .. }) {
                        prev_failed = got.err.is_some();
                        prev_abandoned = false;
                        if got.err.is_some() {
                            v.nt("operation_after_a_transient_device_error");
                        }
                        continue;
                    }
                }
                if got != want {
                    return Err(format!(
                        "operation {i} {op:?} after {:?}: {} items, completed={}, err={:?}; on a fresh reader: {} items, completed={}, err={:?}",
                        &case.ops[..i],
                        got.items.len(),
                        got.completed,
                        got.err,
                        want.items.len(),
                        want.completed,
                        want.err
                    ));
                }
                if i > 0 && prev_failed {
                    v.nt("operation_after_failed_operation");
                }
                if i > 0 && prev_abandoned {
                    v.nt("operation_after_abandoned_iterator");
                }
                prev_failed = got.err.is_some();
                prev_abandoned = !got.completed && got.err.is_none();
            }
            Ok(())
        });
        match r {
            Err(p) => v.fail(format!("reader panicked: {p}")),
            Ok(Err(e)) => v.fail(e),
            Ok(Ok(())) => {}
        }
        v
    }
}
