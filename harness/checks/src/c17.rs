//! C17 - read operations are independent of what was read before.
use crate::c15::small_program;
use crate::dev::MemDev;
use crate::kit::{guard, Check, Src, Tier, Verdict};
use crate::prog::{self, Program, Trace};
use crate::rops::{gen_op, run_op, OpOut, ReadOp};
use e57::E57Reader;
use serde::{Deserialize, Serialize};

pub struct C17;

#[derive(Clone, Debug, Serialize, Deserialize)]
pub enum Damage {
    /// flip a bit of the page payload without fixing the checksum
    Unsealed { page: u8, byte: u16, bit: u8 },
    /// overwrite a byte at a logical offset and re-seal the page
    Resealed { page: u8, byte: u16, value: u8 },
}

#[derive(Clone, Serialize, Deserialize)]
pub struct Case {
    pub program: Program,
    pub damage: Vec<Damage>,
    pub ops: Vec<ReadOp>,
}

pub fn damaged(bytes: &[u8], damage: &[Damage]) -> Vec<u8> {
    let mut b = bytes.to_vec();
    let pages = b.len() / 1024;
    for d in damage {
        match d {
            Damage::Unsealed { page, byte, bit } => {
                // never the first page's header bytes (the file must still open) and never the XML-only tail
                let pg = (*page as usize) % pages.max(1);
                let off = pg * 1024 + (*byte as usize % 1020).max(if pg == 0 { 48 } else { 0 });
                b[off] ^= 1 << (bit % 8);
            }
            Damage::Resealed { page, byte, value } => {
                let pg = (*page as usize) % pages.max(1);
                let off = pg * 1024 + (*byte as usize % 1020).max(if pg == 0 { 48 } else { 0 });
                b[off] = *value;
                e57ref::pages::reseal(&mut b[pg * 1024..pg * 1024 + 1024]);
            }
        }
    }
    b
}

fn fresh(bytes: &[u8], free: &[(u64, u64)], op: &ReadOp) -> Result<OpOut, String> {
    let mut rd = E57Reader::new(MemDev::with_data(bytes.to_vec())).map_err(|e| e.to_string())?;
    Ok(run_op(&mut rd, op, free))
}

impl Check for C17 {
    type Case = Case;
    const ID: &'static str = "C17";
    fn rule() -> String {
        "Files with several point clouds, blobs and images from the writer generator, optionally damaged (bit flips in page payload without \
         re-sealing => checksum failures; byte overwrites with re-sealed checksum => damaged sections) as long as the file still opens; x sequences \
         of up to 12 read operations {xml, descriptors, raw(i, take k), simple(i, options, take k), blob(j), blob(j) into a target with limited room that fails or reports Ok(0) when full} with arbitrary early termination on ONE \
         reader. Oracle: the result of every operation (hash of every Ok item in order, completion, error message) equals the result of the same \
         operation on a freshly opened reader. Non-trivial: sequence with an iterator abandoned early followed by another operation, or a failing \
         operation followed by another operation."
            .into()
    }
    fn budget(t: Tier) -> usize {
        t.pick(60_000, 6_000_000)
    }
    fn gen(s: &mut Src, _t: Tier) -> Case {
        let program = small_program(s);
        let nd = s.weighted(&[3, 2, 1]);
        let damage = (0..nd)
            .map(|_| if s.flag() { Damage::Unsealed { page: s.byte(), byte: s.u16(), bit: s.byte() } } else { Damage::Resealed { page: s.byte(), byte: s.u16(), value: s.byte() } })
            .collect();
        let n = 2 + s.below(11) as usize;
        let ops = (0..n).map(|_| gen_op(s)).collect();
        Case { program, damage, ops }
    }
    fn run(case: &Case) -> Verdict {
        let mut v = Verdict::new();
        let dev = MemDev::new();
        let h = dev.handle();
        let mut tr = Trace::default();
        if guard(|| prog::exec(&case.program, dev, &mut tr)).is_err() || tr.error.is_some() || !tr.finalized {
            v.label("writer_error_out_of_scope");
            return v;
        }
        let bytes = damaged(&h.bytes(), &case.damage);
        let free = tr.blobs.clone();
        if !case.damage.is_empty() {
            v.label("damaged_file");
        }
        let r = guard(|| -> Result<(), String> {
            let mut rd = match E57Reader::new(MemDev::with_data(bytes.clone())) {
                Ok(r) => r,
                Err(_) => return Ok(()), // damage hit the XML: nothing to compare
            };
            let mut prev_failed = false;
            let mut prev_abandoned = false;
            for (i, op) in case.ops.iter().enumerate() {
                let got = run_op(&mut rd, op, &free);
                let want = fresh(&bytes, &free, op).map_err(|e| format!("fresh reader cannot open the file: {e}"))?;
                if got != want {
                    return Err(format!(
                        "operation {i} {op:?} after {:?}: {} items, completed={}, err={:?}; on a fresh reader: {} items, completed={}, err={:?}",
                        &case.ops[..i],
                        got.items.len(),
                        got.completed,
                        got.err,
                        want.items.len(),
                        want.completed,
                        want.err
                    ));
                }
                if i > 0 && prev_failed {
                    v.nt("operation_after_failed_operation");
                }
                if i > 0 && prev_abandoned {
                    v.nt("operation_after_abandoned_iterator");
                }
                prev_failed = got.err.is_some();
                prev_abandoned = !got.completed && got.err.is_none();
            }
            Ok(())
        });
        match r {
            Err(p) => v.fail(format!("reader panicked: {p}")),
            Ok(Err(e)) => v.fail(e),
            Ok(Ok(())) => {}
        }
        v
    }
}
