//! Structure-aware mutation of valid files (C08 / C09): header fields, XML
//! numbers / types / attributes / structure, section and packet header
//! fields, stream lengths, payload bits, truncation and extension, with the
//! page checksums re-sealed so that the mutations reach the parsers.
use crate::c03::{build_scene, scene_spec};
use crate::c15::small_program;
use crate::dev::MemDev;
use crate::gen;
use crate::kit::{guard, Src};
use crate::prog::{self, GenOpts, Program, Trace};
use e57ref::encode::{encode, Layout};
use e57ref::pages;
use serde::{Deserialize, Serialize};

#[derive(Clone, Debug, Serialize, Deserialize)]
pub enum Seed {
    Written(Program),
    Encoded { scene: Program, layout: Layout },
    Bundled(String),
    /// hand-built, spec-conforming file: one cloud with a 1-bit record followed by `consts` constant records
    /// (minimum = maximum) and ONE data packet holding `points` points
    ConstHeavy { consts: u16, points: u32 },
    /// hand-built file: a prototype of `records` full-range integer records and a section that consists of `packets`
    /// ignored packets of the minimum size (4 bytes) and no data packet
    TinyPackets { records: u32, packets: u32 },
    /// hand-built file without point clouds whose root element declares `on_root` namespaces and contains `leaves`
    /// empty elements that declare one more each; attributes are separated by the white space character number `sep`
    /// (space, line feed, tab, carriage return)
    ManyNamespaces { on_root: u16, leaves: u32, sep: u8 },
    /// hand-built file whose root element declares `namespaces` extension namespaces with URIs of `uri_len` bytes that
    /// differ only in their last characters, and one empty point cloud whose prototype has `records` constant records
    /// in the namespace declared last
    LongNamespaceRecords { namespaces: u16, uri_len: u32, records: u32 },
    /// hand-built file without point clouds whose file GUID (a String element) is written as `pieces` pieces of
    /// character data: alternately an empty CDATA section and `piece_len` characters of plain text (`kind` 0), or CDATA
    /// sections separated by a carriage return reference as the crate's own writer splits strings (`kind` 1); `kind` 2 is
    /// `kind` 0 followed by a comment that contains a CR LF line end
    SplitText { pieces: u32, piece_len: u16, kind: u8 },
}

fn xml_only_file(xml: &str) -> Vec<u8> {
    let xml_log = 48u64;
    let total_log = xml_log + xml.len() as u64;
    let pages_n = (total_log + 1019) / 1020;
    let mut log = vec![0u8; 48];
    log[0..8].copy_from_slice(b"ASTM-E57");
    log[8..12].copy_from_slice(&1u32.to_le_bytes());
    log[16..24].copy_from_slice(&(pages_n * 1024).to_le_bytes());
    log[24..32].copy_from_slice(&pages::log_to_phys(xml_log).to_le_bytes());
    log[32..40].copy_from_slice(&(xml.len() as u64).to_le_bytes());
    log[40..48].copy_from_slice(&1024u64.to_le_bytes());
    log.extend_from_slice(xml.as_bytes());
    pages::page(&log)
}

/// See `Seed::SplitText`.
pub fn split_text_file(pieces: usize, piece_len: usize, kind: u8) -> Vec<u8> {
    let mut xml = String::from("<?xml version=\"1.0\" encoding=\"UTF-8\"?>\n<e57Root type=\"Structure\" xmlns=\"http://www.astm.org/COMMIT/E57/2010-e57-v1.0\">\n<formatName type=\"String\"><![CDATA[ASTM E57 3D Imaging Data File]]></formatName>\n<guid type=\"String\">");
    let plain = "x".repeat(piece_len);
    for _ in 0..pieces {
        if kind != 1 {
            xml.push_str("<![CDATA[]]>");
            xml.push_str(&plain);
        } else {
            xml.push_str("<![CDATA[");
            xml.push_str(&plain);
            xml.push_str("]]>&#13;");
        }
    }
    if kind == 2 {
        // a carriage return outside character data (the line ends of the whole document are normalised, not only those of text)
        xml.push_str("</guid>\n<!-- a comment\r\nof two lines -->");
    } else {
        xml.push_str("</guid>");
    }
    xml.push_str("\n<versionMajor type=\"Integer\">1</versionMajor>\n<versionMinor type=\"Integer\">0</versionMinor>\n<data3D type=\"Vector\" allowHeterogeneousChildren=\"1\"/>\n<images2D type=\"Vector\" allowHeterogeneousChildren=\"1\"/>\n</e57Root>\n");
    xml_only_file(&xml)
}

/// See `Seed::LongNamespaceRecords`.
pub fn long_namespace_records_file(namespaces: usize, uri_len: usize, records: usize) -> Vec<u8> {
    let section_log = 48u64;
    let xml_log = section_log + 32;
    let mut xml = String::from("<?xml version=\"1.0\" encoding=\"UTF-8\"?>\n<e57Root type=\"Structure\" xmlns=\"http://www.astm.org/COMMIT/E57/2010-e57-v1.0\"");
    let stem = "u".repeat(uri_len.saturating_sub(8).max(1));
    for i in 0..namespaces.max(1) {
        xml.push_str(&format!(" xmlns:p{i}=\"urn:{stem}{i:05}\""));
    }
    let last = namespaces.max(1) - 1;
    xml.push_str(">\n<formatName type=\"String\"><![CDATA[ASTM E57 3D Imaging Data File]]></formatName>\n<guid type=\"String\"><![CDATA[{long-namespaces}]]></guid>\n<versionMajor type=\"Integer\">1</versionMajor>\n<versionMinor type=\"Integer\">0</versionMinor>\n<data3D type=\"Vector\" allowHeterogeneousChildren=\"1\">\n<vectorChild type=\"Structure\">\n<guid type=\"String\"><![CDATA[{cloud}]]></guid>\n");
    xml.push_str(&format!("<points type=\"CompressedVector\" fileOffset=\"{}\" recordCount=\"0\">\n<prototype type=\"Structure\">\n", pages::log_to_phys(section_log)));
    for i in 0..records {
        xml.push_str(&format!("<p{last}:r{i} type=\"Integer\" minimum=\"7\" maximum=\"7\"/>\n"));
    }
    xml.push_str("</prototype>\n<codecs type=\"Vector\" allowHeterogeneousChildren=\"1\"/>\n</points>\n</vectorChild>\n</data3D>\n<images2D type=\"Vector\" allowHeterogeneousChildren=\"1\"/>\n</e57Root>\n");
    let total_log = xml_log + xml.len() as u64;
    let pages_n = (total_log + 1019) / 1020;
    let mut log = vec![0u8; 48];
    log[0..8].copy_from_slice(b"ASTM-E57");
    log[8..12].copy_from_slice(&1u32.to_le_bytes());
    log[16..24].copy_from_slice(&(pages_n * 1024).to_le_bytes());
    log[24..32].copy_from_slice(&pages::log_to_phys(xml_log).to_le_bytes());
    log[32..40].copy_from_slice(&(xml.len() as u64).to_le_bytes());
    log[40..48].copy_from_slice(&1024u64.to_le_bytes());
    let mut sec = vec![0u8; 32];
    sec[0] = 1;
    sec[8..16].copy_from_slice(&32u64.to_le_bytes());
    sec[16..24].copy_from_slice(&pages::log_to_phys(xml_log).to_le_bytes());
    log.extend_from_slice(&sec);
    log.extend_from_slice(xml.as_bytes());
    pages::page(&log)
}

/// See `Seed::ManyNamespaces`.
pub fn many_namespaces_file(on_root: usize, leaves: usize, sep: u8) -> Vec<u8> {
    let sp = [' ', '\n', '\t', '\r'][sep as usize % 4];
    let mut xml = String::from("<?xml version=\"1.0\" encoding=\"UTF-8\"?>\n<e57Root type=\"Structure\" xmlns=\"http://www.astm.org/COMMIT/E57/2010-e57-v1.0\"");
    for i in 0..on_root {
        xml.push(sp);
        xml.push_str(&format!("xmlns:p{i}=\"urn:verif:ns:{i}\""));
    }
    xml.push_str(">\n<formatName type=\"String\"><![CDATA[ASTM E57 3D Imaging Data File]]></formatName>\n<guid type=\"String\"><![CDATA[{many-namespaces}]]></guid>\n<versionMajor type=\"Integer\">1</versionMajor>\n<versionMinor type=\"Integer\">0</versionMinor>\n<data3D type=\"Vector\" allowHeterogeneousChildren=\"1\"/>\n<images2D type=\"Vector\" allowHeterogeneousChildren=\"1\"/>\n");
    for _ in 0..leaves {
        xml.push_str("<p0:a");
        xml.push(sp);
        xml.push_str("xmlns:q=\"u\"/>");
    }
    xml.push_str("</e57Root>\n");
    let xml_log = 48u64;
    let total_log = xml_log + xml.len() as u64;
    let pages_n = (total_log + 1019) / 1020;
    let mut log = vec![0u8; 48];
    log[0..8].copy_from_slice(b"ASTM-E57");
    log[8..12].copy_from_slice(&1u32.to_le_bytes());
    log[16..24].copy_from_slice(&(pages_n * 1024).to_le_bytes());
    log[24..32].copy_from_slice(&pages::log_to_phys(xml_log).to_le_bytes());
    log[32..40].copy_from_slice(&(xml.len() as u64).to_le_bytes());
    log[40..48].copy_from_slice(&1024u64.to_le_bytes());
    log.extend_from_slice(xml.as_bytes());
    pages::page(&log)
}

/// See `Seed::TinyPackets`.
pub fn tiny_packets_file(records: usize, packets: usize) -> Vec<u8> {
    let section_log = 48u64;
    let packet_log = section_log + 32;
    let body_len = packets * 4;
    let xml_log = packet_log + body_len as u64;
    let mut xml = String::from("<?xml version=\"1.0\" encoding=\"UTF-8\"?>\n<e57Root type=\"Structure\" xmlns=\"http://www.astm.org/COMMIT/E57/2010-e57-v1.0\" xmlns:k=\"urn:verif:tiny\">\n<formatName type=\"String\"><![CDATA[ASTM E57 3D Imaging Data File]]></formatName>\n<guid type=\"String\"><![CDATA[{tiny-packets}]]></guid>\n<versionMajor type=\"Integer\">1</versionMajor>\n<versionMinor type=\"Integer\">0</versionMinor>\n<data3D type=\"Vector\" allowHeterogeneousChildren=\"1\">\n<vectorChild type=\"Structure\">\n<guid type=\"String\"><![CDATA[{cloud}]]></guid>\n");
    xml.push_str(&format!("<points type=\"CompressedVector\" fileOffset=\"{}\" recordCount=\"5\">\n<prototype type=\"Structure\">\n", pages::log_to_phys(section_log)));
    for i in 0..records {
        xml.push_str(&format!("<k:r{i} type=\"Integer\"/>\n"));
    }
    xml.push_str("</prototype>\n<codecs type=\"Vector\" allowHeterogeneousChildren=\"1\"/>\n</points>\n</vectorChild>\n</data3D>\n<images2D type=\"Vector\" allowHeterogeneousChildren=\"1\"/>\n</e57Root>\n");
    let total_log = xml_log + xml.len() as u64;
    let pages_n = (total_log + 1019) / 1020;
    let mut log = vec![0u8; 48];
    log[0..8].copy_from_slice(b"ASTM-E57");
    log[8..12].copy_from_slice(&1u32.to_le_bytes());
    log[16..24].copy_from_slice(&(pages_n * 1024).to_le_bytes());
    log[24..32].copy_from_slice(&pages::log_to_phys(xml_log).to_le_bytes());
    log[32..40].copy_from_slice(&(xml.len() as u64).to_le_bytes());
    log[40..48].copy_from_slice(&1024u64.to_le_bytes());
    let mut sec = vec![0u8; 32];
    sec[0] = 1;
    sec[8..16].copy_from_slice(&(32 + body_len as u64).to_le_bytes());
    sec[16..24].copy_from_slice(&pages::log_to_phys(packet_log).to_le_bytes());
    log.extend_from_slice(&sec);
    log.reserve(body_len + xml.len());
    for _ in 0..packets {
        // ignored packet: type 2, reserved 0, length - 1 = 3
        log.extend_from_slice(&[2, 0, 3, 0]);
    }
    log.extend_from_slice(xml.as_bytes());
    pages::page(&log)
}

/// See `Seed::ConstHeavy`.
pub fn const_heavy_file(consts: usize, points: usize) -> Vec<u8> {
    let streams = consts + 1;
    let data_len = (points + 7) / 8;
    let mut packet: Vec<u8> = vec![1, 0, 0, 0];
    packet.extend_from_slice(&(streams as u16).to_le_bytes());
    packet.extend_from_slice(&(data_len as u16).to_le_bytes());
    for _ in 0..consts {
        packet.extend_from_slice(&0u16.to_le_bytes());
    }
    packet.extend((0..data_len).map(|i| (i * 37 % 251) as u8));
    while packet.len() % 4 != 0 {
        packet.push(0);
    }
    let plen = (packet.len() - 1) as u16;
    packet[2..4].copy_from_slice(&plen.to_le_bytes());
    let section_log = 48u64;
    let packet_log = section_log + 32;
    let xml_log = packet_log + packet.len() as u64;
    let mut xml = String::from("<?xml version=\"1.0\" encoding=\"UTF-8\"?>\n<e57Root type=\"Structure\" xmlns=\"http://www.astm.org/COMMIT/E57/2010-e57-v1.0\" xmlns:k=\"urn:verif:const\">\n<formatName type=\"String\"><![CDATA[ASTM E57 3D Imaging Data File]]></formatName>\n<guid type=\"String\"><![CDATA[{const-heavy}]]></guid>\n<versionMajor type=\"Integer\">1</versionMajor>\n<versionMinor type=\"Integer\">0</versionMinor>\n<data3D type=\"Vector\" allowHeterogeneousChildren=\"1\">\n<vectorChild type=\"Structure\">\n<guid type=\"String\"><![CDATA[{cloud}]]></guid>\n");
    xml.push_str(&format!("<points type=\"CompressedVector\" fileOffset=\"{}\" recordCount=\"{points}\">\n<prototype type=\"Structure\">\n<rowIndex type=\"Integer\" minimum=\"0\" maximum=\"1\"/>\n", pages::log_to_phys(section_log)));
    for i in 0..consts {
        xml.push_str(&format!("<k:c{i} type=\"Integer\" minimum=\"7\" maximum=\"7\"/>\n"));
    }
    xml.push_str("</prototype>\n<codecs type=\"Vector\" allowHeterogeneousChildren=\"1\"/>\n</points>\n</vectorChild>\n</data3D>\n<images2D type=\"Vector\" allowHeterogeneousChildren=\"1\"/>\n</e57Root>\n");
    let total_log = xml_log + xml.len() as u64;
    let pages_n = (total_log + 1019) / 1020;
    let mut log = vec![0u8; 48];
    log[0..8].copy_from_slice(b"ASTM-E57");
    log[8..12].copy_from_slice(&1u32.to_le_bytes());
    log[16..24].copy_from_slice(&(pages_n * 1024).to_le_bytes());
    log[24..32].copy_from_slice(&pages::log_to_phys(xml_log).to_le_bytes());
    log[32..40].copy_from_slice(&(xml.len() as u64).to_le_bytes());
    log[40..48].copy_from_slice(&1024u64.to_le_bytes());
    let mut sec = vec![0u8; 32];
    sec[0] = 1;
    sec[8..16].copy_from_slice(&(32 + packet.len() as u64).to_le_bytes());
    sec[16..24].copy_from_slice(&pages::log_to_phys(packet_log).to_le_bytes());
    log.extend_from_slice(&sec);
    log.extend_from_slice(&packet);
    log.extend_from_slice(xml.as_bytes());
    pages::page(&log)
}

#[derive(Clone, Debug, Serialize, Deserialize)]
pub enum Mut {
    /// file header field 0..4 = physLength, xmlOffset, xmlLength, pageSize
    Header { field: u8, value: u64 },
    /// header field set relative to the real file length
    HeaderRel { field: u8, delta: i16 },
    /// two header fields that lie consistently: the XML length is set to `xml_length` and the physical file length to
    /// XML offset + `xml_length` + `slack`, so that the XML section still "fits into the file"
    HeaderLengths { xml_length: u64, slack: u16 },
    /// section header field (1 length, 2 data offset, 3 index offset) set relative to the real file length
    SectionRel { nth: u8, field: u8, delta: i16 },
    /// every stream length of a data packet set to zero
    PacketZeroStreams { cloud: u8, nth: u8 },
    /// a data packet overwritten by a chain of overlapping data packet headers: each declares a packet length of
    /// `step` bytes (just its own header) while its first byte stream covers the rest of the chain, so that the
    /// bytes at start + declared length parse as the next header
    PacketChain { cloud: u8, nth: u8, step: u8 },
    /// XML length attribute of a blob and its section header length inflated consistently
    BlobInflate { nth: u8, length: u64 },
    /// replace the nth numeric token of the XML
    XmlNumber { nth: u16, with: String },
    /// set the nth occurrence of an attribute
    XmlAttr { name: String, nth: u16, value: String },
    /// replace the nth type="..." value
    XmlType { nth: u16, with: String },
    /// delete / duplicate the nth leaf-like element
    XmlDelete { nth: u16 },
    XmlDuplicate { nth: u16 },
    /// maximum := minimum on the nth element that has both (all = every such element)
    XmlMinEqMax { nth: u16, all: bool },
    /// add `count` fixed-value integer records to the first prototype
    XmlAddRecords { count: u16 },
    /// the first prototype loses all its records and the record count of its cloud is set to `count`
    HollowCloud { count: String },
    XmlDeepNest { depth: u32 },
    /// deep nesting whose end tags a careless scanner sees inside comments: groups of `width` start tags, then a
    /// comment that opens with one of the shortest spellings (`<!-->`, `<!--->`) and contains `width` end tags; the
    /// real end tags follow at the very end (real depth = groups x width)
    XmlDeepNestHidden { groups: u32, width: u8, opener: u8 },
    /// a DOCTYPE with an internal entity of `size` bytes (optionally nested `levels` deep) that is referenced `refs`
    /// times in an attribute value and in element text
    XmlEntities { size: u16, refs: u16, levels: u8 },
    /// remove everything between the start and end tag of the nth container element
    XmlDeleteChildren { nth: u16 },
    XmlGarbage { at: u16, text: String },
    /// compressed vector section header: 0 id, 1 length, 2 data offset, 3 index offset
    Section { nth: u8, field: u8, value: u64 },
    /// packet header byte/word: 0 type, 1 flags, 2 length, 3 stream count, 4+k length of stream k
    Packet { cloud: u8, nth: u8, field: u8, value: u16 },
    /// blob section header: 0 id, 1 length
    BlobHeader { nth: u8, field: u8, value: u64 },
    FlipBit { pos: u32, bit: u8 },
    TruncatePages { keep: u8 },
    TruncateBytes { drop: u16 },
    Extend { bytes: u16 },
}

#[derive(Clone, Debug, Serialize, Deserialize)]
pub struct Script {
    pub seed: Seed,
    pub muts: Vec<Mut>,
    pub reseal: bool,
}

pub fn seed_bytes(s: &Seed) -> Result<Vec<u8>, String> {
    match s {
        Seed::Written(p) => {
            let dev = MemDev::new();
            let h = dev.handle();
            let mut tr = Trace::default();
            match guard(|| prog::exec(p, dev, &mut tr)) {
                Ok(()) if tr.finalized => Ok(h.bytes()),
                _ => Err("seed program did not finalize".into()),
            }
        }
        Seed::Encoded { scene, layout } => encode(&build_scene(scene), layout).map(|e| e.bytes),
        Seed::Bundled(n) => crate::preflight::bundled(n),
        Seed::ConstHeavy { consts, points } => Ok(const_heavy_file(*consts as usize, (*points as usize).min(440_000))),
        Seed::ManyNamespaces { on_root, leaves, sep } => Ok(many_namespaces_file((*on_root as usize).min(5000), (*leaves as usize).min(300_000), *sep)),
        Seed::LongNamespaceRecords { namespaces, uri_len, records } => Ok(long_namespace_records_file((*namespaces as usize).min(600), (*uri_len as usize).min(30_000), (*records as usize).min(200_000))),
        Seed::SplitText { pieces, piece_len, kind } => Ok(split_text_file((*pieces as usize).min(1_000_000), (*piece_len as usize).min(4096), *kind)),
        Seed::TinyPackets { records, packets } => Ok(tiny_packets_file((*records as usize).min(30_000), (*packets as usize).min(8_000_000))),
    }
}

const NUMS: [&str; 22] = [
    "NaN", "inf", "-inf", "-1", "0", "1", "9223372036854775807", "9223372036854775808", "-9223372036854775808", "18446744073709551615", "18446744073709551616", "1e400", "-1e400",
    "1e-400", "", "abc", "4294967296", "0x10", "1.5", "-0", "65536", "3",
];

/// Text that is not a number: a run of digits of any length followed by characters of 2, 3 or 4 UTF-8 bytes,
/// so that every byte offset up to ~70 falls inside a multi-byte character in some case.
fn odd_text(s: &mut Src) -> String {
    let mut t = "7".repeat(s.below(72) as usize);
    for _ in 0..1 + s.below(30) {
        t.push(*s.pick(&['\u{a0}', '\u{e9}', '\u{20ac}', '\u{1F600}', 'x', '\u{2028}']));
    }
    t
}

fn u64_pool(s: &mut Src, file_len: u64) -> u64 {
    match s.weighted(&[12, 4]) {
        0 => *s.pick(&[
            0u64,
            1,
            3,
            4,
            16,
            32,
            47,
            48,
            1019,
            1020,
            1023,
            1024,
            1025,
            2048,
            file_len,
            file_len.wrapping_sub(1),
            file_len + 1,
            file_len.wrapping_sub(1024),
            1 << 16,
            1 << 31,
            1 << 32,
            1 << 62,
            1 << 63,
            u64::MAX,
            u64::MAX - 15,
            u64::MAX - 16,
            u64::MAX - 1023,
        ]),
        _ => s.u64() >> s.below(64),
    }
}

pub fn gen_script(s: &mut Src) -> Script {
    let seed = match s.weighted(&[6, 4, 1]) {
        0 => Seed::Written(small_program(s)),
        1 => {
            let o = GenOpts { density: 2, max_ops: 2, max_values: 600, blobs: false, fat_chance: (0, 1), ..GenOpts::default() };
            let scene = scene_spec(s, &o);
            let layout = gen::layout(s, &build_scene(&scene));
            Seed::Encoded { scene, layout }
        }
        _ => Seed::Bundled(s.pick(&["tiny_pc_and_images.e57", "tiny_spherical.e57", "tinyCartesianFloatRgb.e57", "tiny_pc_with_extension.e57", "empty_pc.e57", "integer_intensity.e57"]).to_string()),
    };
    let len_hint = 8192u64;
    let n = 1 + s.weighted(&[5, 3, 2, 1]);
    let mut muts = Vec::new();
    for _ in 0..n {
        muts.push(match s.weighted(&[3, 5, 5, 2, 2, 2, 3, 1, 1, 1, 4, 5, 2, 3, 1, 1, 1]) {
            0 => match s.weighted(&[3, 2, 1, 1, 1]) {
                0 => Mut::Header { field: s.below(4) as u8, value: u64_pool(s, len_hint) },
                1 => {
                    if s.chance(1, 3) {
                        Mut::HeaderLengths { xml_length: *s.pick(&[1u64 << 20, 11 << 20, 100 << 20, 900 << 20, 1 << 31, 1 << 40, 1 << 62, u64::MAX - 8192]), slack: *s.pick(&[0u16, 1, 1024, 4096]) }
                    } else {
                        Mut::HeaderRel { field: s.below(3) as u8, delta: *s.pick(&[-1025i16, -1024, -1023, -5, -4, -3, -2, -1, 0, 1, 4, 1020, 1024]) }
                    }
                }
                2 => Mut::PacketZeroStreams { cloud: s.below(3) as u8, nth: s.below(4) as u8 },
                3 => Mut::BlobInflate { nth: s.below(4) as u8, length: *s.pick(&[9999u64, 1 << 20, 1 << 40, u64::MAX - 16, u64::MAX]) },
                _ => Mut::PacketChain { cloud: s.below(3) as u8, nth: s.below(4) as u8, step: s.below(3) as u8 },
            },
            1 => Mut::XmlNumber { nth: s.below(200) as u16, with: if s.chance(1, 8) { odd_text(s) } else { s.pick(&NUMS).to_string() } },
            2 => Mut::XmlAttr {
                name: s.pick(&["recordCount", "fileOffset", "length", "minimum", "maximum", "scale", "offset", "precision", "type"]).to_string(),
                nth: s.below(40) as u16,
                value: match s.weighted(&[2, 5, 1]) {
                    0 => u64_pool(s, len_hint).to_string(),
                    1 => s.pick(&NUMS).to_string(),
                    _ => odd_text(s),
                },
            },
            3 => Mut::XmlType { nth: s.below(60) as u16, with: s.pick(&["Integer", "Float", "ScaledInteger", "String", "Structure", "Vector", "CompressedVector", "Blob", ""]).to_string() },
            4 => Mut::XmlDelete { nth: s.below(80) as u16 },
            5 => Mut::XmlDuplicate { nth: s.below(80) as u16 },
            6 => Mut::XmlMinEqMax { nth: s.below(12) as u16, all: s.flag() },
            7 => {
                if s.chance(1, 3) {
                    Mut::HollowCloud { count: s.pick(&["18446744073709551615", "9223372036854775807", "4294967296", "1000000000000", "70000"]).to_string() }
                } else {
                    Mut::XmlAddRecords { count: *s.pick(&[1u16, 100, 3000, 22000]) }
                }
            }
            8 => {
                if s.chance(1, 3) {
                    Mut::XmlEntities { size: *s.pick(&[1u16, 100, 30000]), refs: *s.pick(&[1u16, 10, 255, 4096]), levels: *s.pick(&[0u8, 1, 5, 9]) }
                } else if s.chance(1, 4) {
                    Mut::XmlDeepNestHidden { groups: *s.pick(&[2u32, 40, 3000]), width: *s.pick(&[1u8, 50, 100]), opener: s.below(4) as u8 }
                } else if s.flag() {
                    Mut::XmlDeepNest { depth: *s.pick(&[10u32, 200, 5000, 5000, 100_000]) }
                } else {
                    Mut::XmlDeleteChildren { nth: s.below(12) as u16 }
                }
            }
            9 => Mut::XmlGarbage { at: s.u16(), text: s.pick(&["<", "&", "]]>", "\u{0}", "<a>", "</e57Root>", "<!--"]).to_string() },
            10 => {
                if s.chance(1, 4) {
                    Mut::SectionRel { nth: s.below(3) as u8, field: 1 + s.below(3) as u8, delta: *s.pick(&[-1024i16, -8, -4, -1, 0, 4, 1024]) }
                } else {
                    Mut::Section { nth: s.below(3) as u8, field: s.below(4) as u8, value: u64_pool(s, len_hint) }
                }
            }
            11 => Mut::Packet { cloud: s.below(3) as u8, nth: s.below(4) as u8, field: s.below(8) as u8, value: *s.pick(&[0u16, 1, 2, 3, 4, 5, 7, 8, 255, 256, 1019, 65535, 65531, 32768]) },
            12 => Mut::BlobHeader { nth: s.below(4) as u8, field: s.below(2) as u8, value: u64_pool(s, len_hint) },
            13 => Mut::FlipBit { pos: s.u32(), bit: s.byte() },
            14 => Mut::TruncatePages { keep: s.byte() },
            15 => Mut::TruncateBytes { drop: s.below(1500) as u16 },
            _ => Mut::Extend { bytes: *s.pick(&[1u16, 4, 1023, 1024, 2048]) },
        });
    }
    Script { seed, muts, reseal: s.chance(4, 5) }
}

struct Img {
    /// logical stream
    log: Vec<u8>,
    xml: String,
    xml_log: usize,
    xml_dirty: bool,
    clouds: Vec<e57ref::decode::CloudInfo>,
    blobs: Vec<e57ref::decode::BlobInfo>,
}

fn put_u64(log: &mut [u8], at: usize, v: u64) {
    if at + 8 <= log.len() {
        log[at..at + 8].copy_from_slice(&v.to_le_bytes());
    }
}
fn put_u16(log: &mut [u8], at: usize, v: u16) {
    if at + 2 <= log.len() {
        log[at..at + 2].copy_from_slice(&v.to_le_bytes());
    }
}

/// (start, end) byte ranges of numeric tokens: attribute values and element
/// texts that consist of number characters.
fn numeric_tokens(xml: &str) -> Vec<(usize, usize)> {
    let b = xml.as_bytes();
    let mut out = Vec::new();
    let is_num = |c: u8| c.is_ascii_digit() || matches!(c, b'.' | b'-' | b'+' | b'e' | b'E') || matches!(c, b'i' | b'n' | b'f' | b'N' | b'a');
    let mut i = 0;
    while i < b.len() {
        if b[i] == b'"' || b[i] == b'>' {
            let close = if b[i] == b'"' { b'"' } else { b'<' };
            let st = i + 1;
            let mut j = st;
            while j < b.len() && b[j] != close && j - st < 40 {
                j += 1;
            }
            if j < b.len() && b[j] == close && j > st && b[st..j].iter().all(|c| is_num(*c)) && b[st..j].iter().any(|c| c.is_ascii_digit() || *c == b'N' || *c == b'i') {
                out.push((st, j));
            }
            i = if close == b'"' { j + 1 } else { j };
        } else {
            i += 1;
        }
    }
    out
}

/// Ranges of leaf-like elements: `<name ...>text</name>` without nested markup, or `<name .../>`.
fn leaf_elements(xml: &str) -> Vec<(usize, usize)> {
    let b = xml.as_bytes();
    let mut out = Vec::new();
    let mut i = 0;
    while i < b.len() {
        if b[i] == b'<' && i + 1 < b.len() && (b[i + 1].is_ascii_alphabetic()) {
            let Some(gt) = xml[i..].find('>').map(|p| i + p) else { break };
            if b[gt - 1] == b'/' {
                out.push((i, gt + 1));
                i = gt + 1;
                continue;
            }
            let name: String = xml[i + 1..gt].chars().take_while(|c| !c.is_whitespace()).collect();
            let close = format!("</{name}>");
            if let Some(p) = xml[gt + 1..].find('<') {
                let lt = gt + 1 + p;
                if xml[lt..].starts_with(&close) {
                    out.push((i, lt + close.len()));
                    i = lt + close.len();
                    continue;
                }
                if xml[lt..].starts_with("<![CDATA[") {
                    if let Some(e) = xml[lt..].find("]]>") {
                        let after = lt + e + 3;
                        if xml[after..].starts_with(&close) {
                            out.push((i, after + close.len()));
                            i = after + close.len();
                            continue;
                        }
                    }
                }
            }
            i = gt + 1;
        } else {
            i += 1;
        }
    }
    out
}

fn attr_ranges(xml: &str, name: &str) -> Vec<(usize, usize)> {
    let pat = format!(" {name}=\"");
    let mut out = Vec::new();
    let mut from = 0;
    while let Some(p) = xml[from..].find(&pat) {
        let st = from + p + pat.len();
        if let Some(e) = xml[st..].find('"') {
            out.push((st, st + e));
            from = st + e;
        } else {
            break;
        }
    }
    out
}

fn apply_mut(img: &mut Img, m: &Mut) {
    match m {
        Mut::Header { field, value } => put_u64(&mut img.log, 16 + 8 * (*field as usize % 4), *value),
        Mut::HeaderLengths { xml_length, slack } => {
            if img.log.len() >= 48 {
                let off = u64::from_le_bytes(img.log[24..32].try_into().unwrap());
                put_u64(&mut img.log, 32, *xml_length);
                put_u64(&mut img.log, 16, off.saturating_add(*xml_length).saturating_add(*slack as u64));
            }
        }
        Mut::HeaderRel { field, delta } => {
            let phys = ((img.log.len() + 1019) / 1020 * 1024) as i128;
            put_u64(&mut img.log, 16 + 8 * (*field as usize % 4), (phys + *delta as i128).max(0) as u64);
        }
        Mut::SectionRel { nth, field, delta } => {
            if !img.clouds.is_empty() {
                let c = &img.clouds[*nth as usize % img.clouds.len()];
                let l = c.section_log_start as usize;
                let phys = ((img.log.len() + 1019) / 1020 * 1024) as i128;
                put_u64(&mut img.log, l + 8 * (*field as usize % 4).max(1), (phys + *delta as i128).max(0) as u64);
            }
        }
        Mut::PacketZeroStreams { cloud, nth } => {
            if !img.clouds.is_empty() {
                let c = &img.clouds[*cloud as usize % img.clouds.len()];
                if !c.packet_starts.is_empty() {
                    let p = c.packet_starts[*nth as usize % c.packet_starts.len()] as usize;
                    if p + 6 <= img.log.len() && img.log[p] == 1 {
                        let count = u16::from_le_bytes([img.log[p + 4], img.log[p + 5]]) as usize;
                        for k in 0..count.min(4096) {
                            put_u16(&mut img.log, p + 6 + 2 * k, 0);
                        }
                    }
                }
            }
        }
        Mut::PacketChain { cloud, nth, step } => {
            if !img.clouds.is_empty() {
                let c = &img.clouds[*cloud as usize % img.clouds.len()];
                if !c.packet_starts.is_empty() {
                    let p = c.packet_starts[*nth as usize % c.packet_starts.len()] as usize;
                    if p + 6 <= img.log.len() && img.log[p] == 1 {
                        let total = u16::from_le_bytes([img.log[p + 2], img.log[p + 3]]) as usize + 1;
                        let count = u16::from_le_bytes([img.log[p + 4], img.log[p + 5]]) as usize;
                        let h = 6 + 2 * count;
                        let unit = (h + 3) / 4 * 4;
                        let st = unit * (1 + *step as usize % 3);
                        let end = (p + total).min(img.log.len());
                        let mut o = p;
                        while o + h <= end && count > 0 && count < 1000 {
                            img.log[o] = 1;
                            img.log[o + 1] = 0;
                            put_u16(&mut img.log, o + 2, (st - 1) as u16);
                            put_u16(&mut img.log, o + 4, count as u16);
                            put_u16(&mut img.log, o + 6, (end - (o + h)).min(65535) as u16);
                            for k in 1..count {
                                put_u16(&mut img.log, o + 6 + 2 * k, 0);
                            }
                            o += st;
                        }
                    }
                }
            }
        }
        Mut::BlobInflate { nth, length } => {
            if !img.blobs.is_empty() {
                let k = *nth as usize % img.blobs.len();
                let b = img.blobs[k].clone();
                if let Some(l) = pages::phys_to_log(b.file_offset) {
                    put_u64(&mut img.log, l as usize + 8, length.saturating_add(16));
                }
                // the matching XML descriptor: the length attribute that follows this blob's fileOffset
                let pat = format!("fileOffset=\"{}\" length=\"", b.file_offset);
                if let Some(p) = img.xml.find(&pat) {
                    let st = p + pat.len();
                    if let Some(e) = img.xml[st..].find('"') {
                        img.xml.replace_range(st..st + e, &length.to_string());
                        img.xml_dirty = true;
                    }
                }
            }
        }
        Mut::XmlNumber { nth, with } => {
            let t = numeric_tokens(&img.xml);
            if !t.is_empty() {
                let (a, b) = t[*nth as usize % t.len()];
                img.xml.replace_range(a..b, with);
                img.xml_dirty = true;
            }
        }
        Mut::XmlAttr { name, nth, value } => {
            let t = attr_ranges(&img.xml, name);
            if !t.is_empty() {
                let (a, b) = t[*nth as usize % t.len()];
                img.xml.replace_range(a..b, value);
                img.xml_dirty = true;
            }
        }
        Mut::XmlType { nth, with } => {
            let t = attr_ranges(&img.xml, "type");
            if !t.is_empty() {
                let (a, b) = t[*nth as usize % t.len()];
                img.xml.replace_range(a..b, with);
                img.xml_dirty = true;
            }
        }
        Mut::XmlDelete { nth } => {
            let t = leaf_elements(&img.xml);
            if !t.is_empty() {
                let (a, b) = t[*nth as usize % t.len()];
                img.xml.replace_range(a..b, "");
                img.xml_dirty = true;
            }
        }
        Mut::XmlDuplicate { nth } => {
            let t = leaf_elements(&img.xml);
            if !t.is_empty() {
                let (a, b) = t[*nth as usize % t.len()];
                let copy = img.xml[a..b].to_string();
                img.xml.insert_str(b, &copy);
                img.xml_dirty = true;
            }
        }
        Mut::XmlMinEqMax { nth, all } => {
            // elements carrying both attributes
            let mins = attr_ranges(&img.xml, "minimum");
            let mut edits: Vec<(usize, usize, String)> = Vec::new();
            for (k, (a, b)) in mins.iter().enumerate() {
                if !*all && k != *nth as usize % mins.len().max(1) {
                    continue;
                }
                let tag_end = img.xml[*b..].find('>').map(|p| b + p).unwrap_or(img.xml.len());
                let tag_start = img.xml[..*a].rfind('<').unwrap_or(0);
                if let Some((c, d)) = attr_ranges(&img.xml[tag_start..tag_end], "maximum").first() {
                    edits.push((tag_start + c, tag_start + d, img.xml[*a..*b].to_string()));
                }
            }
            edits.sort_by(|x, y| y.0.cmp(&x.0));
            for (c, d, v) in edits {
                img.xml.replace_range(c..d, &v);
                img.xml_dirty = true;
            }
        }
        Mut::XmlAddRecords { count } => {
            if let Some(p) = img.xml.find("</prototype>") {
                let mut add = String::new();
                for i in 0..*count {
                    add.push_str(&format!("<r{i} type=\"Integer\" minimum=\"7\" maximum=\"7\"/>\n"));
                }
                img.xml.insert_str(p, &add);
                img.xml_dirty = true;
            }
        }
        Mut::HollowCloud { count } => {
            let a = img.xml.find("<prototype ");
            let b = a.and_then(|a| img.xml[a..].find("</prototype>").map(|q| a + q));
            if let (Some(a), Some(b)) = (a, b) {
                if let Some(gt) = img.xml[a..b].find('>').map(|q| a + q + 1) {
                    img.xml.replace_range(gt..b, "");
                    let t = attr_ranges(&img.xml, "recordCount");
                    if let Some((x, y)) = t.first().copied() {
                        img.xml.replace_range(x..y, count);
                    }
                    img.xml_dirty = true;
                }
            }
        }
        Mut::XmlDeleteChildren { nth } => {
            // one pass with a stack: content ranges of Structure / Vector / CompressedVector elements
            let xml = img.xml.clone();
            let b = xml.as_bytes();
            let mut stack: Vec<(bool, usize)> = Vec::new();
            let mut found: Vec<(usize, usize)> = Vec::new();
            let mut k = 0;
            while k < b.len() && found.len() < 64 {
                if b[k] != b'<' {
                    k += 1;
                    continue;
                }
                if xml[k..].starts_with("<![CDATA[") {
                    k = xml[k..].find("]]>").map(|p| k + p + 3).unwrap_or(b.len());
                    continue;
                }
                let Some(gt) = xml[k..].find('>').map(|q| k + q) else { break };
                let tag = &xml[k..=gt];
                if tag.starts_with("</") {
                    if let Some((container, start)) = stack.pop() {
                        if container && start <= k {
                            found.push((start, k));
                        }
                    }
                } else if !tag.starts_with("<?") && !tag.starts_with("<!") && !tag.ends_with("/>") {
                    let container = tag.contains("\"Structure\"") || tag.contains("\"Vector\"") || tag.contains("\"CompressedVector\"");
                    stack.push((container, gt + 1));
                }
                k = gt + 1;
            }
            if !found.is_empty() {
                let (a, e) = found[*nth as usize % found.len()];
                img.xml.replace_range(a..e, "");
                img.xml_dirty = true;
            }
        }
        Mut::XmlDeepNest { depth } => {
            if let Some(p) = img.xml.find("<data3D") {
                let mut add = String::new();
                for _ in 0..*depth {
                    add.push_str("<n type=\"Structure\">");
                }
                for _ in 0..*depth {
                    add.push_str("</n>");
                }
                img.xml.insert_str(p, &add);
                img.xml_dirty = true;
            }
        }
        Mut::XmlEntities { size, refs, levels } => {
            let mut dtd = String::from("<!DOCTYPE e57Root [\n");
            dtd.push_str(&format!("<!ENTITY e0 \"{}\">\n", "A".repeat(*size as usize)));
            let lv = (*levels as usize).min(12);
            for k in 1..=lv {
                dtd.push_str(&format!("<!ENTITY e{k} \"&e{};&e{};\">\n", k - 1, k - 1));
            }
            dtd.push_str("]>\n");
            let reference = format!("&e{lv};").repeat(*refs as usize);
            // after the XML declaration (if any), in front of the root element
            if let Some(root) = img.xml.find("<e57Root") {
                if let Some(gt) = img.xml[root..].find('>') {
                    let at = root + gt;
                    let selfclosing = img.xml[..at].ends_with('/');
                    if !selfclosing {
                        img.xml.insert_str(at + 1, &format!("<bomb type=\"String\" note=\"{reference}\">{reference}</bomb>"));
                    }
                }
                img.xml.insert_str(root, &dtd);
                img.xml_dirty = true;
            }
        }
        Mut::XmlDeepNestHidden { groups, width, opener } => {
            if let Some(p) = img.xml.find("<data3D") {
                let w = (*width as usize).clamp(1, 100);
                let open = ["<!-->", "<!--->", "<!-- -->", "<!--x-->"][*opener as usize % 4];
                let mut add = String::new();
                for _ in 0..*groups {
                    for _ in 0..w {
                        add.push_str("<n type=\"Structure\">");
                    }
                    add.push_str(open);
                    if !open.ends_with("-->") || open.len() < 7 {
                        // the comment is still open: what looks like end tags is comment text
                        for _ in 0..w {
                            add.push_str("</n>");
                        }
                        add.push_str("-->");
                    }
                }
                for _ in 0..(*groups as usize * w) {
                    add.push_str("</n>");
                }
                img.xml.insert_str(p, &add);
                img.xml_dirty = true;
            }
        }
        Mut::XmlGarbage { at, text } => {
            let mut p = *at as usize % (img.xml.len() + 1);
            while !img.xml.is_char_boundary(p) {
                p -= 1;
            }
            img.xml.insert_str(p, text);
            img.xml_dirty = true;
        }
        Mut::Section { nth, field, value } => {
            if !img.clouds.is_empty() {
                let c = &img.clouds[*nth as usize % img.clouds.len()];
                let l = c.section_log_start as usize;
                match field % 4 {
                    0 => {
                        if l < img.log.len() {
                            img.log[l] = *value as u8
                        }
                    }
                    1 => put_u64(&mut img.log, l + 8, *value),
                    2 => put_u64(&mut img.log, l + 16, *value),
                    _ => put_u64(&mut img.log, l + 24, *value),
                }
            }
        }
        Mut::Packet { cloud, nth, field, value } => {
            if !img.clouds.is_empty() {
                let c = &img.clouds[*cloud as usize % img.clouds.len()];
                if !c.packet_starts.is_empty() {
                    let p = c.packet_starts[*nth as usize % c.packet_starts.len()] as usize;
                    match field {
                        0 => {
                            if p < img.log.len() {
                                img.log[p] = *value as u8
                            }
                        }
                        1 => {
                            if p + 1 < img.log.len() {
                                img.log[p + 1] = *value as u8
                            }
                        }
                        2 => put_u16(&mut img.log, p + 2, *value),
                        3 => put_u16(&mut img.log, p + 4, *value),
                        k => put_u16(&mut img.log, p + 6 + 2 * (*k as usize - 4), *value),
                    }
                }
            }
        }
        Mut::BlobHeader { nth, field, value } => {
            if !img.blobs.is_empty() {
                let b = &img.blobs[*nth as usize % img.blobs.len()];
                if let Some(l) = pages::phys_to_log(b.file_offset) {
                    let l = l as usize;
                    if field % 2 == 0 {
                        if l < img.log.len() {
                            img.log[l] = *value as u8;
                        }
                    } else {
                        put_u64(&mut img.log, l + 8, *value);
                    }
                }
            }
        }
        Mut::FlipBit { pos, bit } => {
            if img.log.len() > 48 {
                let p = 48 + (*pos as usize % (img.log.len() - 48));
                img.log[p] ^= 1 << (bit % 8);
            }
        }
        Mut::TruncatePages { .. } | Mut::TruncateBytes { .. } | Mut::Extend { .. } => {}
    }
}

/// Apply a mutation script; the result need not be a valid file.
pub fn mutate(sc: &Script) -> Result<Vec<u8>, String> {
    let seed = seed_bytes(&sc.seed)?;
    if matches!(sc.seed, Seed::ConstHeavy { .. } | Seed::TinyPackets { .. } | Seed::ManyNamespaces { .. } | Seed::LongNamespaceRecords { .. } | Seed::SplitText { .. }) {
        // used as it is (decoding it with the reference decoder would itself need gigabytes)
        return Ok(seed);
    }
    let d = e57ref::decode::decode(&seed).map_err(|e| format!("seed file is not decodable: {e}"))?;
    let log = pages::unpage(&seed)?;
    let xml_log = pages::phys_to_log(d.header.xml_offset).unwrap_or(0) as usize;
    let mut img = Img { log, xml: String::from_utf8_lossy(&d.xml).to_string(), xml_log, xml_dirty: false, clouds: d.clouds.clone(), blobs: d.blobs.clone() };
    // XML edits first (they move the XML section), then binary edits
    for m in &sc.muts {
        apply_mut(&mut img, m);
    }
    if img.xml_dirty {
        // append the new XML at the (aligned) end of the logical stream, keeping every section in place
        let old_end = img.xml_log + d.xml.len();
        let mut log = img.log.clone();
        if old_end >= log.len().saturating_sub(1020) && img.xml_log + d.xml.len() <= log.len() {
            log.truncate(img.xml_log); // XML was last: replace it
        }
        while log.len() % 4 != 0 {
            log.push(0);
        }
        let at = log.len();
        log.extend_from_slice(img.xml.as_bytes());
        // only rewrite header fields that no mutation touched
        let touched: Vec<u8> = sc.muts.iter().filter_map(|m| match m {
            Mut::Header { field, .. } | Mut::HeaderRel { field, .. } => Some(field % 4),
            _ => None,
        }).collect();
        let phys_len = ((log.len() + 1019) / 1020 * 1024) as u64;
        if !touched.contains(&0) {
            put_u64(&mut log, 16, phys_len);
        }
        if !touched.contains(&1) {
            put_u64(&mut log, 24, pages::log_to_phys(at as u64));
        }
        if !touched.contains(&2) {
            put_u64(&mut log, 32, img.xml.len() as u64);
        }
        img.log = log;
    }
    let mut bytes = pages::page(&img.log);
    if !sc.reseal {
        // keep the original checksums where pages still exist: mutated pages become invalid
        for (i, p) in bytes.chunks_mut(1024).enumerate() {
            if (i + 1) * 1024 <= seed.len() && p.len() == 1024 {
                p[1020..].copy_from_slice(&seed[i * 1024 + 1020..(i + 1) * 1024]);
            }
        }
    }
    for m in &sc.muts {
        match m {
            Mut::TruncatePages { keep } => {
                let pages = bytes.len() / 1024;
                let k = (*keep as usize % (pages + 1)) * 1024;
                bytes.truncate(k);
            }
            Mut::TruncateBytes { drop } => {
                let k = bytes.len().saturating_sub(*drop as usize);
                bytes.truncate(k);
            }
            Mut::Extend { bytes: n } => {
                let fill = crate::kit::fill_bytes(*n as u64, *n as usize);
                bytes.extend_from_slice(&fill);
            }
            _ => {}
        }
    }
    Ok(bytes)
}
