//! C12 - bit-packed integers: exact width, bit order, decode at any alignment.
use crate::adapt::{read_raw, read_scene};
use crate::dev::MemDev;
use crate::gen;
use crate::kit::{guard, mix, Check, Src, Tier, Verdict};
use crate::prog::{self, CloudSpec, End, GenOpts, Op, Program, Trace};
use e57ref::bits::{encode_column, read_bits};
use e57ref::encode::{encode, CloudLayout, Layout, Pk};
use e57ref::fx::F64;
use e57ref::scene::{Cloud, CloudMeta, RType, Rec, Scene, Val};
use serde::{Deserialize, Serialize};

pub struct C12;

#[derive(Clone, Serialize, Deserialize)]
pub enum Case {
    /// reader direction: one integer record (+ one double) encoded by e57ref,
    /// stream cut into two data packets after `cut` bytes
    Read { min: i64, max: i64, scaled: bool, vals: Vec<i64>, cut: u16, second_cut: u16 },
    /// writer direction: 3 doubles + integer record(s) of the given widths, n points
    Write { ranges: Vec<(i64, i64)>, n: u32, seed: u64 },
    /// writer direction over a random program
    Prog(Program),
    /// writer direction: a very wide prototype of `records` extension records narrower than a byte
    /// (width `width`, or 1..=7 pseudo-randomly when 0) and enough points for `packets` data packets
    Wide { records: u16, width: u8, packets: u8, seed: u64 },
}

fn wide_program(records: u16, width: u8, packets: u8, seed: u64) -> Program {
    let mut proto: Vec<Rec> = ["cartesianX", "cartesianY", "cartesianZ"].iter().map(|n| Rec { prefix: None, name: n.to_string(), ty: RType::Int { min: 0, max: 1023 } }).collect();
    for k in 0..records as u64 {
        let w = if width == 0 { 1 + (mix(seed, k) % 7) as u32 } else { (width as u32).clamp(1, 7) };
        let min = (mix(seed ^ 99, k) % 21) as i64 - 10;
        proto.push(Rec { prefix: Some("wd".into()), name: format!("f{k}"), ty: RType::Int { min, max: min + ((1i64 << w) - 1) } });
    }
    let cap = gen::cap_hint(&proto).unwrap_or(100).max(1);
    let n = (cap * packets.max(1) as usize + 3).min(3_000_000 / proto.len()) as u32;
    Program {
        guid: "{c12wide}".into(),
        ops: vec![Op::Ext { prefix: "wd".into(), url: "urn:verif:wide".into() }, Op::Cloud(CloudSpec { guid: "{c}".into(), proto, n, seed, nan_ok: true, meta: CloudMeta::default(), finalize: true, clear_limits: 0, rejects: vec![] })],
        end: End::Finalize,
    }
}

fn range_variants(w: u32) -> Vec<(i64, i64)> {
    if w == 0 {
        return vec![(0, 0), (-5, -5), (i64::MAX, i64::MAX), (i64::MIN, i64::MIN)];
    }
    let hi: u128 = (1u128 << w) - 1;
    let lo: u128 = 1u128 << (w - 1);
    let mut out = Vec::new();
    for r in [hi, lo, (lo + 1).min(hi)] {
        let max_min = i64::MAX as i128 - r as i128;
        for m in [0i128, -((r / 2) as i128), i64::MIN as i128, max_min, -1] {
            let m = m.clamp(i64::MIN as i128, max_min);
            let pair = (m as i64, (m + r as i128) as i64);
            if !out.contains(&pair) {
                out.push(pair);
            }
        }
    }
    out
}

fn value_set(min: i64, max: i64, n: usize, mode: u64) -> Vec<i64> {
    let range = (max as i128 - min as i128) as u128;
    (0..n)
        .map(|i| {
            let off: u128 = match mode {
                0 => [0, range, range / 2, 1.min(range), range.saturating_sub(1)][i % 5],
                1 => {
                    let pat = if i % 2 == 0 { 0x5555_5555_5555_5555u128 } else { 0xAAAA_AAAA_AAAA_AAAAu128 };
                    let mut v = pat;
                    while v > range {
                        v >>= 1;
                    }
                    v
                }
                _ => {
                    let h = mix(mode, i as u64) as u128;
                    if range == u64::MAX as u128 {
                        h
                    } else {
                        (h * (range + 1)) >> 64
                    }
                }
            };
            (min as i128 + off.min(range) as i128) as i64
        })
        .collect()
}

fn read_case_scene(min: i64, max: i64, scaled: bool, vals: &[i64]) -> Scene {
    let ty = if scaled { RType::Scaled { min, max, scale: F64(0.5), offset: F64(1.0) } } else { RType::Int { min, max } };
    let proto = vec![Rec { prefix: None, name: "intensity".into(), ty }, Rec { prefix: None, name: "timeStamp".into(), ty: RType::Double { min: None, max: None } }];
    let points = vals.iter().enumerate().map(|(i, v)| vec![Val::I(*v), Val::D(F64(i as f64 * 1.5))]).collect();
    Scene { guid: "{c12}".into(), clouds: vec![Cloud { meta: CloudMeta { guid: Some("{c}".into()), ..Default::default() }, proto, points }], ..Default::default() }
}

fn check_streams(spec_proto: &[Rec], pts: &[Vec<Val>], streams: &[Vec<u8>], v: &mut Verdict, what: &str) -> bool {
    for (j, r) in spec_proto.iter().enumerate() {
        let col: Vec<Val> = pts.iter().map(|p| p[j]).collect();
        let w = r.ty.width() as usize;
        let need = (col.len() * w + 7) / 8;
        let s = &streams[j];
        if s.len() != need {
            v.fail(format!("{what}: record {j} ({}, {} bits) occupies {} stream bytes for {} points, exactly {need} expected", r.name, w, s.len(), col.len()));
            return false;
        }
        // bit i*w + b of the stream == bit b of (value_i - min), via the naive codec
        let naive = match encode_column(&r.ty, &col) {
            Ok(n) => n,
            Err(e) => {
                v.infra(format!("naive encoder rejected generated values: {e}"));
                return false;
            }
        };
        for i in 0..col.len() {
            let a = read_bits(s, i * w, w as u32);
            let b = read_bits(&naive, i * w, w as u32);
            if a != b {
                v.fail(format!("{what}: record {j} ({}, {w} bits): value {i} stored as {a:?}, naive LSB-first codec gives {b:?}", r.name));
                return false;
            }
        }
    }
    true
}

fn run_program(p: &Program, v: &mut Verdict) {
    let dev = MemDev::new();
    let mut tr = Trace::default();
    let h = dev.handle();
    if let Err(panic) = guard(|| prog::exec(p, dev, &mut tr)) {
        v.fail(format!("writer panicked in {}: {panic}", tr.current));
        return;
    }
    if let Some((call, e)) = &tr.error {
        v.fail(format!("writer rejected a valid program: {call}: {e}"));
        return;
    }
    let bytes = h.bytes();
    let d = match e57ref::decode::decode(&bytes) {
        Ok(d) => d,
        Err(e) => {
            v.fail(format!("independent decoder cannot walk the written file: {e}"));
            return;
        }
    };
    let specs: Vec<&CloudSpec> = p.ops.iter().filter_map(|o| if let Op::Cloud(c) = o { Some(c) } else { None }).collect();
    if specs.len() != d.clouds.len() {
        v.fail(format!("{} cloud sections found, {} written", d.clouds.len(), specs.len()));
        return;
    }
    for (ci, (spec, info)) in specs.iter().zip(d.clouds.iter()).enumerate() {
        if info.streams.len() != spec.proto.len() {
            v.fail(format!("cloud {ci}: packets of the written section could not be walked: {:?}", d.complaints.first()));
            return;
        }
        if info.data_packets >= 3 {
            v.nt("partial_byte_carried_over_packet_boundary");
        }
        if !check_streams(&spec.proto, &spec.points(), &info.streams, v, &format!("cloud {ci}")) {
            return;
        }
    }
    // decoding through the iterator adaptors (skip / step_by use Iterator::nth): streams that progress unequally
    // must stay in step when points are skipped across the end of a decoded batch
    let r = guard(|| -> Result<Option<String>, String> {
        let mut rd = e57::E57Reader::new(MemDev::with_data(bytes.clone())).map_err(|e| e.to_string())?;
        let pcs = rd.pointclouds();
        for (ci, (spec, pc)) in specs.iter().filter(|s| s.finalize).zip(pcs.iter()).enumerate() {
            let pts = spec.points();
            let n = pts.len();
            for (skip, step) in [(1usize, 3usize), (n / 2, (n / 3).max(1))] {
                if let Some(m) = crate::adapt::check_strided(&mut rd, pc, &pts, skip, step, false)? {
                    return Ok(Some(format!("cloud {ci}: {m}")));
                }
            }
        }
        Ok(None)
    });
    match r {
        Err(pn) => v.fail(format!("reader panicked under skip/step_by: {pn}")),
        Ok(Err(e)) => v.fail(format!("own reader cannot open the written file: {e}")),
        Ok(Ok(Some(m))) => v.fail(m),
        Ok(Ok(None)) => {}
    }
}

impl Check for C12 {
    type Case = Case;
    const ID: &'static str = "C12";
    fn rule() -> String {
        "Enumerated grid, reader direction: every width 0..=64 x range variants (2^w-1, 2^(w-1), 2^(w-1)+1; minimum 0, negative, i64::MIN, \
         i64::MAX-range, -1) x value sets (boundary, alternating bit patterns, pseudo random) for 9 (thorough 17) values so that every start phase \
         within a byte occurs x every cut position of the byte stream into two data packets (two cuts in three with the compressor-restart flag on some packets, which is legal and means nothing for bit packing); files are encoded by e57ref's bit-by-bit codec and \
         must decode through pointcloud_raw to the encoded values. Writer direction: prototypes 3 x f64 + integer records of every width (and a \
         companion width) with cap-1, cap, cap+1, 2cap+1 points, very wide prototypes (600 - 1000 enumerated, 300 - 1200 generated extension \
         records narrower than a byte, 5 - 9 packets), plus random programs (incl. compact prototypes over up to 8 packets): every written cloud is also decoded through skip(k).step_by(m) of the raw iterator; per record the written stream must have exactly \
         ceil(N*w/8) bytes and bit i*w+b must equal bit b of value_i - min (LSB first). Non-trivial: width not a multiple of 8, or 0, or 64, \
         or negative minimum, or a partial byte carried over a packet boundary."
            .into()
    }
    fn budget(t: Tier) -> usize {
        t.pick(6000, 200_000)
    }
    fn preflight() -> Result<(), String> {
        crate::preflight::decoder_preflight()
    }
    fn fixed(t: Tier) -> Vec<Case> {
        let n = t.pick(9, 17);
        let mut out = Vec::new();
        for w in 0..=64u32 {
            let variants = range_variants(w);
            
            for (vi, (min, max)) in variants.iter().enumerate() {
                for mode in 0..3u64 {
                    let vals = value_set(*min, *max, n, if mode == 2 { 17 + w as u64 } else { mode });
                    let len = (n * w as usize + 7) / 8;
                    for cut in 0..=len {
                        out.push(Case::Read { min: *min, max: *max, scaled: (w + vi as u32) % 3 == 0, vals: vals.clone(), cut: cut as u16, second_cut: ((cut * 5) % 17) as u16 });
                    }
                }
            }
        }
        // writer direction: each width with a companion width, around the packet capacity
        let widths: Vec<u32> = (0..=64).collect();
        for (k, w) in widths.iter().enumerate() {
            let comps: Vec<Option<u32>> = if t == Tier::Quick { vec![[None, Some(3), Some(13)][k % 3], Some(7)] } else { vec![None, Some(1), Some(7), Some(33)] };
            for c in comps {
                let mut ranges = vec![range_variants(*w)[k % range_variants(*w).len()]];
                if let Some(c) = c {
                    ranges.push(range_variants(c)[0]);
                }
                let bits = 192 + w + c.unwrap_or(0);
                let l = 3 + ranges.len();
                let cap = ((65535 - 6 - 2 * l - l - 500) * 8) / bits as usize;
                for n in [cap - 1, cap, cap + 1, 2 * cap + 1] {
                    out.push(Case::Write { ranges: ranges.clone(), n: n as u32, seed: (*w as u64) << 8 | n as u64 & 0xff });
                }
            }
        }
        // very wide prototypes: the partial bytes of hundreds of streams are carried from packet to packet
        for (records, width) in [(600u16, 1u8), (800, 1), (1000, 0), (700, 3)] {
            out.push(Case::Wide { records, width, packets: if t == Tier::Quick { 5 } else { 9 }, seed: records as u64 });
        }
        out
    }
    fn describe_fixed(t: Tier) -> Option<String> {
        Some(format!(
            "reader grid: widths 0..=64 x range variants x 3 value sets x {} values x every cut position; writer grid: widths x companion widths x {{cap-1,cap,cap+1,2cap+1}} points ({} tier subsampling)",
            t.pick(9, 17),
            t.name()
        ))
    }
    fn gen(s: &mut Src, _t: Tier) -> Case {
        if s.chance(1, 250) {
            return Case::Wide { records: 300 + s.below(900) as u16, width: s.below(8) as u8, packets: 2 + s.below(6) as u8, seed: s.u64() };
        }
        if s.chance(1, 3) {
            let w = s.below(65) as u32;
            let (min, max) = gen::int_range_of_width(s, w);
            let n = 1 + s.below(24) as usize;
            let vals = value_set(min, max, n, 100 + s.below(1000));
            let len = (n * w as usize + 7) / 8;
            Case::Read { min, max, scaled: s.flag(), vals, cut: s.below(len as u64 + 1) as u16, second_cut: s.below(200) as u16 }
        } else {
            let o = GenOpts { density: 0, max_ops: 2, images: false, blobs: true, compact_chance: (1, 25), ..GenOpts::default() };
            Case::Prog(prog::valid_program(s, &o))
        }
    }
    fn run(case: &Case) -> Verdict {
        let mut v = Verdict::new();
        match case {
            Case::Read { min, max, scaled, vals, cut, second_cut } => {
                let w = RType::Int { min: *min, max: *max }.width();
                v.label(&format!("reader_width_{}", w / 8 * 8));
                if w % 8 != 0 || w == 0 || w == 64 || *min < 0 {
                    v.nt("reader_direction_interesting_width_or_min");
                }
                let scene = read_case_scene(*min, *max, *scaled, vals);
                let lay = Layout { clouds: vec![CloudLayout { packets: vec![Pk::Data(vec![*cut, *second_cut])], restart_every: (*cut % 3) as u8, ..Default::default() }], ..Default::default() };
                let enc = match encode(&scene, &lay) {
                    Ok(e) => e,
                    Err(e) => {
                        v.infra(format!("reference encoder failed: {e}"));
                        return v;
                    }
                };
                if *cut > 0 && (*cut as usize * 8) % (w.max(1) as usize) != 0 {
                    v.label("value_straddles_the_cut");
                }
                let r = guard(|| -> Result<Vec<Vec<Val>>, String> {
                    let mut rd = e57::E57Reader::new(MemDev::with_data(enc.bytes.clone())).map_err(|e| format!("open: {e}"))?;
                    let pc = rd.pointclouds().into_iter().next().ok_or("no point cloud listed")?;
                    let raw = read_raw(&mut rd, &pc, vals.len() + 1)?;
                    if let Some(e) = raw.error {
                        return Err(format!("raw iterator failed after {} points: {e}", raw.points.len()));
                    }
                    Ok(raw.points)
                });
                match r {
                    Err(p) => v.fail(format!("reader panicked: {p}")),
                    Ok(Err(e)) => v.fail(format!("width {w} ({min}..{max}), cut {cut}: {e}")),
                    Ok(Ok(pts)) => {
                        if let Some(d) = e57ref::scene::diff_points(&scene.clouds[0].points, &pts, "encoded", "decoded") {
                            v.fail(format!("width {w} ({min}..{max}), stream cut after {cut} bytes: {d}"));
                        }
                    }
                }
            }
            Case::Write { ranges, n, seed } => {
                let mut proto: Vec<Rec> = ["cartesianX", "cartesianY", "cartesianZ"].iter().map(|n| Rec { prefix: None, name: n.to_string(), ty: RType::Double { min: None, max: None } }).collect();
                for (k, (min, max)) in ranges.iter().enumerate() {
                    proto.push(Rec { prefix: None, name: ["rowIndex", "columnIndex"][k % 2].to_string(), ty: RType::Int { min: *min, max: *max } });
                    let w = proto.last().map(|r| r.ty.width()).unwrap_or(0);
                    if w % 8 != 0 || w == 0 || w == 64 || *min < 0 {
                        v.nt("writer_direction_interesting_width_or_min");
                    }
                }
                let p = Program {
                    guid: "{c12w}".into(),
                    ops: vec![Op::Cloud(CloudSpec { guid: "{c}".into(), proto, n: *n, seed: *seed, nan_ok: true, meta: CloudMeta::default(), finalize: true, clear_limits: 0, rejects: vec![] })],
                    end: End::Finalize,
                };
                run_program(&p, &mut v);
                if !v.failed() {
                    // and the crate's own reader agrees (full round trip at the capacity boundary)
                    let dev = MemDev::new();
                    let mut tr = Trace::default();
                    let h = dev.handle();
                    let _ = guard(|| prog::exec(&p, dev, &mut tr));
                    match guard(|| read_scene(MemDev::with_data(h.bytes()))) {
                        Ok(Ok((s, _))) => {
                            let exp = prog::expected_scene(&p);
                            if let Some(d) = e57ref::scene::diff_points(&exp.clouds[0].points, &s.clouds[0].points, "written", "read") {
                                v.fail(d);
                            }
                        }
                        Ok(Err(e)) => v.fail(format!("reading back failed: {e}")),
                        Err(pn) => v.fail(format!("reader panicked: {pn}")),
                    }
                }
            }
            Case::Prog(p) => {
                crate::c01::proto_labels(p, &mut v);
                run_program(p, &mut v);
            }
            Case::Wide { records, width, packets, seed } => {
                v.nt("hundreds_of_records_narrower_than_a_byte");
                run_program(&wide_program(*records, *width, *packets, *seed), &mut v);
            }
        }
        v
    }
}
