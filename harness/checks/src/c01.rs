//! C01 - raw point data survives write -> read exactly.
use crate::adapt::read_scene;
use crate::dev::MemDev;
use crate::kit::{guard, Check, Src, Tier, Verdict};
use crate::prog::{self, GenOpts, Op, Program, Trace};
use e57ref::scene::{diff_cloud, RType};
use serde::{Deserialize, Serialize};

pub struct C01;

#[derive(Clone, Serialize, Deserialize)]
pub struct Case {
    pub program: Program,
}

/// Labels shared by the writer-side checks: what the produced file exercises.
pub fn layout_labels(bytes: &[u8], v: &mut Verdict) {
    if let Ok(d) = e57ref::decode::decode(bytes) {
        for (ci, c) in d.clouds.iter().enumerate() {
            if c.data_packets >= 3 {
                v.nt("multi_packet");
                if let Some(cl) = d.scene.clouds.get(ci) {
                    if cl.proto.iter().any(|r| r.ty.width() % 8 != 0) {
                        v.nt("sub_byte_width_across_packets");
                    }
                }
            }
            if c.section_log_start % 1020 + 32 > 1020 {
                v.nt("section_header_straddles_page");
            }
            for p in &c.packet_starts {
                if p % 1020 + 6 > 1020 {
                    v.nt("packet_header_straddles_page");
                }
            }
            v.label(&format!("section_start_mod_1020_div_255={}", c.section_log_start % 1020 / 255));
        }
        if d.header.xml_offset % 1024 > 1000 {
            v.label("xml_starts_near_page_end");
        }
    }
}

pub fn proto_labels(p: &Program, v: &mut Verdict) {
    let mut clouds = 0;
    for op in &p.ops {
        if let Op::Cloud(c) = op {
            clouds += 1;
            for r in &c.proto {
                let w = r.ty.width();
                match r.ty {
                    RType::Int { .. } | RType::Scaled { .. } => {
                        if w == 0 {
                            v.nt("zero_width_record");
                        } else if w == 64 {
                            v.nt("width_64_record");
                        } else if w % 8 != 0 {
                            v.label("sub_byte_width");
                        }
                    }
                    _ => {}
                }
                if r.prefix.is_some() {
                    v.label("extension_record");
                }
            }
            if c.n == 0 {
                v.label("empty_cloud");
            }
            if c.n > 0 && c.proto.iter().all(|r| r.ty.width() == 0) {
                v.nt("all_records_zero_width_with_points");
            }
        }
    }
    if clouds >= 2 {
        v.label("several_clouds");
    }
}

impl Check for C01 {
    type Case = Case;
    const ID: &'static str = "C01";
    fn rule() -> String {
        "Writer programs (register extensions, blobs, images, 1..6 point clouds with rule-following prototypes built from attribute groups, \
         record types with the bit width drawn first from 0..=64, point counts around the packet capacity, 1 in 40 clouds with a compact all-integer prototype and more than two full packets, \
         a leading padding blob sweeping the section position mod 1020; 1 cloud history in 10 contains add_point calls that must be rejected, 1 operation in 25 is preceded by an add_blob call whose source breaks down part way) are executed against the real writer on an in-memory device and read back with the raw iterator. \
         Every cloud is also read through the iterator adaptors skip(k).step_by(m) and count() (three strides per cloud: dense, long, and up to / across the end) and must give the matching sub-sequence. Non-trivial: the file has a cloud with >= 3 data packets (the writer always emits a final packet for the carried partial bytes, so 2 is the norm), or a section/packet header straddling a page boundary, or a zero-width or \
         64-bit-wide record. Distinct = distinct case JSON."
            .into()
    }
    fn budget(t: Tier) -> usize {
        t.pick(20_000, 400_000)
    }
    fn fixed(t: Tier) -> Vec<Case> {
        prog::sweep_programs(t == Tier::Thorough).into_iter().map(|program| Case { program }).collect()
    }
    fn describe_fixed(t: Tier) -> Option<String> {
        Some(format!(
            "position sweep: a leading blob of every length 4r, r = 0..255 (every 4-byte residue of the section start modulo 1020), x {} prototype / point-count variants around the packet capacity, followed by a second cloud and a blob",
            if t == Tier::Thorough { 5 } else { 2 }
        ))
    }
    fn gen(s: &mut Src, _t: Tier) -> Case {
        Case { program: prog::valid_program(s, &GenOpts { compact_chance: (1, 40), reject_chance: (1, 10), failing_blob_chance: (1, 25), ..GenOpts::default() }) }
    }
    fn run(case: &Case) -> Verdict {
        let mut v = Verdict::new();
        let p = &case.program;
        proto_labels(p, &mut v);
        let dev = MemDev::new();
        let mut tr = Trace::default();
        let h = dev.handle();
        if let Err(panic) = guard(|| prog::exec(p, dev, &mut tr)) {
            v.fail(format!("writer panicked in {}: {panic}", tr.current));
            return v;
        }
        if let Some((call, e)) = &tr.error {
            v.fail(format!("writer rejected a rule-following program: {call}: {e}"));
            return v;
        }
        let bytes = h.bytes();
        layout_labels(&bytes, &mut v);
        let read = match guard(|| read_scene(MemDev::with_data(bytes.clone()))) {
            Err(panic) => {
                v.fail(format!("reader panicked: {panic}"));
                return v;
            }
            Ok(Err(e)) => {
                v.fail(format!("reading the finalized file failed: {e}"));
                return v;
            }
            Ok(Ok((s, _))) => s,
        };
        let exp = prog::expected_scene(p);
        if read.clouds.len() != exp.clouds.len() {
            v.fail(format!("file lists {} point clouds, {} were finalized", read.clouds.len(), exp.clouds.len()));
            return v;
        }
        for (i, (a, e)) in read.clouds.iter().zip(exp.clouds.iter()).enumerate() {
            let mut a = a.clone();
            a.meta = e.meta.clone(); // metadata is C04's business
            if let Some(d) = diff_cloud(e, &a, "written", "read") {
                v.fail(format!("cloud {i}: {d}"));
                return v;
            }
        }
        // the same points through the standard iterator adaptors (skip / step_by / count call Iterator::nth & co)
        if exp.clouds.iter().any(|c| !c.points.is_empty()) {
            let r = guard(|| -> Result<Option<String>, String> {
                let mut rd = e57::E57Reader::new(MemDev::with_data(bytes.clone())).map_err(|e| e.to_string())?;
                for (i, (pc, e)) in rd.pointclouds().iter().zip(exp.clouds.iter()).enumerate() {
                    let n = e.points.len();
                    let h = crate::kit::hash_str(&p.guid) as usize;
                    // strides chosen from the case itself: short ones, one up to the end, one across it
                    for (k, (skip, step)) in [(h % 7, 1 + h % 5), (n / 2, (n / 3).max(1)), (n.saturating_sub(h % 3), 1)].into_iter().enumerate() {
                        if let Some(m) = crate::adapt::check_strided(&mut rd, pc, &e.points, skip, step, k == 2)? {
                            return Ok(Some(format!("cloud {i}: {m}")));
                        }
                    }
                }
                Ok(None)
            });
            match r {
                Err(pn) => v.fail(format!("reader panicked under skip/step_by: {pn}")),
                Ok(Err(e)) => v.fail(format!("re-opening for the strided read failed: {e}")),
                Ok(Ok(Some(m))) => v.fail(m),
                Ok(Ok(None)) => v.label("strided_iteration"),
            }
        }
        v
    }
}
