//! C07 - corrupted pages never yield data; the checksum is CRC-32C in both backends.
use crate::c15::small_program;
use crate::dev::MemDev;
use crate::kit::{guard, hash_str, mix, Check, Level, Src, Tier, Verdict};
use crate::prog::{self, Program, Trace};
use crate::rops::{all_ops, blob_list, run_op, OpOut, ReadOp};
use e57::E57Reader;
use e57ref::pages::page_verdicts;
use serde::{Deserialize, Serialize};
use std::collections::BTreeMap;

pub struct C07;

#[derive(Clone, Debug, Serialize, Deserialize)]
pub enum Corruption {
    /// flip these bit positions (relative to the start of the page, 0..8192)
    Bits { page: u8, bits: Vec<u16> },
    /// flip a burst: first and last bit of a window of `len` <= 32 bits plus the pattern inside
    Burst { page: u8, start: u16, len: u8, pattern: u32 },
    /// overwrite `len` bytes at `start` with pseudo random bytes
    Overwrite { page: u8, start: u16, len: u8, seed: u64 },
    /// store the page's checksum bytes in reversed (little-endian) order
    ChecksumReversed { page: u8 },
    /// overwrite the last `pages` whole pages (payload and checksum) with zeros
    ZeroTail { pages: u8 },
    /// XOR these bytes onto the page starting at byte `at`
    Xor { page: u8, at: u16, bytes: Vec<u8> },
}

#[derive(Clone, Serialize, Deserialize)]
pub enum Case {
    /// every single-bit flip of one page of the file
    AllBits { program: Program, page: u8 },
    Sampled { program: Program, corruptions: Vec<Corruption> },
    /// the other CRC backend must produce the same files and verdicts
    Backends { seed: u64, n: u32 },
    /// checksum validation and raw XML extraction of a file with another page size
    /// (both take the page size from the file header), plus single-bit flips
    PageSize { page_size: u32, xml_len: u16, flips: Vec<u32> },
    /// a file of about `pages` pages (one big blob between two small ones); one bit is flipped in each of the
    /// listed pages in turn (`sweep`: in every page of the file in turn, validation only)
    BigFile { pages: u32, damaged: Vec<u32>, sweep: bool },
}

fn big_file(pages: u32) -> Result<(Vec<u8>, Vec<(u64, u64)>), String> {
    use crate::gen::BlobSpec;
    let p = Program {
        guid: "{big}".into(),
        ops: vec![
            prog::Op::Blob(BlobSpec { len: 700, seed: 3, chunk: 0, xmlish: false }),
            prog::Op::Blob(BlobSpec { len: pages.saturating_sub(3) * 1020, seed: 4, chunk: 0, xmlish: false }),
            prog::Op::Blob(BlobSpec { len: 900, seed: 5, chunk: 0, xmlish: false }),
        ],
        end: prog::End::Finalize,
    };
    let dev = MemDev::new();
    let h = dev.handle();
    let mut tr = Trace::default();
    if guard(|| prog::exec(&p, dev, &mut tr)).is_err() || tr.error.is_some() || !tr.finalized {
        return Err(format!("writing a file of {pages} pages failed: {:?}", tr.error));
    }
    Ok((h.bytes(), tr.blobs.clone()))
}

/// Minimal file (header + XML) with an arbitrary page size, sealed by e57ref.
pub fn odd_page_file(page_size: usize, xml_len: usize) -> (Vec<u8>, Vec<u8>) {
    let pay = page_size - 4;
    let mut xml = b"<?xml version=\"1.0\"?><e57Root type=\"Structure\">".to_vec();
    while xml.len() + 10 < xml_len.max(60) {
        xml.push(b' ');
    }
    xml.extend_from_slice(b"</e57Root>");
    let mut log = vec![0u8; 48];
    log.extend_from_slice(&xml);
    let pages = (log.len() + pay - 1) / pay;
    let phys = |l: usize| (l / pay) * page_size + l % pay;
    log[0..8].copy_from_slice(b"ASTM-E57");
    log[8..12].copy_from_slice(&1u32.to_le_bytes());
    log[16..24].copy_from_slice(&((pages * page_size) as u64).to_le_bytes());
    log[24..32].copy_from_slice(&(phys(48) as u64).to_le_bytes());
    log[32..40].copy_from_slice(&(xml.len() as u64).to_le_bytes());
    log[40..48].copy_from_slice(&(page_size as u64).to_le_bytes());
    (e57ref::pages::page_with(&log, page_size), xml)
}

pub fn apply(bytes: &[u8], c: &Corruption) -> (Vec<u8>, bool) {
    let mut b = bytes.to_vec();
    let pages = (b.len() / 1024).max(1);
    // must_detect: alteration of <= 3 bits or one burst of <= 32 bits within a page
    match c {
        Corruption::Bits { page, bits } => {
            let base = (*page as usize % pages) * 1024;
            let mut distinct: Vec<u16> = bits.iter().map(|x| x % 8192).collect();
            distinct.sort();
            distinct.dedup();
            for bit in &distinct {
                b[base + (*bit as usize) / 8] ^= 1 << (bit % 8);
            }
            (b, !distinct.is_empty() && distinct.len() <= 3)
        }
        Corruption::Burst { page, start, len, pattern } => {
            let base = (*page as usize % pages) * 1024 * 8;
            let len = (*len as usize % 32) + 1;
            let start = *start as usize % (8192 - len);
            for i in 0..len {
                let on = i == 0 || i == len - 1 || (pattern >> i) & 1 == 1;
                if on {
                    let bit = base + start + i;
                    b[bit / 8] ^= 1 << (bit % 8);
                }
            }
            // a burst is guaranteed to be detected inside the payload or inside the stored checksum; across the boundary
            // between the two the stored (byte-reversed) checksum is not a code word of the cyclic code any more
            let straddles = start < 1020 * 8 && start + len > 1020 * 8;
            (b, !straddles)
        }
        Corruption::Xor { page, at, bytes: x } => {
            let base = (*page as usize % pages) * 1024;
            let at = (*at as usize).min(1024 - x.len().min(1024));
            for (i, v) in x.iter().take(1024).enumerate() {
                b[base + at + i] ^= v;
            }
            (b, false)
        }
        Corruption::ZeroTail { pages: k } => {
            let k = (*k as usize % pages).max(1).min(pages.saturating_sub(1).max(1));
            let start = b.len() - k * 1024;
            for x in &mut b[start..] {
                *x = 0;
            }
            (b, false)
        }
        Corruption::ChecksumReversed { page } => {
            let base = (*page as usize % pages) * 1024;
            b[base + 1020..base + 1024].reverse();
            let changed = b[base + 1020..base + 1024] != bytes[base + 1020..base + 1024];
            // at most 32 bits within one page change: must be detected
            (b, changed)
        }
        Corruption::Overwrite { page, start, len, seed } => {
            let base = (*page as usize % pages) * 1024;
            let len = *len as usize % 64 + 1;
            let start = *start as usize % (1024 - len);
            let data = crate::kit::fill_bytes(*seed, len);
            b[base + start..base + start + len].copy_from_slice(&data);
            (b, false)
        }
    }
}

struct Base {
    bytes: Vec<u8>,
    free: Vec<(u64, u64)>,
    ops: Vec<ReadOp>,
    outs: Vec<OpOut>,
}

fn baseline(p: &Program) -> Result<Option<Base>, String> {
    let dev = MemDev::new();
    let h = dev.handle();
    let mut tr = Trace::default();
    if guard(|| prog::exec(p, dev, &mut tr)).is_err() || tr.error.is_some() || !tr.finalized {
        return Ok(None);
    }
    let bytes = h.bytes();
    if let Some(i) = page_verdicts(&bytes).iter().position(|ok| !ok) {
        return Err(format!("page {i} of a freshly written file does not carry the big-endian CRC-32C of its payload"));
    }
    let free = tr.blobs.clone();
    let (ops, outs) = guard(|| -> Result<_, String> {
        let mut rd = E57Reader::new(MemDev::with_data(bytes.clone())).map_err(|e| format!("open: {e}"))?;
        let nb = blob_list(&rd, &free).len();
        let ops = all_ops(rd.pointclouds().len(), nb);
        let outs: Vec<OpOut> = ops.iter().map(|o| run_op(&mut rd, o, &free)).collect();
        Ok((ops, outs))
    })
    .map_err(|p| format!("reader panicked on the unaltered file: {p}"))??;
    Ok(Some(Base { bytes, free, ops, outs }))
}

/// All assertions for one altered file.
fn check_altered(b: &Base, altered: &[u8], must_detect: bool, what: &str) -> Result<(), String> {
    let verdicts = page_verdicts(altered);
    let any_bad = verdicts.iter().any(|ok| !ok);
    if must_detect && !any_bad {
        return Err(format!("{what}: an alteration of <= 3 bits / one burst <= 32 bits is not detected by the reference CRC-32C (harness or polynomial problem)"));
    }
    let v = guard(|| E57Reader::validate_crc(MemDev::with_data(altered.to_vec())).is_ok()).map_err(|p| format!("{what}: validate_crc panicked: {p}"))?;
    if v == any_bad {
        return Err(format!("{what}: validate_crc {} although {} page is altered", if v { "succeeds" } else { "fails" }, if any_bad { "a" } else { "no" }));
    }
    let r = guard(|| -> Result<(), String> {
        let mut rd = match E57Reader::new(MemDev::with_data(altered.to_vec())) {
            Ok(r) => r,
            Err(_) => return Ok(()),
        };
        // two rounds on the same reader: the second runs after earlier failures
        for round in 0..2 {
            for (op, base) in b.ops.iter().zip(b.outs.iter()) {
                let got = run_op(&mut rd, op, &b.free);
                got.err_or_same_as(base).map_err(|m| format!("{what}: {op:?} (round {round}) {m}"))?;
            }
        }
        Ok(())
    });
    match r {
        Err(p) => Err(format!("{what}: reader panicked: {p}")),
        Ok(x) => x,
    }
}

/// Digest of files and verdicts for the backend comparison.
pub fn backend_digest(seed: u64, n: u32) -> String {
    let mut acc: u64 = 0xcbf29ce484222325;
    let mut files = 0;
    for i in 0..n {
        let mut s = Src::from_seed(mix(seed, i as u64));
        let p = small_program(&mut s);
        let dev = MemDev::new();
        let h = dev.handle();
        let mut tr = Trace::default();
        if guard(|| prog::exec(&p, dev, &mut tr)).is_err() || !tr.finalized {
            continue;
        }
        let bytes = h.bytes();
        files += 1;
        acc = mix(acc, hash_str(&format!("{bytes:?}")));
        for k in 0..6u64 {
            let c = match k % 3 {
                0 => Corruption::Bits { page: s.byte(), bits: vec![s.u16()] },
                1 => Corruption::Burst { page: s.byte(), start: s.u16(), len: s.byte(), pattern: s.u32() },
                _ => Corruption::Overwrite { page: s.byte(), start: s.u16(), len: s.byte(), seed: s.u64() },
            };
            let (alt, _) = apply(&bytes, &c);
            let v = guard(|| E57Reader::validate_crc(MemDev::with_data(alt.clone())).is_ok()).unwrap_or(false);
            let o = guard(|| E57Reader::new(MemDev::with_data(alt.clone())).is_ok()).unwrap_or(false);
            acc = mix(acc, (v as u64) << 1 | o as u64);
        }
    }
    // page-count sweep: files of exactly k pages (block-size boundaries of bulk validators), intact and with one bit flipped
    // in the first, a middle and the last page
    for k in [1usize, 2, 3, 31, 32, 33, 63, 64, 65, 127, 128, 129, 256] {
        let (file, _) = odd_page_file(1024, k * 1020 - 48);
        let pages = file.len() / 1024;
        let mut verdicts = 0u64;
        let ok = guard(|| E57Reader::validate_crc(MemDev::with_data(file.clone())).is_ok()).unwrap_or(false);
        verdicts = verdicts << 1 | ok as u64;
        for pg in [0, pages / 2, pages - 1] {
            let mut b = file.clone();
            b[pg * 1024 + 500] ^= 4;
            let ok = guard(|| E57Reader::validate_crc(MemDev::with_data(b.clone())).is_ok()).unwrap_or(false);
            verdicts = verdicts << 1 | ok as u64;
        }
        acc = mix(acc, (pages as u64) << 8 | verdicts);
        files += 1;
    }
    format!("{acc:016x} files={files}")
}

/// The page-count sweep of the backend digest, asserted against ground truth in this process.
fn page_count_sweep() -> Result<(), String> {
    for k in [1usize, 2, 3, 31, 32, 33, 63, 64, 65, 127, 128, 129, 256] {
        let (file, _) = odd_page_file(1024, k * 1020 - 48);
        let pages = file.len() / 1024;
        if guard(|| E57Reader::validate_crc(MemDev::with_data(file.clone())).is_ok()).map_err(|p| format!("validate_crc panicked: {p}"))? != true {
            return Err(format!("validate_crc rejects an intact file of {pages} pages"));
        }
        for pg in [0, pages / 2, pages - 1] {
            let mut b = file.clone();
            b[pg * 1024 + 500] ^= 4;
            if guard(|| E57Reader::validate_crc(MemDev::with_data(b.clone())).is_ok()).map_err(|p| format!("validate_crc panicked: {p}"))? {
                return Err(format!("validate_crc accepts a file of {pages} pages with a flipped bit in page {pg}"));
            }
        }
    }
    Ok(())
}

fn other_backend() -> String {
    crate::kit::verif_root().join("target-crc/verif/e57check").display().to_string()
}

impl Check for C07 {
    type Case = Case;
    const ID: &'static str = "C07";
    fn level() -> Level {
        Level::FaultEnumeration
    }
    fn rule() -> String {
        "Small files (a few pages) from the writer generator x corruptions: EVERY single-bit flip of every page of enumerated files (exhaustive per \
         page, payload and checksum bytes alike), sampled 2- and 3-bit flips within a page, bursts of <= 32 bits, random overwrites of 1..64 bytes, checksum bytes stored in reversed order, whole trailing pages zeroed. \
         Ground truth per page is e57ref's bit-serial CRC-32C (so an overwrite that leaves a page valid is handled soundly). Assertions: freshly \
         written pages carry the big-endian CRC-32C of their payload; validate_crc fails iff >= 1 page is altered; <= 3-bit flips and <= 32-bit \
         bursts are always detected; after opening the altered file every read operation (XML, descriptors, raw + simple iteration of every cloud, \
         every blob), run twice on the same reader (second round after earlier failures), fails or returns exactly the baseline result (iterators: \
         a prefix of the baseline then an error). Both CRC backends: a second binary built with the crc32c cargo feature must produce a \
         byte-identical digest of files and verdicts (generated programs with corruptions, plus a sweep over files of exactly \
         1..256 pages around powers of two with a bit flipped in the first / middle / last page). Big files (one of 300 pages with a bit flipped in every page in turn; 4200 pages with flips beyond page 4096 and at multiples of 256; generated ones of 40..4800 pages): validate_crc must fail for every damaged page and sequential blob reads on one reader, twice, fail or return the written bytes. Files with page sizes other than 1024 (60..65536, payload not a multiple of 4 included), \
         sealed by e57ref: validate_crc accepts them and returns the page size, raw_xml returns the XML, and both react correctly to bit flips. evaluations = pages / corruption sets, executions = altered files. Non-trivial: alteration \
         inside a page that a later read operation touches (every page of these files is)."
            .into()
    }
    fn assumptions() -> Vec<String> {
        vec!["E57Reader::header() is not among the read operations of the statement".into()]
    }
    fn budget(t: Tier) -> usize {
        t.pick(10_000, 1_500_000)
    }
    fn fixed(t: Tier) -> Vec<Case> {
        let mut out = Vec::new();
        let files = t.pick(6, 120);
        for f in 0..files {
            let mut s = Src::from_seed(mix(0xC07, f as u64));
            let p = small_program(&mut s);
            // number of pages unknown here: emit up to 8 page cases, the run skips pages beyond the end
            for page in 0..8u8 {
                out.push(Case::AllBits { program: p.clone(), page });
            }
            out.push(Case::Sampled { program: p.clone(), corruptions: (0..8u8).map(|page| Corruption::ChecksumReversed { page }).chain((1..3u8).map(|pages| Corruption::ZeroTail { pages })).collect() });
        }
        {
            let mut s = Src::from_seed(mix(0xC07, 1));
            let p = small_program(&mut s);
            out.push(Case::Sampled { program: p, corruptions: vec![Corruption::Xor { page: 1, at: 1019, bytes: vec![0x5D, 0xEE, 0x0D, 0x96] }] });
        }
        // the first page filled exactly, so that the XML section starts with the second page (and around that)
        for len in [944u32, 948, 952, 956, 960] {
            let p = Program { guid: "{page0}".into(), ops: vec![prog::Op::Blob(crate::gen::BlobSpec { len, seed: 11, chunk: 0, xmlish: false })], end: prog::End::Finalize };
            out.push(Case::AllBits { program: p, page: 0 });
        }
        // a point cloud of several data packets: damage inside a packet whose header lies on an intact page, and an
        // iterator that is polled again after its error
        {
            use e57ref::scene::{RType, Rec};
            let proto: Vec<Rec> = ["cartesianX", "cartesianY", "cartesianZ"].iter().map(|n| Rec { prefix: None, name: n.to_string(), ty: RType::Double { min: None, max: None } }).collect();
            let cloud = prog::CloudSpec { guid: "{packets}".into(), proto, n: 9000, seed: 5, nan_ok: false, meta: Default::default(), finalize: true, clear_limits: 0, rejects: vec![] };
            let p = Program { guid: "{multi-packet}".into(), ops: vec![prog::Op::Cloud(cloud)], end: prog::End::Finalize };
            for page in [2u8, 30, 63, 64, 65, 100, 128, 129, 170, 200] {
                out.push(Case::Sampled { program: p.clone(), corruptions: vec![Corruption::Bits { page, bits: vec![777 + page as u16] }] });
            }
        }
        out.push(Case::Backends { seed: 7, n: t.pick(300, 5000) as u32 });
        // big files: page bookkeeping of bulk validators and "already checked" caches (block sizes, bit sets, wrap-around)
        out.push(Case::BigFile { pages: t.pick(300, 1100) as u32, damaged: vec![], sweep: true });
        out.push(Case::BigFile { pages: 4200, damaged: vec![4096, 4097, 4113, 4150, 4199, 2048 + 31, 1024, 255, 256, 511, 512], sweep: false });
        if t == Tier::Thorough {
            out.push(Case::BigFile { pages: 8300, damaged: vec![8192, 8193, 8250, 8299, 4096, 4097], sweep: false });
            out.push(Case::BigFile { pages: 4200, damaged: vec![], sweep: true });
        }
        // other page sizes (validate_crc and raw_xml take the page size from the header)
        for ps in [60u32, 64, 131, 512, 1021, 1022, 1023, 1025, 1028, 2048, 4096, 65536] {
            for xl in [60u16, 200, 1500] {
                let flips = (0..24u32).map(|k| k.wrapping_mul(2654435761) ^ ps).collect();
                out.push(Case::PageSize { page_size: ps, xml_len: xl, flips });
            }
        }
        out
    }
    fn describe_fixed(t: Tier) -> Option<String> {
        Some(format!("all 8192 single-bit flips of every page of {} generated files (up to 8 pages each); backend digest over {} programs", t.pick(6, 120), t.pick(300, 5000)))
    }
    fn gen(s: &mut Src, _t: Tier) -> Case {
        if s.chance(1, 400) {
            let pages = if s.chance(1, 4) { 4100 + s.below(700) as u32 } else { 40 + s.below(900) as u32 };
            return Case::BigFile { pages, damaged: (0..1 + s.below(4)).map(|_| s.u32()).collect(), sweep: false };
        }
        let program = small_program(s);
        let n = 1 + s.below(6) as usize;
        let corruptions = (0..n)
            .map(|_| match s.weighted(&[4, 3, 3, 1, 1]) {
                0 => {
                    let k = 2 + s.below(2) as usize;
                    Corruption::Bits { page: s.byte(), bits: (0..k).map(|_| s.u16()).collect() }
                }
                1 => Corruption::Burst { page: s.byte(), start: s.u16(), len: s.byte(), pattern: s.u32() },
                2 => Corruption::Overwrite { page: s.byte(), start: s.u16(), len: s.byte(), seed: s.u64() },
                3 => Corruption::ChecksumReversed { page: s.byte() },
                _ => Corruption::ZeroTail { pages: 1 + s.below(3) as u8 },
            })
            .collect();
        Case::Sampled { program, corruptions }
    }
    fn run(case: &Case) -> Verdict {
        let mut v = Verdict::new();
        match case {
            Case::Backends { seed, n } => {
                if let Err(e) = page_count_sweep() {
                    v.fail(e);
                    return v;
                }
                let mine = backend_digest(*seed, *n);
                match std::process::Command::new(other_backend()).args(["c07-digest", &seed.to_string(), &n.to_string()]).output() {
                    Ok(o) if o.status.success() => {
                        let other = String::from_utf8_lossy(&o.stdout).trim().to_string();
                        v.nt("backend_differential");
                        v.execs = *n as u64 * 7;
                        if other != mine {
                            v.fail(format!("built-in CRC backend digest {mine} differs from crc32c-feature backend digest {other}: the two backends do not produce identical files and verdicts"));
                        }
                    }
                    Ok(o) => v.infra(format!("crc32c-feature binary failed: {}", String::from_utf8_lossy(&o.stderr))),
                    Err(e) => v.infra(format!("cannot run {} (built by bin/check C07): {e}", other_backend())),
                }
            }
            Case::PageSize { page_size, xml_len, flips } => {
                let ps = *page_size as usize;
                v.nt("page_size_other_than_1024");
                let (file, xml) = odd_page_file(ps, *xml_len as usize);
                v.execs = 1 + flips.len() as u64;
                let check = |bytes: &[u8], what: &str| -> Result<(), String> {
                    let ok = e57ref::pages::verdicts_with(bytes, ps).iter().all(|x| *x);
                    let val = guard(|| E57Reader::validate_crc(MemDev::with_data(bytes.to_vec()))).map_err(|p| format!("{what}: validate_crc panicked: {p}"))?;
                    match (&val, ok) {
                        (Ok(p), true) if *p == ps as u64 => {}
                        (Err(_), false) => {}
                        (Ok(_), true) => return Err(format!("{what}: validate_crc returned a wrong page size")),
                        (Ok(_), false) => return Err(format!("{what}: validate_crc succeeds on a file with page size {ps} although a page is altered")),
                        (Err(e), true) => return Err(format!("{what}: validate_crc rejects a correctly checksummed file with page size {ps}: {e}")),
                    }
                    let raw = guard(|| E57Reader::raw_xml(MemDev::with_data(bytes.to_vec()))).map_err(|p| format!("{what}: raw_xml panicked: {p}"))?;
                    match raw {
                        Ok(x) => {
                            if x != xml {
                                return Err(format!("{what}: raw_xml returns other bytes than the XML section (page size {ps})"));
                            }
                        }
                        Err(e) => {
                            if ok {
                                return Err(format!("{what}: raw_xml fails on an intact file with page size {ps}: {e}"));
                            }
                        }
                    }
                    Ok(())
                };
                if let Err(e) = check(&file, "unaltered") {
                    v.fail(e);
                    return v;
                }
                for f in flips {
                    let mut b = file.clone();
                    // not the header fields themselves (page size / XML position are read unverified by these two functions)
                    let pos = 48 * 8 + (*f as usize % (b.len() * 8 - 48 * 8));
                    b[pos / 8] ^= 1 << (pos % 8);
                    if let Err(e) = check(&b, &format!("bit {pos} flipped")) {
                        v.fail(e);
                        return v;
                    }
                }
            }
            Case::BigFile { pages, damaged, sweep } => {
                let (bytes, blobs) = match guard(|| big_file(*pages)) {
                    Ok(Ok(x)) => x,
                    Ok(Err(e)) => {
                        v.fail(e);
                        return v;
                    }
                    Err(p) => {
                        v.fail(format!("writer panicked: {p}"));
                        return v;
                    }
                };
                let np = bytes.len() / 1024;
                v.nt(if np > 4096 { "file_of_more_than_4096_pages" } else { "file_of_hundreds_of_pages" });
                let r = guard(|| -> Result<u64, String> {
                    let mut execs = 0u64;
                    if !E57Reader::validate_crc(MemDev::with_data(bytes.clone())).is_ok() {
                        return Err(format!("validate_crc rejects an intact file of {np} pages"));
                    }
                    // baseline blob contents from the intact file
                    let mut rd = E57Reader::new(MemDev::with_data(bytes.clone())).map_err(|e| format!("open: {e}"))?;
                    let mut base: Vec<Vec<u8>> = Vec::new();
                    for (o, l) in &blobs {
                        let mut out = Vec::new();
                        rd.blob(&e57::Blob::new(*o, *l), &mut out).map_err(|e| format!("intact file of {np} pages: blob: {e}"))?;
                        base.push(out);
                    }
                    let list: Vec<usize> = if *sweep { (0..np).collect() } else { damaged.iter().map(|d| *d as usize % np).collect() };
                    let mut alt = bytes.clone();
                    for pg in list {
                        let pos = pg * 1024 + 17 + (pg * 7) % 1000;
                        alt[pos] ^= 1 << (pg % 8);
                        execs += 1;
                        if E57Reader::validate_crc(MemDev::with_data(alt.clone())).is_ok() {
                            return Err(format!("validate_crc accepts a file of {np} pages with a flipped bit in page {pg}"));
                        }
                        if !*sweep {
                            // sequential reads on one reader: every earlier page has been read (and found valid) before the damaged one
                            if let Ok(mut rd) = E57Reader::new(MemDev::with_data(alt.clone())) {
                                for round in 0..2 {
                                    for (k, (o, l)) in blobs.iter().enumerate() {
                                        let mut out = Vec::new();
                                        if rd.blob(&e57::Blob::new(*o, *l), &mut out).is_ok() && out != base[k] {
                                            return Err(format!("file of {np} pages, bit flipped in page {pg}: blob {k} (round {round}) is returned with altered bytes"));
                                        }
                                    }
                                }
                            }
                        }
                        alt[pos] = bytes[pos];
                    }
                    Ok(execs)
                });
                match r {
                    Err(p) => v.fail(format!("reader panicked: {p}")),
                    Ok(Err(e)) => v.fail(e),
                    Ok(Ok(n)) => v.execs = n.max(1),
                }
            }
            Case::AllBits { program, page } => {
                let b = match baseline(program) {
                    Ok(Some(b)) => b,
                    Ok(None) => return v,
                    Err(e) => {
                        v.fail(e);
                        return v;
                    }
                };
                let pages = b.bytes.len() / 1024;
                if *page as usize >= pages {
                    v.label("page_beyond_file");
                    return v;
                }
                v.nt("all_single_bit_flips_of_a_page");
                v.execs = 8192;
                for bit in 0..8192u16 {
                    let (alt, md) = apply(&b.bytes, &Corruption::Bits { page: *page, bits: vec![bit] });
                    if let Err(e) = check_altered(&b, &alt, md, &format!("page {page} bit {bit}")) {
                        v.fail(e);
                        return v;
                    }
                }
            }
            Case::Sampled { program, corruptions } => {
                let b = match baseline(program) {
                    Ok(Some(b)) => b,
                    Ok(None) => return v,
                    Err(e) => {
                        v.fail(e);
                        return v;
                    }
                };
                v.execs = corruptions.len() as u64;
                for c in corruptions {
                    let (alt, md) = apply(&b.bytes, c);
                    match c {
                        Corruption::Bits { .. } => v.nt("multi_bit_flip"),
                        Corruption::Burst { .. } => v.nt("burst"),
                        Corruption::Overwrite { .. } => v.nt("overwrite"),
                        Corruption::ChecksumReversed { .. } => v.nt("checksum_reversed"),
                        Corruption::ZeroTail { .. } => v.nt("zeroed_tail_pages"),
                        Corruption::Xor { .. } => v.nt("burst_across_the_checksum_boundary"),
                    }
                    if let Corruption::Xor { at, bytes: x, .. } = c {
                        // one burst of <= 32 bits (first to last altered bit) that the checksum cannot see
                        let span_bits = x.len() * 8;
                        if span_bits <= 32 && alt != b.bytes && page_verdicts(&alt).iter().all(|ok| *ok) {
                            let accepted = guard(|| E57Reader::validate_crc(MemDev::with_data(alt.clone())).is_ok()).unwrap_or(false);
                            if accepted {
                                v.known("burst-across-checksum-boundary", format!("a burst of {} bits starting at page byte {at} (XOR {x:02x?}) leaves the big-endian CRC-32C of the page valid: validate_crc accepts the altered file", span_bits - 2));
                                return v;
                            }
                        }
                    }
                    if let Err(e) = check_altered(&b, &alt, md, &format!("{c:?}")) {
                        v.fail(e);
                        return v;
                    }
                }
            }
        }
        v
    }
    fn extra_coverage() -> BTreeMap<String, serde_json::Value> {
        let mut m = BTreeMap::new();
        m.insert("other_backend_binary".into(), other_backend().into());
        m
    }
}
