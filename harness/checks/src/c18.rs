//! C18 - unknown extension content never alters standard content.
use crate::adapt::read_scene;
use crate::c15::small_program;
use crate::dev::MemDev;
use crate::kit::{guard, Check, Src, Tier, Verdict};
use crate::prog::{self, End, Op, Program, Trace};
use crate::rops::{run_op, ReadOp};
use crate::simple_model::Opts;
use e57::*;
use e57ref::scene::{diff_scene, RType, Rec};
use serde::{Deserialize, Serialize};
use std::result::Result;

pub struct C18;

const PREFIX: &str = "vfx";
const URI: &str = "urn:verif:foreign-extension";

const VOCAB: [&str; 60] = [
    "guid", "name", "description", "points", "prototype", "data3D", "images2D", "vectorChild", "pose", "rotation", "translation", "w", "x", "y", "z", "colorLimits",
    "intensityLimits", "cartesianBounds", "sphericalBounds", "indexBounds", "originalGuids", "sensorVendor", "sensorModel", "sensorSerialNumber", "temperature",
    "relativeHumidity", "atmosphericPressure", "acquisitionStart", "acquisitionEnd", "dateTimeValue", "isAtomicClockReferenced", "formatName", "versionMajor",
    "versionMinor", "coordinateMetadata", "creationDateTime", "e57LibraryVersion", "visualReferenceRepresentation", "pinholeRepresentation",
    "sphericalRepresentation", "cylindricalRepresentation", "jpegImage", "pngImage", "imageMask", "imageWidth", "imageHeight", "focalLength", "pixelWidth",
    "pixelHeight", "principalPointX", "principalPointY", "radius", "associatedData3DGuid", "acquisitionDateTime", "xMinimum", "rangeMaximum", "rowMinimum",
    "intensityMinimum", "colorRedMaximum", "e57Root",
];

#[derive(Clone, Debug, Serialize, Deserialize)]
pub enum Insertion {
    /// foreign element inserted at insertion point number `at` (mod count); `own_ns`: unprefixed, with its
    /// foreign namespace declared as default namespace on the element itself
    Elem {
        at: u16,
        local: String,
        ty: Option<String>,
        text: String,
        child: Option<String>,
        attrs: Vec<(String, String)>,
        #[serde(default)]
        own_ns: bool,
        /// the child element is written without a prefix: it belongs to the standard's namespace although it sits
        /// inside the foreign element (as the bundled LAS-derived file does with its variable length records)
        #[serde(default)]
        child_standard_ns: bool,
        /// extra content of the foreign element that only looks like markup: 1 CDATA, 2 comment, 3 processing instruction
        #[serde(default)]
        markup: u8,
    },
    /// foreign attribute added to the start tag number `at` (mod count)
    Attr { at: u16, local: String, value: String },
    /// foreign element nested inside leaf element number `at`, after its character data
    InLeaf {
        at: u16,
        local: String,
        text: String,
        /// in front of the character data instead of behind it
        #[serde(default)]
        front: bool,
    },
    /// foreign element that binds a second namespace name of its own to the URL of extension number `which`
    /// (mod count) declared on the root element
    Alias { at: u16, which: u8, local: String },
    /// foreign attribute on start tag number `at` (mod count) under a second namespace name that the same start tag binds
    /// to the URL of extension number `which` (mod count) declared on the root element
    AttrAlias { at: u16, which: u8, local: String },
    /// not foreign content but a spelling of the whole document, applied to the file without foreign content as well:
    /// every line feed inside a CDATA section is written as CR LF (which XML reads as a line feed again)
    RawCrLf,
}

#[derive(Clone, Serialize, Deserialize)]
pub enum Case {
    /// metamorphic: file with insertions vs file without
    Insert { program: Program, insertions: Vec<Insertion> },
    /// extension records inside a prototype (names may equal standard names)
    ProtoExt {
        proto_names: Vec<String>,
        n: u32,
        seed: u64,
        /// as another producer may write it: every extension record name extended by this suffix (characters XML names
        /// allow but the crate's writer does not accept), through the XML transformer
        #[serde(default)]
        suffix: Option<String>,
        /// the extension's namespace declared on the <prototype> element instead of the root element
        #[serde(default)]
        nested_ns: bool,
        /// a second extension name for the same URL (one that needs escaping in XML): the writer refuses it, or each
        /// record comes back under the name it was written with
        #[serde(default)]
        twin: bool,
        /// every second extension record spells the registered namespace name with other letter case: the writer
        /// refuses the prototype, or the file reads back with each record under the name it was written with
        #[serde(default)]
        other_case: bool,
        /// as another producer may write it: the extension records carry no prefix, each one declares the extension's URL
        /// as its default namespace (`<intensity xmlns="urn:..." .../>`): they stay extension records, reported without
        /// a prefix
        #[serde(default)]
        own_default_ns: bool,
    },
}

struct Scan {
    /// byte offsets where a foreign element may be inserted
    points: Vec<usize>,
    /// byte offsets just before the end tag of leaf elements (after their character data)
    leaf_ends: Vec<usize>,
    /// byte offsets just behind the start tag of the same leaf elements (in front of their character data)
    leaf_starts: Vec<usize>,
    /// byte offsets just before the '>' or '/>' of start tags outside prototypes
    tags: Vec<usize>,
}

/// Find insertion points in the writer's XML: after any tag, inside the root,
/// where the enclosing element is a Structure / Vector / CompressedVector and
/// no ancestor is a prototype.
fn scan(xml: &str) -> Scan {
    let b = xml.as_bytes();
    let mut i = 0;
    let mut stack: Vec<(String, String, usize)> = Vec::new();
    let mut points = Vec::new();
    let mut leaf_ends = Vec::new();
    let mut leaf_starts = Vec::new();
    let mut tags = Vec::new();
    let container = |t: &str| matches!(t, "Structure" | "Vector" | "CompressedVector");
    while i < b.len() {
        if b[i] != b'<' {
            i += 1;
            continue;
        }
        if xml[i..].starts_with("<![CDATA[") {
            i = xml[i..].find("]]>").map(|p| i + p + 3).unwrap_or(b.len());
            continue;
        }
        if xml[i..].starts_with("<?") {
            i = xml[i..].find("?>").map(|p| i + p + 2).unwrap_or(b.len());
            continue;
        }
        if xml[i..].starts_with("<!--") {
            i = xml[i..].find("-->").map(|p| i + p + 3).unwrap_or(b.len());
            continue;
        }
        // a tag; attribute values of the writer never contain '>' unescaped except inside quotes
        let mut j = i + 1;
        let mut quote = 0u8;
        while j < b.len() {
            if quote != 0 {
                if b[j] == quote {
                    quote = 0;
                }
            } else if b[j] == b'"' || b[j] == b'\'' {
                quote = b[j];
            } else if b[j] == b'>' {
                break;
            }
            j += 1;
        }
        let tag = &xml[i..=j.min(b.len() - 1)];
        let in_proto = stack.iter().any(|(n, _, _)| n == "prototype");
        if tag.starts_with("</") {
            if let Some((_, ty, after_start)) = stack.last() {
                if !container(ty) && !in_proto {
                    leaf_ends.push(i);
                    leaf_starts.push(*after_start);
                }
            }
            stack.pop();
        } else {
            let name: String = tag[1..].chars().take_while(|c| !c.is_whitespace() && *c != '>' && *c != '/').collect();
            let ty = tag.find("type=\"").map(|p| tag[p + 6..].chars().take_while(|c| *c != '"').collect::<String>()).unwrap_or_default();
            let empty = tag.ends_with("/>");
            if !in_proto && name != "prototype" {
                tags.push(if empty { j - 1 } else { j });
            }
            if !empty {
                stack.push((name, ty, j + 1));
            }
        }
        let in_proto = stack.iter().any(|(n, _, _)| n == "prototype");
        if let Some((_, ty, _)) = stack.last() {
            if container(ty) && !in_proto {
                points.push(j + 1);
            }
        }
        i = j + 1;
    }
    Scan { points, leaf_ends, leaf_starts, tags }
}

/// Content that is character data, a comment or a processing instruction although it reads like markup.
fn looks_like_markup(kind: u8) -> &'static str {
    static SHREDDED: std::sync::OnceLock<String> = std::sync::OnceLock::new();
    match kind % 8 {
        // character data in thousands of adjacent pieces (readers may prepare such documents in a special way)
        5 => SHREDDED.get_or_init(|| "<![CDATA[ab]]>".repeat(3000)).as_str(),
        1 => "<![CDATA[<!DOCTYPE html><html><data3D></e57Root>]]>",
        2 => "<!-- <!DOCTYPE x [ <!ENTITY a 'b'> ]> </e57Root> <data3D type='Vector'> -->",
        3 => "<?report <!DOCTYPE y> </e57Root> ?>",
        4 => "<![CDATA[]]>]]&gt;<![CDATA[ xmlns:zz=\"u\" ]]>",
        _ => "",
    }
}

fn esc(t: &str) -> String {
    t.replace('&', "&amp;").replace('<', "&lt;").replace('>', "&gt;").replace('"', "&quot;")
}

fn apply(xml: &str, ins: &[Insertion]) -> String {
    let sc = scan(xml);
    let mut edits: Vec<(usize, String)> = Vec::new();
    for i in ins {
        match i {
            Insertion::Elem { at, local, ty, text, child, attrs, own_ns, child_standard_ns, markup } => {
                if sc.points.is_empty() {
                    continue;
                }
                let pos = sc.points[*at as usize % sc.points.len()];
                if *own_ns {
                    let mut e = format!("<{local} xmlns=\"{URI}/default\"");
                    if let Some(t) = ty {
                        e.push_str(&format!(" type=\"{t}\""));
                    }
                    for (k, v) in attrs {
                        e.push_str(&format!(" {k}=\"{}\"", esc(v)));
                    }
                    e.push('>');
                    if let Some(c) = child {
                        e.push_str(&format!("<{c} type=\"String\">{}</{c}>", esc(text)));
                    } else {
                        e.push_str(&esc(text));
                    }
                    e.push_str(looks_like_markup(*markup));
                    e.push_str(&format!("</{local}>\n"));
                    edits.push((pos, e));
                    continue;
                }
                let mut e = format!("<{PREFIX}:{local}");
                if let Some(t) = ty {
                    e.push_str(&format!(" type=\"{t}\""));
                }
                for (k, v) in attrs {
                    e.push_str(&format!(" {k}=\"{}\"", esc(v)));
                }
                e.push('>');
                if let (Some(c), true) = (child, *child_standard_ns) {
                    // an empty container of the standard's namespace nested in the foreign element
                    e.push_str(&format!("<{c} type=\"Vector\" allowHeterogeneousChildren=\"1\"></{c}>"));
                } else if let Some(c) = child {
                    e.push_str(&format!("<{PREFIX}:{c} type=\"String\">{}</{PREFIX}:{c}>", esc(text)));
                } else {
                    e.push_str(&esc(text));
                }
                e.push_str(looks_like_markup(*markup));
                e.push_str(&format!("</{PREFIX}:{local}>\n"));
                edits.push((pos, e));
            }
            Insertion::Alias { at, which, local } => {
                // the namespace URLs declared on the root element, copied verbatim (still escaped)
                let root_tag = xml.find("<e57Root").map(|p| &xml[p..p + xml[p..].find('>').unwrap_or(0)]).unwrap_or("");
                let urls: Vec<&str> = root_tag.split("xmlns:").skip(1).filter_map(|d| d.split('"').nth(1)).collect();
                if sc.points.is_empty() || urls.is_empty() {
                    continue;
                }
                let pos = sc.points[*at as usize % sc.points.len()];
                let url = urls[*which as usize % urls.len()];
                edits.push((pos, format!("<zzalias{which}:{local} xmlns:zzalias{which}=\"{url}\" type=\"String\">alias</zzalias{which}:{local}>\n")));
            }
            Insertion::AttrAlias { at, which, local } => {
                let root_tag = xml.find("<e57Root").map(|p| &xml[p..p + xml[p..].find('>').unwrap_or(0)]).unwrap_or("");
                let urls: Vec<&str> = root_tag.split("xmlns:").skip(1).filter_map(|d| d.split('"').nth(1)).collect();
                // a namespace declared on the root element is an extension of the file: every start tag but the root's
                // (the root's start tag is the first one the scan meets)
                let tags: Vec<usize> = sc.tags.iter().copied().skip(1).collect();
                if tags.is_empty() || urls.is_empty() {
                    continue;
                }
                let pos = tags[*at as usize % tags.len()];
                let url = urls[*which as usize % urls.len()];
                edits.push((pos, format!(" xmlns:zzattr{which}=\"{url}\" zzattr{which}:{local}=\"1\"")));
            }
            Insertion::RawCrLf => {}
            Insertion::InLeaf { at, local, text, front } => {
                if sc.leaf_ends.is_empty() {
                    continue;
                }
                let k = *at as usize % sc.leaf_ends.len();
                let pos = if *front { sc.leaf_starts[k] } else { sc.leaf_ends[k] };
                edits.push((pos, format!("<{PREFIX}:{local}>{}</{PREFIX}:{local}>", esc(text))));
            }
            Insertion::Attr { at, local, value } => {
                if sc.tags.is_empty() {
                    continue;
                }
                let pos = sc.tags[*at as usize % sc.tags.len()];
                edits.push((pos, format!(" {PREFIX}:{local}=\"{}\"", esc(value))));
            }
        }
    }
    // apply from the back; two attributes with the same name on one tag would be ill-formed: keep one edit per position for attributes
    edits.sort_by(|a, b| b.0.cmp(&a.0));
    let mut out = xml.to_string();
    let mut seen_attr: Vec<(usize, String)> = Vec::new();
    for (pos, text) in edits {
        if text.starts_with(' ') {
            // two prefixes may be bound to one URL: attributes of one tag are kept apart by their local names alone, and a
            // tag gets at most one declaration of a second prefix
            let mut keys: Vec<String> = text.split_whitespace().filter_map(|a| a.split('=').next()).map(|q| if q.starts_with("xmlns:") { "xmlns:*".to_string() } else { q.rsplit(':').next().unwrap_or(q).to_string() }).collect();
            keys.dedup();
            if keys.iter().any(|k| seen_attr.iter().any(|(p, s)| *p == pos && s == k)) {
                continue;
            }
            for k in keys {
                seen_attr.push((pos, k));
            }
        }
        out.insert_str(pos, &text);
    }
    if ins.iter().any(|i| matches!(i, Insertion::RawCrLf)) {
        let mut spelt = String::with_capacity(out.len() + 64);
        let mut rest = out.as_str();
        while let Some(p) = rest.find("<![CDATA[") {
            let end = rest[p..].find("]]>").map(|e| p + e).unwrap_or(rest.len());
            spelt.push_str(&rest[..p]);
            spelt.push_str(&rest[p..end].replace("\r\n", "\n").replace('\n', "\r\n"));
            rest = &rest[end..];
        }
        spelt.push_str(rest);
        out = spelt;
    }
    out
}

fn write_with(p: &Program, ins: &[Insertion]) -> Result<Vec<u8>, String> {
    // the program's own End is replaced: identity or inserting transformer
    let mut q = p.clone();
    q.end = End::Drop; // run everything but the end, then finalize here
    let dev = MemDev::new();
    let h = dev.handle();
    let mut w = E57Writer::new(dev, &q.guid).map_err(|e| e.to_string())?;
    w.register_extension(Extension::new(PREFIX, URI)).map_err(|e| e.to_string())?;
    let mut tr = Trace::default();
    for op in &q.ops {
        match op {
            Op::Ext { prefix, url } => w.register_extension(Extension::new(prefix, url)).map_err(|e| e.to_string())?,
            Op::Creation(v) => w.set_creation(v.as_ref().map(crate::adapt::dt_to_e57)),
            Op::CoordMeta(v) => w.set_coordinate_metadata(v.clone()),
            Op::Blob(b) => {
                let data = b.bytes();
                let mut r: &[u8] = &data;
                w.add_blob(&mut r).map_err(|e| e.to_string())?;
            }
            Op::BlobFailing { .. } => {}
            Op::Image(im) => prog::exec_image(&mut w, im, &mut tr),
            Op::Cloud(c) => prog::exec_cloud(&mut w, c, &mut tr),
        }
        if let Some((c, e)) = &tr.error {
            return Err(format!("{c}: {e}"));
        }
    }
    let ins = ins.to_vec();
    w.finalize_customized_xml(move |xml| Ok(apply(&xml, &ins))).map_err(|e| e.to_string())?;
    drop(w);
    Ok(h.bytes())
}

fn local_name(s: &mut Src) -> String {
    if s.chance(4, 5) {
        s.pick(&VOCAB).to_string()
    } else {
        crate::gen::ext_name(s)
    }
}

fn insertion(s: &mut Src) -> Insertion {
    if s.chance(1, 25) {
        return Insertion::RawCrLf;
    }
    if s.chance(1, 8) {
        return if s.flag() { Insertion::Alias { at: s.u16(), which: s.byte(), local: local_name(s) } } else { Insertion::AttrAlias { at: s.u16(), which: s.byte(), local: local_name(s) } };
    }
    if s.chance(1, 6) {
        return Insertion::InLeaf { at: s.u16(), local: local_name(s), text: s.pick(&["en", "7", "", "x y"]).to_string(), front: s.flag() };
    }
    if s.chance(3, 4) {
        let ty = match s.weighted(&[3, 2, 2, 2, 1, 1, 1, 1]) {
            0 => Some("String"),
            1 => Some("Structure"),
            2 => Some("Float"),
            3 => Some("Integer"),
            4 => Some("Blob"),
            5 => Some("CompressedVector"),
            6 => Some("Vector"),
            _ => None,
        };
        let mut attrs = Vec::new();
        if ty == Some("Blob") || s.chance(1, 6) {
            attrs.push(("fileOffset".to_string(), s.below(5000).to_string()));
            attrs.push(("length".to_string(), s.below(500).to_string()));
        }
        if ty == Some("CompressedVector") {
            attrs.push(("recordCount".to_string(), s.below(50).to_string()));
        }
        let text = match s.weighted(&[3, 2, 2]) {
            0 => "foreign".to_string(),
            1 => s.below(100).to_string(),
            _ => String::new(),
        };
        let child = if ty == Some("Structure") || s.chance(1, 5) { Some(local_name(s)) } else { None };
        Insertion::Elem { at: s.u16(), local: local_name(s), ty: ty.map(|t| t.to_string()), text, child, attrs, own_ns: s.chance(1, 5), child_standard_ns: s.chance(1, 4), markup: if s.chance(1, 3) { s.below(8) as u8 } else { 0 } }
    } else {
        Insertion::Attr { at: s.u16(), local: s.pick(&["type", "fileOffset", "recordCount", "length", "minimum", "maximum", "scale", "precision", "note"]).to_string(), value: s.pick(&["Blob", "String", "7", "0", "single", "x"]).to_string() }
    }
}

fn everything(bytes: &[u8]) -> Result<(e57ref::scene::Scene, Vec<crate::rops::OpOut>), String> {
    let (scene, _) = read_scene(MemDev::with_data(bytes.to_vec()))?;
    let mut rd = E57Reader::new(MemDev::with_data(bytes.to_vec())).map_err(|e| e.to_string())?;
    let n = rd.pointclouds().len();
    let mut outs = Vec::new();
    for c in 0..n {
        outs.push(run_op(&mut rd, &ReadOp::Simple { cloud: c as u8, opts: Opts::DEFAULT_BITS, take: u32::MAX }, &[]));
    }
    Ok((scene, outs))
}

impl Check for C18 {
    type Case = Case;
    const ID: &'static str = "C18";
    fn rule() -> String {
        "Metamorphic: small writer programs are finalized twice, once unchanged and once with an XML transformer that inserts well-formed elements \
         and attributes of a registered foreign namespace: local names drawn 4 in 5 from the standard E57 vocabulary (guid, name, points, data3D, \
         vectorChild, pose, colorLimits, ...), arbitrary type attributes (incl. Blob / CompressedVector / Structure with nested children), at any \
         sibling position inside any Structure / Vector outside a prototype, nested inside leaf elements in front of or behind their character data, plus foreign attributes (vfx:type, vfx:fileOffset, ...) on standard \
         start tags, prefixed or unprefixed with the foreign namespace declared as default namespace on the element itself, or elements that bind a second namespace name of their own to the URL of one of the file's registered extensions. Oracle: everything the reader reports about standard content (root fields, every descriptor, raw points, blobs, simple points) \
         is equal with and without the insertions. Second part: prototypes with extension records whose names may equal standard names must be \
         reported as Unknown{prefix,name} with round-tripping values, standard attributes unaffected. Non-trivial: an inserted element whose local \
         name is in the standard vocabulary, or an extension record named like a standard attribute."
            .into()
    }
    fn budget(t: Tier) -> usize {
        t.pick(60_000, 4_000_000)
    }
    fn gen(s: &mut Src, _t: Tier) -> Case {
        if s.chance(1, 5) {
            let k = 1 + s.below(3) as usize;
            let proto_names = (0..k).map(|_| if s.chance(2, 3) { crate::adapt::STD_NAMES[s.below(20) as usize].0.to_string() } else { crate::gen::ext_name(s) }).collect();
            let suffix = if s.chance(1, 4) { Some(s.pick(&[".x", "\u{e9}", "-2.b", ".", "\u{b7}1"]).to_string()) } else { None };
            Case::ProtoExt { proto_names, n: s.below(20) as u32, seed: s.u64(), suffix, nested_ns: s.chance(1, 5), twin: s.chance(1, 6), other_case: s.chance(1, 8), own_default_ns: s.chance(1, 6) }
        } else {
            let program = small_program(s);
            let k = 1 + s.below(4) as usize;
            Case::Insert { program, insertions: (0..k).map(|_| insertion(s)).collect() }
        }
    }
    fn run(case: &Case) -> Verdict {
        let mut v = Verdict::new();
        match case {
            Case::Insert { program, insertions } => {
                for i in insertions {
                    match i {
                        Insertion::Elem { local, own_ns, child, child_standard_ns, markup, .. } => {
                            if matches!(*markup % 8, 1..=4) {
                                v.nt("foreign_content_that_reads_like_markup");
                            }
                            if *child_standard_ns && child.is_some() {
                                v.nt("standard_namespace_element_nested_in_a_foreign_element");
                            }
                            if VOCAB.contains(&local.as_str()) {
                                v.nt("foreign_element_with_standard_local_name");
                            }
                            if *own_ns {
                                v.nt("unprefixed_foreign_element_with_own_default_namespace");
                            }
                        }
                        Insertion::InLeaf { .. } => v.nt("foreign_element_nested_in_a_leaf"),
                        Insertion::Alias { .. } => v.nt("foreign_element_binding_another_name_to_an_extension_url"),
                        Insertion::AttrAlias { .. } => v.nt("foreign_attribute_binding_another_name_to_an_extension_url"),
                        Insertion::Attr { .. } => v.label("foreign_attribute"),
                        Insertion::RawCrLf => v.label("line_feeds_in_cdata_spelt_cr_lf"),
                    }
                }
                // a spelling of the whole document belongs to the file without foreign content as well
                let spelling: Vec<Insertion> = insertions.iter().filter(|i| matches!(i, Insertion::RawCrLf)).cloned().collect();
                let plain = match guard(|| write_with(program, &spelling)) {
                    Ok(Ok(b)) => b,
                    _ => {
                        v.label("writer_error_out_of_scope");
                        return v;
                    }
                };
                let modified = match guard(|| write_with(program, insertions)) {
                    Ok(Ok(b)) => b,
                    Ok(Err(e)) => {
                        v.infra(format!("writing with the inserting transformer failed: {e}"));
                        return v;
                    }
                    Err(p) => {
                        v.infra(format!("inserting transformer panicked: {p}"));
                        return v;
                    }
                };
                // the modified XML must be well-formed and namespace-correct (else the harness is wrong)
                if let Err(e) = e57ref::decode::decode(&modified) {
                    v.infra(format!("the XML with foreign insertions is not well-formed: {e}"));
                    return v;
                }
                let base = match guard(|| everything(&plain)) {
                    Ok(Ok(x)) => x,
                    _ => {
                        v.label("baseline_unreadable_out_of_scope");
                        return v;
                    }
                };
                let verdict = |bytes: &[u8]| -> Result<(), String> {
                    match guard(|| everything(bytes)) {
                        Err(p) => Err(format!("reader panicked on the file with foreign content: {p}")),
                        Ok(Err(e)) => Err(format!("foreign-namespace content makes the file unreadable: {e}")),
                        Ok(Ok((scene, outs))) => {
                            if let Some(d) = diff_scene(&base.0, &scene, "without_foreign_content", "with_foreign_content") {
                                Err(format!("foreign-namespace content changes what the reader reports: {d}"))
                            } else if outs != base.1 {
                                Err("foreign-namespace content changes the simple iterator's output".to_string())
                            } else {
                                Ok(())
                            }
                        }
                    }
                };
                if let Err(m) = verdict(&modified) {
                    // Known finding "foreign-element-local-name-lookup": the reader looks elements up by local name only.
                    // Signature: the very same insertions with every foreign element renamed to a name outside the
                    // standard vocabulary leave the reader's output unchanged.
                    let neutral: Vec<Insertion> = insertions
                        .iter()
                        .map(|i| match i {
                            Insertion::Elem { at, local, ty, text, child, attrs, own_ns, child_standard_ns, markup } => Insertion::Elem {
                                markup: *markup,
                                child_standard_ns: *child_standard_ns,
                                at: *at,
                                local: format!("q_{local}"),
                                ty: ty.clone(),
                                text: text.clone(),
                                child: child.as_ref().map(|c| format!("q_{c}")),
                                attrs: attrs.clone(),
                                own_ns: *own_ns,
                            },
                            Insertion::InLeaf { at, local, text, front } => Insertion::InLeaf { at: *at, local: format!("q_{local}"), text: text.clone(), front: *front },
                            Insertion::Alias { at, which, local } => Insertion::Alias { at: *at, which: *which, local: format!("q_{local}") },
                            Insertion::AttrAlias { at, which, local } => Insertion::AttrAlias { at: *at, which: *which, local: format!("q_{local}") },
                            a => a.clone(),
                        })
                        .collect();
                    let caused_by_local_names = insertions.iter().any(|i| match i {
                        Insertion::Elem { local, child, .. } => VOCAB.contains(&local.as_str()) || child.as_ref().map(|c| VOCAB.contains(&c.as_str())).unwrap_or(false),
                        Insertion::InLeaf { local, .. } | Insertion::Alias { local, .. } | Insertion::AttrAlias { local, .. } => VOCAB.contains(&local.as_str()),
                        _ => false,
                    })
                        && matches!(guard(|| write_with(program, &neutral)), Ok(Ok(ref b)) if verdict(b).is_ok());
                    if caused_by_local_names {
                        v.known("foreign-element-local-name-lookup", m);
                    } else {
                        v.fail(format!("{m} (insertions {insertions:?})"));
                    }
                }
            }
            Case::ProtoExt { proto_names, n, seed, suffix, nested_ns, twin, other_case, own_default_ns } => {
                let mut proto: Vec<Rec> = ["cartesianX", "cartesianY", "cartesianZ"].iter().map(|n| Rec { prefix: None, name: n.to_string(), ty: RType::Single { min: None, max: None } }).collect();
                let mut used: Vec<String> = Vec::new();
                for (i, name) in proto_names.iter().enumerate() {
                    if used.contains(name) {
                        continue;
                    }
                    used.push(name.clone());
                    if crate::adapt::STD_NAMES.iter().any(|(s, _)| s == name) {
                        v.nt("extension_record_named_like_standard_attribute");
                    }
                    proto.push(Rec { prefix: Some(PREFIX.into()), name: name.clone(), ty: [RType::Double { min: None, max: None }, RType::Int { min: -5, max: 300 }, RType::Single { min: None, max: None }][i % 3].clone() });
                }
                let mut pairs: Vec<(String, String)> = Vec::new();
                if let Some(sfx) = suffix {
                    v.nt("extension_record_names_the_writer_itself_would_not_accept");
                    for name in &used {
                        pairs.push((format!("<{PREFIX}:{name} "), format!("<{PREFIX}:{name}{sfx} ")));
                        pairs.push((format!("</{PREFIX}:{name}>"), format!("</{PREFIX}:{name}{sfx}>")));
                    }
                }
                if *nested_ns {
                    v.nt("extension_namespace_declared_on_the_prototype_element");
                    pairs.push((format!(" xmlns:{PREFIX}=\"{URI}\""), String::new()));
                    pairs.push(("<prototype type=\"Structure\">".to_string(), format!("<prototype type=\"Structure\" xmlns:{PREFIX}=\"{URI}\">")));
                }
                let twin_active = *twin && suffix.is_none() && !*nested_ns;
                if twin_active {
                    for (k, r) in proto.iter_mut().filter(|r| r.prefix.is_some()).enumerate() {
                        if k % 2 == 1 {
                            r.prefix = Some("twin".into());
                        }
                    }
                }
                let other_case_active = *other_case && !twin_active && suffix.is_none() && !*nested_ns && !used.is_empty();
                if other_case_active {
                    for (k, r) in proto.iter_mut().filter(|r| r.prefix.is_some()).enumerate() {
                        if k % 2 == 0 {
                            r.prefix = Some(["Vfx", "VFX", "vfX"][k / 2 % 3].into());
                        }
                    }
                }
                let default_ns_active = *own_default_ns && !twin_active && !other_case_active && suffix.is_none() && !*nested_ns && !used.is_empty();
                if default_ns_active {
                    v.nt("extension_records_in_a_default_namespace_of_their_own");
                    for name in &used {
                        pairs.push((format!("<{PREFIX}:{name} "), format!("<{name} xmlns=\"{URI}\" ")));
                        pairs.push((format!("</{PREFIX}:{name}>"), format!("</{name}>")));
                    }
                }
                let uri = if twin_active { "urn:verif:foreign-extension?a=1&b=<2>" } else { URI };
                let mut p = Program {
                    guid: "{c18}".into(),
                    ops: vec![Op::Ext { prefix: PREFIX.into(), url: uri.into() }, Op::Cloud(prog::CloudSpec { guid: "{c}".into(), proto, n: *n, seed: *seed, nan_ok: true, meta: Default::default(), finalize: true, clear_limits: 0, rejects: vec![] })],
                    end: if pairs.is_empty() { End::Finalize } else { End::FinalizeReplace(pairs) },
                };
                if twin_active {
                    p.ops.insert(1, Op::Ext { prefix: "twin".into(), url: uri.into() });
                }
                let dev = MemDev::new();
                let h = dev.handle();
                let mut tr = Trace::default();
                if let Err(pn) = guard(|| prog::exec(&p, dev, &mut tr)) {
                    v.fail(format!("writer panicked in {}: {pn}", tr.current));
                    return v;
                }
                if twin_active && tr.error.as_ref().map(|(c, _)| c == "register_extension").unwrap_or(false) {
                    v.nt("second_name_for_one_extension_url_refused");
                    return v;
                }
                if other_case_active && tr.error.as_ref().map(|(c, _)| c == "add_pointcloud").unwrap_or(false) {
                    v.nt("namespace_name_in_other_letter_case_refused");
                    return v;
                }
                if let Some((c, e)) = &tr.error {
                    v.fail(format!("writer rejected registered extension records: {c}: {e}"));
                    return v;
                }
                if *nested_ns && !tr.xml_out.as_deref().map(|x| x.contains(&format!("<prototype type=\"Structure\" xmlns:{PREFIX}=")) && !x[..x.find("<data3D").unwrap_or(0)].contains(&format!("xmlns:{PREFIX}="))).unwrap_or(false) {
                    v.infra("the transformer did not move the namespace declaration (the writer's XML layout changed?)");
                    return v;
                }
                if suffix.is_some() && !used.is_empty() && !tr.xml_out.as_deref().map(|x| x.contains(&format!("<{PREFIX}:{}{} ", used[0], suffix.as_deref().unwrap_or("")))).unwrap_or(false) {
                    v.infra("the transformer did not rename the extension records (the writer's XML layout changed?)");
                    return v;
                }
                match guard(|| read_scene(MemDev::with_data(h.bytes()))) {
                    Err(pn) => v.fail(format!("reader panicked: {pn}")),
                    Ok(Err(e)) => v.fail(format!("reading failed: {e}")),
                    Ok(Ok((got, _))) => {
                        if let (Some(sfx), Some(Op::Cloud(c))) = (suffix, p.ops.get_mut(1)) {
                            for r in c.proto.iter_mut().filter(|r| r.prefix.is_some()) {
                                r.name.push_str(sfx);
                            }
                        }
                        if let (true, Some(Op::Cloud(c))) = (default_ns_active, p.ops.get_mut(1)) {
                            for r in c.proto.iter_mut().filter(|r| r.prefix.is_some()) {
                                r.prefix = Some(String::new());
                            }
                        }
                        let exp = prog::expected_scene(&p);
                        if let Some(d) = e57ref::scene::diff_proto(&exp.clouds[0].proto, &got.clouds[0].proto, "written", "read") {
                            v.fail(format!("extension records are not reported with their prefix and name: {d}"));
                        } else if let Some(d) = e57ref::scene::diff_points(&exp.clouds[0].points, &got.clouds[0].points, "written", "read") {
                            v.fail(d);
                        } else {
                            // standard attributes of the same cloud are unaffected: the simple view must still be the
                            // documented function of the standard records only
                            let mut execs = 0;
                            match guard(|| crate::c05::verify_simple(&h.bytes(), &[], &mut Verdict::new(), &mut execs)) {
                                Ok(Ok(())) => {}
                                Ok(Err(e)) => v.fail(format!("extension records disturb the simple view of the standard attributes: {e}")),
                                Err(pn) => v.fail(format!("simple iterator panicked: {pn}")),
                            }
                        }
                    }
                }
            }
        }
        v
    }
}
