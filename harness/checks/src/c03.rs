//! C03 - the reader decodes every well-formed file whatever legal layout.
use crate::adapt::read_scene;
use crate::dev::MemDev;
use crate::gen;
use crate::kit::{guard, Check, Src, Tier, Verdict};
use crate::prog::{self, GenOpts, Op, Program};
use e57ref::encode::{encode, Layout, Pk};
use e57ref::fx::F64;
use e57ref::scene::{diff_scene, LimitVal, Scene};
use e57ref::E57_NS;
use serde::{Deserialize, Serialize};

pub struct C03;

#[derive(Clone, Serialize, Deserialize)]
pub struct Case {
    /// the scene, described as the program that would produce it
    pub scene: Program,
    pub layout: Layout,
}

fn limit(s: &mut Src) -> LimitVal {
    if s.chance(1, 8) {
        gen::limit_own_units(s)
    } else {
        gen::limit_val(s)
    }
}

/// Scene for the independent encoder: like a writer program, plus the
/// metadata only a foreign producer can choose (bounds, arbitrary limits).
pub fn scene_spec(s: &mut Src, o: &GenOpts) -> Program {
    let mut p = prog::valid_program(s, o);
    p.end = prog::End::Finalize;
    for op in &mut p.ops {
        if let Op::Cloud(c) = op {
            if s.chance(1, 3) {
                c.meta.cart_bounds = Some([(); 6].map(|_| if s.chance(1, 6) { None } else { Some(F64(gen::f64_any(s))) }));
            }
            if s.chance(1, 4) {
                c.meta.sph_bounds = Some([(); 6].map(|_| if s.chance(1, 6) { None } else { Some(F64(gen::f64_any(s))) }));
            }
            if s.chance(1, 4) {
                c.meta.idx_bounds = Some([(); 6].map(|_| if s.chance(1, 6) { None } else { Some(s.range(-5, 100000)) }));
            }
            if s.chance(1, 3) {
                c.meta.intensity_limits = Some([Some(limit(s)), Some(limit(s))]);
            }
            if s.chance(1, 3) {
                c.meta.color_limits = Some([(); 6].map(|_| Some(limit(s))));
            }
            if s.chance(1, 8) {
                c.meta.guid = None; // tolerated by the reader ("reference implementation allows to omit")
            }
            if s.chance(1, 8) {
                // a carriage return, written as a character reference by the encoder
                let t = s.pick(&["Scan 1\r\nsecond line", "a\rb", "\r", "tail\r"]).to_string();
                if s.flag() {
                    c.meta.name = Some(t);
                } else {
                    c.meta.description = Some(t);
                }
            }
        }
    }
    p
}

pub fn build_scene(p: &Program) -> Scene {
    let mut s = prog::expected_scene(p);
    // expected_scene sets the cloud guid from the spec; honour an explicit None
    let mut i = 0;
    for op in &p.ops {
        if let Op::Cloud(c) = op {
            if c.finalize {
                s.clouds[i].meta.guid = Some(c.guid.clone());
                i += 1;
            }
        }
    }
    s.library_version = Some("e57ref independent encoder".into());
    s
}

pub fn layout_labels(l: &Layout, scene: &Scene, v: &mut Verdict) {
    if !l.lex.is_empty() {
        v.nt("non_default_xml_lexical_form");
    }
    for (i, cl) in l.clouds.iter().enumerate() {
        let mut seen_data = false;
        let n = cl.packets.len();
        for (k, pk) in cl.packets.iter().enumerate() {
            match pk {
                Pk::Data(w) => {
                    seen_data = true;
                    if w.iter().any(|x| *x == 0) {
                        v.nt("empty_stream_in_packet");
                    }
                    let mut u = w.clone();
                    u.dedup();
                    if u.len() > 1 {
                        v.nt("unequal_split");
                    }
                }
                Pk::Index(_) | Pk::Ignored(_) => {
                    if seen_data && k + 1 < n || scene.clouds.get(i).map(|c| !c.points.is_empty()).unwrap_or(false) {
                        v.nt("non_data_packet_before_or_between_data");
                    }
                }
            }
        }
        if cl.header_gap > 0 {
            v.nt("padding_after_section_header");
        }
    }
    if !l.gaps.is_empty() || !l.order.is_empty() {
        v.label("sections_moved");
    }
}

impl Check for C03 {
    type Case = Case;
    const ID: &'static str = "C03";
    fn rule() -> String {
        "Random scenes (rule-following prototypes incl. zero-width and 64-bit records, all metadata, images, extensions) are encoded by e57ref's \
         independent encoder under random legal layouts: per-record split of the byte streams over data packets (unequal, straddling values, empty \
         streams), index/ignored packets before/between/after data packets, padding, section order and position, position of the XML section, \
         omitted default type attributes and XML lexical variants (quotes, attribute order, CDATA/escaped/character references, empty-element form \
         for zero, comments/PIs/whitespace, prefixed E57 namespace, permuted structure children). Oracle: the crate's reader returns exactly the \
         encoded scene. Non-trivial: layout with unequal split, empty stream, non-data packet before/between data packets, header padding, or a \
         non-default lexical form."
            .into()
    }
    fn assumptions() -> Vec<String> {
        vec![
            "e57ref's encoder emits only legal files; each generated file is first decoded by e57ref's own decoder and must reproduce the scene without complaints (else exit 2)".into(),
            "XML lexical variants are infoset-preserving; no comments inside leaf text, no whitespace around numbers, no DTD".into(),
        ]
    }
    fn budget(t: Tier) -> usize {
        t.pick(12_000, 300_000)
    }
    fn preflight() -> Result<(), String> {
        crate::preflight::decoder_preflight()
    }
    fn fixed(t: Tier) -> Vec<Case> {
        // small-scope exhaustive layouts: two records, few points, every pair of cut positions of the two
        // byte streams into two data packets, with nothing / an index packet / an ignored packet between them
        use e57ref::scene::{RType, Rec};
        let rec = |name: &str, ty: RType| Rec { prefix: None, name: name.to_string(), ty };
        let protos = vec![
            vec![rec("cartesianX", RType::Int { min: 0, max: 6 }), rec("cartesianY", RType::Double { min: None, max: None }), rec("cartesianZ", RType::Int { min: 5, max: 5 })],
            vec![rec("cartesianX", RType::Single { min: None, max: None }), rec("cartesianY", RType::Int { min: -4000, max: 4191 }), rec("cartesianZ", RType::Int { min: i64::MIN, max: i64::MAX })],
            vec![rec("cartesianX", RType::Scaled { min: 0, max: 1, scale: F64(0.5), offset: F64(0.0) }), rec("cartesianY", RType::Int { min: 0, max: (1 << 33) - 1 }), rec("cartesianZ", RType::Single { min: None, max: None })],
        ];
        let mut out = Vec::new();
        for (pi, proto) in protos.iter().enumerate() {
            for n in if t == Tier::Thorough { vec![0u32, 1, 2, 5, 9] } else { vec![1u32, 5] } {
                let lens: Vec<usize> = proto.iter().map(|r| (n as usize * r.ty.width() as usize + 7) / 8).collect();
                let step = if t == Tier::Thorough { 1 } else { 3 };
                for c0 in (0..=lens[0]).step_by(1) {
                    for c1 in (0..=lens[1]).step_by(step) {
                        for (bi, between) in [None, Some(Pk::Index(0)), Some(Pk::Index(2)), Some(Pk::Ignored(0)), Some(Pk::Ignored(3))].into_iter().enumerate() {
                            let mut packets = vec![Pk::Data(vec![c0 as u16, c1 as u16, ((c0 + c1) % (lens[2] + 1)) as u16])];
                            if let Some(b) = between {
                                packets.push(b);
                            }
                            let scene = Program {
                                guid: format!("{{layout-{pi}-{n}-{c0}-{c1}-{bi}}}"),
                                ops: vec![Op::Cloud(prog::CloudSpec { guid: "{c}".into(), proto: proto.clone(), n, seed: 77 + pi as u64, nan_ok: true, meta: Default::default(), finalize: true, clear_limits: 0, rejects: vec![] })],
                                end: prog::End::Finalize,
                            };
                            let mut cl = e57ref::encode::CloudLayout { packets, ..Default::default() };
                            cl.publish_index = bi % 2 == 1;
                            cl.header_gap = (c0 % 3) as u8;
                            out.push(Case { scene, layout: Layout { clouds: vec![cl], ..Default::default() } });
                        }
                    }
                }
            }
        }
        // many small point clouds in one file: thousands of elements and attributes in the XML section
        for clouds in [12usize, 40, 150] {
            let ops = (0..clouds)
                .map(|k| {
                    let mut proto: Vec<Rec> = ["cartesianX", "cartesianY", "cartesianZ"].iter().map(|nm| rec(nm, RType::Scaled { min: -1000, max: 1000, scale: F64(0.001), offset: F64(k as f64) })).collect();
                    proto.push(rec("intensity", RType::Int { min: 0, max: 255 }));
                    proto.push(rec("colorRed", RType::Int { min: 0, max: 255 }));
                    proto.push(rec("colorGreen", RType::Int { min: 0, max: 255 }));
                    proto.push(rec("colorBlue", RType::Int { min: 0, max: 255 }));
                    Op::Cloud(prog::CloudSpec { guid: format!("{{cloud-{k}}}"), proto, n: 2 + (k % 3) as u32, seed: k as u64, nan_ok: true, meta: Default::default(), finalize: true, clear_limits: 0, rejects: vec![] })
                })
                .collect();
            out.push(Case { scene: Program { guid: format!("{{many-clouds-{clouds}}}"), ops, end: prog::End::Finalize }, layout: Layout::default() });
        }
        // voxel-like clouds: a few bits per point and a constant record, far more than 65535 points in one data packet
        // (one packet per 60000 stream bytes by default) and more than that still outstanding behind it
        for (n, widths) in [(100_000u32, [2u32, 2, 1]), (200_000, [1, 1, 1]), (450_000, [1, 2, 1])] {
            let mut proto: Vec<Rec> = ["cartesianX", "cartesianY", "cartesianZ"].iter().zip(widths.iter()).map(|(nm, w)| rec(nm, RType::Int { min: 0, max: (1i64 << w) - 1 })).collect();
            proto.push(rec("intensity", RType::Int { min: 9, max: 9 }));
            let scene = Program {
                guid: format!("{{voxels-{n}}}"),
                ops: vec![Op::Cloud(prog::CloudSpec { guid: "{c}".into(), proto, n, seed: n as u64, nan_ok: true, meta: Default::default(), finalize: true, clear_limits: 0, rejects: vec![] })],
                end: prog::End::Finalize,
            };
            out.push(Case { scene, layout: Layout::default() });
        }
        out
    }
    fn describe_fixed(t: Tier) -> Option<String> {
        Some(format!(
            "small-scope exhaustive layouts: 3 prototypes (3-bit / double / zero-width; single / 13-bit / 64-bit; 1-bit scaled / 33-bit / single) x {} point counts x every cut position of the first two byte streams into two data packets x {{nothing, index packet, ignored packet}} between them",
            if t == Tier::Thorough { 5 } else { 2 }
        ))
    }
    fn gen(s: &mut Src, _t: Tier) -> Case {
        let o = GenOpts { density: 3, max_ops: 3, max_values: 20_000, blobs: false, ..GenOpts::default() };
        let scene = scene_spec(s, &o);
        let sc = build_scene(&scene);
        let layout = gen::layout(s, &sc);
        Case { scene, layout }
    }
    fn run(case: &Case) -> Verdict {
        let mut v = Verdict::new();
        let mut scene = build_scene(&case.scene);
        // the order of namespace declarations is not significant in XML
        scene.extensions.sort();
        // a ScaledInteger limit in the units of the attribute it limits is a raw value of that attribute
        for c in scene.clouds.iter_mut() {
            e57ref::scene::settle_limits(c, false);
            if c.meta.intensity_limits.iter().flatten().chain(c.meta.color_limits.iter().flatten()).any(|l| matches!(l, Some(LimitVal::SX { .. }))) {
                v.nt("scaled_integer_limit_with_units_of_its_own");
            }
        }
        layout_labels(&case.layout, &scene, &mut v);
        crate::c01::proto_labels(&case.scene, &mut v);
        let enc = match encode(&scene, &case.layout) {
            Ok(e) => e,
            Err(e) => {
                v.infra(format!("reference encoder failed: {e}"));
                return v;
            }
        };
        // model validity: the reference decoder must reproduce the scene
        match e57ref::decode::decode(&enc.bytes) {
            Ok(d) => {
                if let Some(c) = d.complaints.first() {
                    v.infra(format!("reference decoder complains about reference encoder output: {c}"));
                    return v;
                }
                let mut ds = d.scene.clone();
                ds.extensions.sort();
                if let Some(diff) = diff_scene(&scene, &ds, "scene", "reference_decoder") {
                    v.infra(format!("reference codec does not round-trip: {diff}"));
                    return v;
                }
            }
            Err(e) => {
                v.infra(format!("reference decoder rejects reference encoder output: {e}"));
                return v;
            }
        }
        crate::c01::layout_labels(&enc.bytes, &mut v);
        match guard(|| read_scene(MemDev::with_data(enc.bytes.clone()))) {
            Err(p) => v.fail(format!("reader panicked on a well-formed file: {p}")),
            Ok(Err(e)) => v.fail(format!("reader fails on a well-formed file: {e}")),
            Ok(Ok((mut got, _))) => {
                // a prefixed E57 namespace declaration is not an extension
                got.extensions.retain(|(_, u)| u != E57_NS);
                got.extensions.sort();
                // the API reports a limit with units of its own as the real number it stands for
                let mut scene = scene.clone();
                for c in scene.clouds.iter_mut() {
                    e57ref::scene::settle_limits(c, true);
                }
                if let Some(diff) = diff_scene(&scene, &got, "encoded", "read") {
                    v.fail(format!("reader returns other content than was encoded: {diff}"));
                }
            }
        }
        v
    }
}
