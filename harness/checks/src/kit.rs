//! Engine: choice tape (generation + shrinking), sharded deterministic runner,
//! evidence, replay files, known findings, panic capture.
use serde::de::DeserializeOwned;
use serde::{Deserialize, Serialize};
use std::collections::{BTreeMap, HashSet};
use std::panic::{catch_unwind, AssertUnwindSafe};
use std::path::{Path, PathBuf};
use std::sync::atomic::{AtomicBool, AtomicU64, Ordering};
use std::sync::Mutex;
use std::time::Instant;

/// Root of the repository under test (`/repo`, or a snapshot of it given by $E57_REPO).
pub fn repo_root() -> PathBuf {
    PathBuf::from(std::env::var("E57_REPO").unwrap_or_else(|_| "/repo".to_string()))
}

/// Root of the verification tree (`/verif`, or a snapshot of it given by $VERIF_ROOT).
pub fn verif_root() -> PathBuf {
    PathBuf::from(std::env::var("VERIF_ROOT").unwrap_or_else(|_| "/verif".to_string()))
}

#[derive(Clone, Copy, PartialEq, Eq, Debug)]
pub enum Tier {
    Quick,
    Thorough,
}
impl Tier {
    pub fn name(&self) -> &'static str {
        match self {
            Tier::Quick => "quick",
            Tier::Thorough => "thorough",
        }
    }
    pub fn pick(&self, q: usize, t: usize) -> usize {
        match self {
            Tier::Quick => q,
            Tier::Thorough => t,
        }
    }
}

pub fn splitmix(x: &mut u64) -> u64 {
    *x = x.wrapping_add(0x9E37_79B9_7F4A_7C15);
    let mut z = *x;
    z = (z ^ (z >> 30)).wrapping_mul(0xBF58_476D_1CE4_E5B9);
    z = (z ^ (z >> 27)).wrapping_mul(0x94D0_49BB_1331_11EB);
    z ^ (z >> 31)
}
pub fn mix(a: u64, b: u64) -> u64 {
    let mut x = a ^ b.wrapping_mul(0xD6E8_FEB8_6659_FD93);
    splitmix(&mut x)
}
pub fn hash_str(s: &str) -> u64 {
    let mut h: u64 = 0xcbf2_9ce4_8422_2325;
    for b in s.bytes() {
        h ^= b as u64;
        h = h.wrapping_mul(0x1000_0000_01b3);
    }
    h
}

/// Source of choices.  Either records fresh pseudo random bytes (seeded) or
/// replays a tape (zeros after its end).  Every generated case is a pure
/// function of its tape, so shrinking works on the tape.
pub struct Src {
    tape: Vec<u8>,
    pos: usize,
    rng: Option<u64>,
    buf: u64,
    buf_left: u32,
}
impl Src {
    pub fn from_seed(seed: u64) -> Self {
        Src { tape: Vec::new(), pos: 0, rng: Some(seed), buf: 0, buf_left: 0 }
    }
    pub fn from_tape(tape: Vec<u8>) -> Self {
        Src { tape, pos: 0, rng: None, buf: 0, buf_left: 0 }
    }
    pub fn tape(&self) -> &[u8] {
        &self.tape[..self.pos.min(self.tape.len())]
    }
    pub fn byte(&mut self) -> u8 {
        if let Some(state) = &mut self.rng {
            if self.buf_left == 0 {
                self.buf = splitmix(state);
                self.buf_left = 8;
            }
            let b = (self.buf & 0xff) as u8;
            self.buf >>= 8;
            self.buf_left -= 1;
            self.tape.push(b);
            self.pos += 1;
            b
        } else {
            let b = self.tape.get(self.pos).copied().unwrap_or(0);
            self.pos += 1;
            b
        }
    }
    pub fn u16(&mut self) -> u16 {
        u16::from_le_bytes([self.byte(), self.byte()])
    }
    pub fn u32(&mut self) -> u32 {
        u32::from_le_bytes([self.byte(), self.byte(), self.byte(), self.byte()])
    }
    pub fn u64(&mut self) -> u64 {
        let mut b = [0u8; 8];
        for x in &mut b {
            *x = self.byte();
        }
        u64::from_le_bytes(b)
    }
    /// Uniform-ish in 0..n (n >= 1), monotone in the tape bytes.
    pub fn below(&mut self, n: u64) -> u64 {
        if n <= 1 {
            return 0;
        }
        if n <= 256 {
            (self.byte() as u64 * n) >> 8
        } else if n <= 65536 {
            (self.u16() as u64 * n) >> 16
        } else if n <= 1 << 32 {
            (self.u32() as u64 * n) >> 32
        } else {
            ((self.u64() as u128 * n as u128) >> 64) as u64
        }
    }
    pub fn range(&mut self, lo: i64, hi: i64) -> i64 {
        // inclusive
        let span = (hi as i128 - lo as i128 + 1) as u128;
        if span > u64::MAX as u128 {
            return self.u64() as i64;
        }
        (lo as i128 + self.below(span as u64) as i128) as i64
    }
    pub fn usize_in(&mut self, lo: usize, hi: usize) -> usize {
        self.range(lo as i64, hi as i64) as usize
    }
    pub fn flag(&mut self) -> bool {
        self.byte() & 1 == 1
    }
    /// true with probability num/den; a zero tape yields false.
    pub fn chance(&mut self, num: u64, den: u64) -> bool {
        self.below(den) >= den - num
    }
    pub fn pick<'a, T>(&mut self, xs: &'a [T]) -> &'a T {
        &xs[self.below(xs.len() as u64) as usize]
    }
    /// Index chosen with the given weights (first entry for a zero tape).
    pub fn weighted(&mut self, ws: &[u32]) -> usize {
        let total: u64 = ws.iter().map(|w| *w as u64).sum();
        let mut v = self.below(total.max(1));
        for (i, w) in ws.iter().enumerate() {
            if v < *w as u64 {
                return i;
            }
            v -= *w as u64;
        }
        ws.len() - 1
    }
}

#[derive(Clone, Debug)]
pub enum Outcome {
    Pass,
    /// failure matching the signature of a listed known finding
    Known { key: String, detail: String },
    Fail(String),
    /// the harness / reference model is at fault: exit 2, never a violation
    Infra(String),
}

#[derive(Clone, Debug)]
pub struct Verdict {
    pub labels: Vec<String>,
    pub nontrivial: bool,
    pub outcome: Outcome,
    /// number of executions of the code under test this case stands for
    pub execs: u64,
}
impl Verdict {
    pub fn new() -> Self {
        Verdict { labels: Vec::new(), nontrivial: false, outcome: Outcome::Pass, execs: 1 }
    }
    pub fn label(&mut self, l: &str) {
        if !self.labels.iter().any(|x| x == l) {
            self.labels.push(l.to_string());
        }
    }
    pub fn nt(&mut self, l: &str) {
        self.label(l);
        self.nontrivial = true;
    }
    pub fn fail(&mut self, m: impl Into<String>) {
        if matches!(self.outcome, Outcome::Pass | Outcome::Known { .. }) {
            self.outcome = Outcome::Fail(m.into());
        }
    }
    pub fn infra(&mut self, m: impl Into<String>) {
        self.outcome = Outcome::Infra(m.into());
    }
    pub fn known(&mut self, key: &str, detail: impl Into<String>) {
        if matches!(self.outcome, Outcome::Pass) {
            self.outcome = Outcome::Known { key: key.to_string(), detail: detail.into() };
        }
    }
    pub fn failed(&self) -> bool {
        matches!(self.outcome, Outcome::Fail(_))
    }
}

#[derive(Clone, Copy, Debug, PartialEq)]
pub enum Level {
    Exploration,
    FaultEnumeration,
}
impl Level {
    pub fn name(&self) -> &'static str {
        match self {
            Level::Exploration => "exploration",
            Level::FaultEnumeration => "fault_enumeration",
        }
    }
}

pub trait Check: Sync + Send + 'static {
    type Case: Serialize + DeserializeOwned + Send + Sync + Clone;
    const ID: &'static str;
    fn level() -> Level {
        Level::Exploration
    }
    /// How cases are generated and what makes one non-trivial.
    fn rule() -> String;
    fn assumptions() -> Vec<String> {
        Vec::new()
    }
    /// Number of random cases.
    fn budget(tier: Tier) -> usize;
    /// Enumerated (seed independent) cases, run before the random ones.
    fn fixed(_tier: Tier) -> Vec<Self::Case> {
        Vec::new()
    }
    fn describe_fixed(_tier: Tier) -> Option<String> {
        None
    }
    fn gen(src: &mut Src, tier: Tier) -> Self::Case;
    fn run(case: &Self::Case) -> Verdict;
    /// Model validity etc.; Err => exit 2.
    fn preflight() -> Result<(), String> {
        Ok(())
    }
    /// Extra keys merged into evidence.coverage.
    fn extra_coverage() -> BTreeMap<String, serde_json::Value> {
        BTreeMap::new()
    }
    /// Run every case in a supervised worker subprocess (the code under test may
    /// abort, exhaust memory or hang).
    fn isolated() -> bool {
        false
    }
    /// Watchdog per case in isolated mode (seconds); a backstop, not an oracle.
    fn case_timeout_s() -> u64 {
        20
    }
    /// The check calls `kit::phase("code-under-test")` before handing control to the
    /// library; a hang before that point is the harness's and is reported as exit 2.
    fn announces_phase() -> bool {
        false
    }
}

// ---------------------------------------------------------------- panics

thread_local! {
    static LAST_PANIC: std::cell::RefCell<Option<String>> = const { std::cell::RefCell::new(None) };
}

pub fn install_panic_hook() {
    std::panic::set_hook(Box::new(|info| {
        let msg = if let Some(s) = info.payload().downcast_ref::<&str>() {
            s.to_string()
        } else if let Some(s) = info.payload().downcast_ref::<String>() {
            s.clone()
        } else {
            "non-string panic payload".to_string()
        };
        let loc = info.location().map(|l| format!("{}:{}", l.file(), l.line())).unwrap_or_default();
        LAST_PANIC.with(|p| *p.borrow_mut() = Some(format!("{msg} at {loc}")));
    }));
}

/// Run a closure, turning a panic into Err(message with location).
pub fn guard<T>(f: impl FnOnce() -> T) -> Result<T, String> {
    match catch_unwind(AssertUnwindSafe(f)) {
        Ok(v) => Ok(v),
        Err(_) => Err(LAST_PANIC.with(|p| p.borrow_mut().take()).unwrap_or_else(|| "panic".to_string())),
    }
}

// ------------------------------------------------------- known findings

#[derive(Clone, Debug, Serialize, Deserialize)]
pub struct KnownFinding {
    pub property: String,
    pub key: String,
    /// "open" or "fixed"
    pub status: String,
    pub what: String,
    #[serde(default)]
    pub commit: Option<String>,
    #[serde(default)]
    pub replay: Option<String>,
}

pub fn load_known() -> Vec<KnownFinding> {
    let p = verif_root().join("known_findings.json");
    match std::fs::read_to_string(&p) {
        Ok(s) => match serde_json::from_str::<Vec<KnownFinding>>(&s) {
            Ok(v) => v,
            Err(e) => {
                eprintln!("cannot parse {}: {e}", p.display());
                std::process::exit(2);
            }
        },
        Err(_) => Vec::new(),
    }
}

// ----------------------------------------------------------------- replay

#[derive(Serialize, Deserialize)]
pub struct ReplayFile<C> {
    pub property: String,
    pub message: String,
    pub case: C,
    #[serde(default)]
    pub tape_hex: Option<String>,
}

fn hex(b: &[u8]) -> String {
    b.iter().map(|x| format!("{x:02x}")).collect()
}

pub fn out_dir() -> PathBuf {
    let d = verif_root().join("out").join("replays");
    let _ = std::fs::create_dir_all(&d);
    d
}

fn run_guarded<C: Check>(case: &C::Case) -> Verdict {
    match guard(|| C::run(case)) {
        Ok(v) => v,
        Err(p) => {
            let mut v = Verdict::new();
            v.fail(format!("check harness or code under test panicked outside a guarded call: {p}"));
            v
        }
    }
}

/// Apply the known-findings list: a `Known` outcome whose key is not listed
/// as open for this property is a plain failure.
fn settle(id: &str, known: &[KnownFinding], mut v: Verdict) -> Verdict {
    if let Outcome::Known { key, detail } = &v.outcome {
        let open = known.iter().any(|k| k.property == id && k.key == *key && k.status == "open");
        if !open {
            v.outcome = Outcome::Fail(format!("{detail} [signature {key}]"));
        }
    }
    v
}

struct Found<C> {
    index: usize,
    tape: Option<Vec<u8>>,
    case: C,
    message: String,
}

fn shrink<C: Check>(tier: Tier, known: &[KnownFinding], tape: Vec<u8>, budget: usize) -> (Vec<u8>, usize) {
    let fails = |t: &[u8]| -> bool {
        let mut src = Src::from_tape(t.to_vec());
        let case = match guard(|| C::gen(&mut src, tier)) {
            Ok(c) => c,
            Err(_) => return false,
        };
        settle(C::ID, known, run_guarded::<C>(&case)).failed()
    };
    let mut best = tape;
    let mut tries = 0usize;
    let started = Instant::now();
    let mut progress = true;
    while progress && tries < budget && started.elapsed().as_secs() < 120 {
        progress = false;
        // delete chunks
        for size in [64usize, 32, 16, 8, 4, 2, 1] {
            let mut i = 0;
            while i + size <= best.len() && tries < budget {
                let mut t = best.clone();
                t.drain(i..i + size);
                tries += 1;
                if fails(&t) {
                    best = t;
                    progress = true;
                } else {
                    i += size;
                }
            }
        }
        // truncate trailing zeros (equivalent tape)
        while best.last() == Some(&0) {
            best.pop();
        }
        // zero, then halve bytes
        let mut i = 0;
        while i < best.len() && tries < budget {
            if best[i] != 0 {
                for cand in [0u8, best[i] / 2, best[i] - 1] {
                    if cand >= best[i] {
                        continue;
                    }
                    let mut t = best.clone();
                    t[i] = cand;
                    tries += 1;
                    if fails(&t) {
                        best = t;
                        progress = true;
                        break;
                    }
                }
            }
            i += 1;
        }
    }
    (best, tries)
}

pub struct RunOpts {
    pub tier: Tier,
    pub seed: u64,
    pub replay: Option<PathBuf>,
    pub threads: usize,
    pub budget_override: Option<usize>,
    pub strict: bool,
    /// worker mode: (shard, shards, first index)
    pub worker: Option<(usize, usize, usize)>,
    /// run inside a supervised child (no further process isolation)
    pub inner: bool,
    /// shrink the tape stored in this file and print the result (child of the supervisor)
    pub shrink_file: Option<PathBuf>,
}

fn trim_sample(v: serde_json::Value) -> serde_json::Value {
    let s = v.to_string();
    if s.len() > 6000 {
        serde_json::json!({"truncated_case_json": format!("{}...", &s[..6000.min(s.len())].chars().take(3000).collect::<String>()), "full_length": s.len()})
    } else {
        v
    }
}

/// Run one check; returns the process exit code.
pub fn run_check<C: Check>(opts: &RunOpts) -> i32 {
    if opts.worker.is_some() {
        return worker_main::<C>(opts);
    }
    if opts.shrink_file.is_some() {
        return shrink_main::<C>(opts);
    }
    if C::isolated() && !opts.inner {
        if let Some(path) = &opts.replay {
            return match replay_supervised(C::ID, opts, path, C::case_timeout_s() * 3) {
                ReplayEnd::Pass => {
                    println!("{}: replay passes", C::ID);
                    0
                }
                ReplayEnd::Known(k) => {
                    println!("KNOWN-FINDING: property={} {k}", C::ID);
                    0
                }
                ReplayEnd::Fail(m) => {
                    println!("{}: replay fails: {m}", C::ID);
                    println!("VIOLATION property={} replay={}", C::ID, path.display());
                    1
                }
                ReplayEnd::Infra(m) => {
                    eprintln!("{}: infrastructure problem: {m}", C::ID);
                    2
                }
            };
        }
        return supervise::<C>(opts);
    }
    if opts.inner {
        limit_process_memory();
    }
    let started = Instant::now();
    let id = C::ID;
    let known = load_known();
    if let Err(e) = C::preflight() {
        eprintln!("{id}: preflight failed (model validity / infrastructure): {e}");
        return 2;
    }

    // ---- replay mode
    if let Some(path) = &opts.replay {
        let text = match std::fs::read_to_string(path) {
            Ok(t) => t,
            Err(e) => {
                eprintln!("cannot read {}: {e}", path.display());
                return 2;
            }
        };
        let rf: ReplayFile<C::Case> = match serde_json::from_str(&text) {
            Ok(r) => r,
            Err(e) => {
                eprintln!("cannot parse replay file {}: {e}", path.display());
                return 2;
            }
        };
        let v = run_guarded::<C>(&rf.case);
        let v = if opts.strict { strict(v) } else { settle(id, &known, v) };
        return match v.outcome {
            Outcome::Pass => {
                println!("{id}: replay passes");
                0
            }
            Outcome::Known { key, detail } => {
                println!("KNOWN-FINDING: property={id} {key}: {detail}");
                0
            }
            Outcome::Infra(m) => {
                eprintln!("{id}: infrastructure problem: {m}");
                2
            }
            Outcome::Fail(m) => {
                println!("{id}: replay fails: {m}");
                println!("VIOLATION property={id} replay={}", path.display());
                1
            }
        };
    }

    let evals = AtomicU64::new(0);
    let execs = AtomicU64::new(0);
    let stop = AtomicBool::new(false);
    let labels: Mutex<BTreeMap<String, u64>> = Mutex::new(BTreeMap::new());
    let distinct: Mutex<HashSet<u64>> = Mutex::new(HashSet::new());
    let known_hits: Mutex<BTreeMap<String, u64>> = Mutex::new(BTreeMap::new());
    let samples: Mutex<Vec<serde_json::Value>> = Mutex::new(Vec::new());
    let nt_samples: Mutex<Vec<serde_json::Value>> = Mutex::new(Vec::new());
    let found: Mutex<Option<Found<C::Case>>> = Mutex::new(None);

    let account = |case: &C::Case, v: &Verdict, idx: usize| {
        evals.fetch_add(1, Ordering::Relaxed);
        execs.fetch_add(v.execs, Ordering::Relaxed);
        {
            let mut l = labels.lock().unwrap();
            for x in &v.labels {
                *l.entry(x.clone()).or_insert(0) += 1;
            }
        }
        if v.nontrivial {
            let js = serde_json::to_string(case).unwrap_or_default();
            let fp = hash_str(&js);
            let fresh = distinct.lock().unwrap().insert(fp);
            if fresh {
                let mut s = nt_samples.lock().unwrap();
                if s.len() < 3 {
                    s.push(trim_sample(serde_json::to_value(case).unwrap_or_default()));
                }
            }
        }
        if idx < 2 {
            samples.lock().unwrap().push(trim_sample(serde_json::to_value(case).unwrap_or_default()));
        }
        if let Outcome::Known { key, .. } = &v.outcome {
            *known_hits.lock().unwrap().entry(key.clone()).or_insert(0) += 1;
        }
    };

    // ---- committed regression replays (seconds-long tier)
    let mut regressions = 0usize;
    let rdir = verif_root().join("replays").join(id);
    let mut reg_files: Vec<PathBuf> = std::fs::read_dir(&rdir).map(|d| d.flatten().map(|e| e.path()).filter(|p| p.extension().map(|e| e == "json").unwrap_or(false)).collect()).unwrap_or_default();
    reg_files.sort();
    let mut known_replays: BTreeMap<String, bool> = BTreeMap::new();
    for p in &reg_files {
        let text = std::fs::read_to_string(p).unwrap_or_default();
        let rf: ReplayFile<C::Case> = match serde_json::from_str(&text) {
            Ok(r) => r,
            Err(e) => {
                eprintln!("{id}: cannot parse regression replay {}: {e}", p.display());
                return 2;
            }
        };
        let v = settle(id, &known, run_guarded::<C>(&rf.case));
        regressions += 1;
        evals.fetch_add(1, Ordering::Relaxed);
        execs.fetch_add(v.execs, Ordering::Relaxed);
        match &v.outcome {
            Outcome::Fail(m) => {
                println!("{id}: regression replay {} fails: {m}", p.display());
                println!("VIOLATION property={id} replay={}", p.display());
                write_evidence::<C>(opts, started, evals.load(Ordering::Relaxed), execs.load(Ordering::Relaxed), &labels, &distinct, &known_hits, &samples, &nt_samples, regressions, 0, 1);
                return 1;
            }
            Outcome::Known { key, .. } => {
                known_replays.insert(key.clone(), true);
                *known_hits.lock().unwrap().entry(key.clone()).or_insert(0) += 1;
            }
            Outcome::Infra(m) => {
                eprintln!("{id}: infrastructure problem in regression replay {}: {m}", p.display());
                return 2;
            }
            Outcome::Pass => {}
        }
    }

    // ---- enumerated cases, then random cases, sharded over threads
    let fixed = C::fixed(opts.tier);
    let nfixed = fixed.len();
    let nrandom = opts.budget_override.unwrap_or_else(|| C::budget(opts.tier));
    let total = nfixed + nrandom;
    let base = mix(opts.seed, hash_str(id));
    let threads = opts.threads.max(1);
    // stall monitor: a case that does not finish (a hang in the code under test or in the harness) must not
    // block the check forever; it is reported as inconclusive (exit 2), never as a violation
    let stall_s: u64 = std::env::var("E57_STALL_S").ok().and_then(|v| v.parse().ok()).unwrap_or(300);
    let busy: Vec<(AtomicU64, AtomicU64)> = (0..threads).map(|_| (AtomicU64::new(0), AtomicU64::new(0))).collect();
    let workers_done = AtomicU64::new(0);
    let t0 = Instant::now();
    std::thread::scope(|sc| {
        {
            let busy = &busy;
            let workers_done = &workers_done;
            let fixed = &fixed;
            let tier = opts.tier;
            sc.spawn(move || {
                while workers_done.load(Ordering::Relaxed) < threads as u64 {
                    std::thread::sleep(std::time::Duration::from_millis(500));
                    let now = t0.elapsed().as_millis() as u64 + 1;
                    for (since, idx) in busy.iter() {
                        let st = since.load(Ordering::Relaxed);
                        if st != 0 && now.saturating_sub(st) > stall_s * 1000 {
                            let i = idx.load(Ordering::Relaxed) as usize;
                            eprintln!("{id}: inconclusive: case #{i} did not finish within {stall_s} s (hang or extreme slowness; not reported as a violation)");
                            let (case, _) = case_for::<C>(fixed, i, base, tier);
                            let js = serde_json::to_string_pretty(&ReplayFile { property: id.to_string(), message: format!("did not finish within {stall_s} s"), case, tape_hex: None }).unwrap_or_default();
                            let path = out_dir().join(format!("{id}-stall-{:016x}.json", hash_str(&js)));
                            let _ = std::fs::write(&path, js);
                            eprintln!("case written to {}", path.display());
                            std::process::exit(2);
                        }
                    }
                }
            });
        }
        for t in 0..threads {
            let fixed = &fixed;
            let busy = &busy;
            let workers_done = &workers_done;
            let stop = &stop;
            let found = &found;
            let account = &account;
            let known = &known;
            let tier = opts.tier;
            sc.spawn(move || {
                let mut idx = t;
                while idx < total {
                    if stop.load(Ordering::Relaxed) {
                        break;
                    }
                    let (case, tape) = if idx < nfixed {
                        (fixed[idx].clone(), None)
                    } else {
                        let mut src = Src::from_seed(mix(base, idx as u64));
                        match guard(|| C::gen(&mut src, tier)) {
                            Ok(c) => (c, Some(src.tape().to_vec())),
                            Err(p) => {
                                eprintln!("{}: generator panicked: {p}", C::ID);
                                std::process::exit(2);
                            }
                        }
                    };
                    busy[t].1.store(idx as u64, Ordering::Relaxed);
                    busy[t].0.store(t0.elapsed().as_millis() as u64 + 1, Ordering::Relaxed);
                    let v = settle(C::ID, known, run_guarded::<C>(&case));
                    busy[t].0.store(0, Ordering::Relaxed);
                    account(&case, &v, idx);
                    if let Outcome::Infra(m) = &v.outcome {
                        eprintln!("{}: infrastructure problem (harness or reference model, not the code under test) in case #{idx}: {m}", C::ID);
                        let js = serde_json::to_string_pretty(&case).unwrap_or_default();
                        let path = out_dir().join(format!("{}-infra-{:016x}.json", C::ID, hash_str(&js)));
                        let _ = std::fs::write(&path, js);
                        eprintln!("case written to {}", path.display());
                        std::process::exit(2);
                    }
                    if let Outcome::Fail(m) = &v.outcome {
                        let mut f = found.lock().unwrap();
                        if f.as_ref().map(|x| idx < x.index).unwrap_or(true) {
                            *f = Some(Found { index: idx, tape, case: case.clone(), message: m.clone() });
                        }
                        stop.store(true, Ordering::Relaxed);
                        break;
                    }
                    idx += threads;
                }
                busy[t].0.store(0, Ordering::Relaxed);
                workers_done.fetch_add(1, Ordering::Relaxed);
            });
        }
    });

    let found = found.into_inner().unwrap();
    let mut violations = 0;
    let mut code = 0;
    if let Some(f) = found {
        violations = 1;
        code = 1;
        // shrink (random cases only)
        let (case, message, tape) = match f.tape {
            Some(t) => {
                let (small, tries) = shrink::<C>(opts.tier, &known, t, 1500);
                let mut src = Src::from_tape(small.clone());
                let case = C::gen(&mut src, opts.tier);
                let v = settle(id, &known, run_guarded::<C>(&case));
                match v.outcome {
                    Outcome::Fail(m) => {
                        eprintln!("{id}: shrunk failing case with {tries} re-executions");
                        (case, m, Some(small))
                    }
                    _ => (f.case, f.message, None),
                }
            }
            None => (f.case, f.message, None),
        };
        let rf = ReplayFile { property: id.to_string(), message: message.clone(), case, tape_hex: tape.as_ref().map(|t| hex(t)) };
        let js = serde_json::to_string_pretty(&rf).unwrap_or_default();
        let path = out_dir().join(format!("{id}-{:016x}.json", hash_str(&js)));
        let _ = std::fs::write(&path, js);
        println!("{id}: case #{} failed: {message}", f.index);
        println!("VIOLATION property={id} replay={}", path.display());
    }

    // ---- known findings: re-establish each open entry from its recorded input
    for k in known.iter().filter(|k| k.property == id && k.status == "open") {
        let still = match &k.replay {
            Some(r) => {
                let p = verif_root().join(r);
                match std::fs::read_to_string(&p).ok().and_then(|t| serde_json::from_str::<ReplayFile<C::Case>>(&t).ok()) {
                    Some(rf) => matches!(run_guarded::<C>(&rf.case).outcome, Outcome::Known { ref key, .. } if *key == k.key),
                    None => {
                        eprintln!("{id}: known finding {} has no readable replay file {}", k.key, p.display());
                        return 2;
                    }
                }
            }
            None => known_hits.lock().unwrap().contains_key(&k.key),
        };
        if still {
            println!("KNOWN-FINDING: property={id} {}: {}", k.key, k.what);
        }
    }

    write_evidence::<C>(opts, started, evals.load(Ordering::Relaxed), execs.load(Ordering::Relaxed), &labels, &distinct, &known_hits, &samples, &nt_samples, regressions, nfixed, violations);
    let e = evals.load(Ordering::Relaxed);
    let d = distinct.lock().unwrap().len();
    println!("{id}: tier={} seed={} evaluations={e} executions={} distinct_nontrivial={d} wall={:.1}s -> {}", opts.tier.name(), opts.seed, execs.load(Ordering::Relaxed), started.elapsed().as_secs_f64(), if code == 0 { "held" } else { "VIOLATED" });
    code
}

fn strict(mut v: Verdict) -> Verdict {
    if let Outcome::Known { key, detail } = &v.outcome {
        v.outcome = Outcome::Fail(format!("{detail} [signature {key}]"));
    }
    v
}

#[allow(clippy::too_many_arguments)]
fn write_evidence<C: Check>(
    opts: &RunOpts,
    started: Instant,
    evals: u64,
    execs: u64,
    labels: &Mutex<BTreeMap<String, u64>>,
    distinct: &Mutex<HashSet<u64>>,
    known_hits: &Mutex<BTreeMap<String, u64>>,
    samples: &Mutex<Vec<serde_json::Value>>,
    nt_samples: &Mutex<Vec<serde_json::Value>>,
    regressions: usize,
    nfixed: usize,
    violations: i64,
) {
    let mut all_samples = samples.lock().unwrap().clone();
    all_samples.extend(nt_samples.lock().unwrap().iter().cloned());
    let mut cov = serde_json::Map::new();
    cov.insert("evaluations".into(), evals.into());
    cov.insert("executions_of_code_under_test".into(), execs.into());
    cov.insert("distinct_nontrivial".into(), (distinct.lock().unwrap().len() as u64).into());
    cov.insert("rule".into(), C::rule().into());
    cov.insert("samples".into(), serde_json::Value::Array(all_samples));
    cov.insert("exhaustive".into(), false.into());
    cov.insert("label_histogram".into(), serde_json::to_value(&*labels.lock().unwrap()).unwrap_or_default());
    cov.insert("known_finding_hits".into(), serde_json::to_value(&*known_hits.lock().unwrap()).unwrap_or_default());
    cov.insert("regression_replays".into(), (regressions as u64).into());
    cov.insert("enumerated_cases".into(), (nfixed as u64).into());
    if let Some(d) = C::describe_fixed(opts.tier) {
        cov.insert("exhaustive_core".into(), d.into());
    }
    for (k, v) in C::extra_coverage() {
        cov.insert(k, v);
    }
    if let Ok(f) = std::env::var("E57_FUZZ_SUMMARY") {
        if let Some(v) = std::fs::read_to_string(&f).ok().and_then(|t| serde_json::from_str::<serde_json::Value>(&t).ok()) {
            cov.insert("fuzz_campaign".into(), v);
        }
    }
    let ev = serde_json::json!({
        "property_id": C::ID,
        "tier": opts.tier.name(),
        "seed": opts.seed,
        "level": C::level().name(),
        "coverage": cov,
        "assumptions": C::assumptions(),
        "wall_s": started.elapsed().as_secs_f64(),
        "violations": violations,
    });
    let dir = verif_root().join("evidence");
    let _ = std::fs::create_dir_all(&dir);
    let path = dir.join(format!("{}.json", C::ID));
    if let Err(e) = std::fs::write(&path, serde_json::to_string_pretty(&ev).unwrap_or_default()) {
        eprintln!("cannot write {}: {e}", path.display());
    }
}

/// Deterministic pseudo random bytes for blob contents etc.
pub fn fill_bytes(seed: u64, len: usize) -> Vec<u8> {
    let mut s = seed;
    let mut out = Vec::with_capacity(len + 8);
    while out.len() < len {
        out.extend_from_slice(&splitmix(&mut s).to_le_bytes());
    }
    out.truncate(len);
    out
}

// ------------------------------------------------------------------ isolation

static WORKER_MODE: AtomicBool = AtomicBool::new(false);

/// Worker processes announce when a case hands control to the code under test, so
/// that the supervisor can tell a hang of the library from a slow harness step.
pub fn phase(name: &str) {
    if WORKER_MODE.load(Ordering::Relaxed) {
        use std::io::Write;
        let out = std::io::stdout();
        let mut o = out.lock();
        let _ = writeln!(o, "{}", serde_json::json!({"t": "phase", "p": name}));
        let _ = o.flush();
    }
}

fn unhex(s: &str) -> Vec<u8> {
    (0..s.len() / 2).filter_map(|i| u8::from_str_radix(&s[2 * i..2 * i + 2], 16).ok()).collect()
}

fn case_for<C: Check>(fixed: &[C::Case], idx: usize, base: u64, tier: Tier) -> (C::Case, Option<Vec<u8>>) {
    if idx < fixed.len() {
        (fixed[idx].clone(), None)
    } else {
        let mut src = Src::from_seed(mix(base, idx as u64));
        match guard(|| C::gen(&mut src, tier)) {
            Ok(c) => (c, Some(src.tape().to_vec())),
            Err(p) => {
                eprintln!("{}: generator panicked: {p}", C::ID);
                std::process::exit(2);
            }
        }
    }
}

fn limit_process_memory() {
    crate::alloc::HARD_CAP.store(1 << 30, Ordering::Relaxed);
    unsafe {
        let lim = libc::rlimit { rlim_cur: 12 << 30, rlim_max: 12 << 30 };
        libc::setrlimit(libc::RLIMIT_AS, &lim);
    }
}

/// Worker: runs its share of the case indices and reports one JSON line per event.
pub fn worker_main<C: Check>(opts: &RunOpts) -> i32 {
    use std::io::Write;
    let (shard, shards, from) = opts.worker.unwrap_or((0, 1, 0));
    WORKER_MODE.store(true, Ordering::Relaxed);
    limit_process_memory();
    let known = load_known();
    let fixed = C::fixed(opts.tier);
    let total = fixed.len() + opts.budget_override.unwrap_or_else(|| C::budget(opts.tier));
    let base = mix(opts.seed, hash_str(C::ID));
    let out = std::io::stdout();
    let mut idx = from;
    while idx % shards != shard {
        idx += 1;
    }
    while idx < total {
        let (case, tape) = case_for::<C>(&fixed, idx, base, opts.tier);
        {
            let mut o = out.lock();
            let _ = writeln!(o, "{}", serde_json::json!({"t": "start", "i": idx}));
            let _ = o.flush();
        }
        let v = settle(C::ID, &known, run_guarded::<C>(&case));
        let js = serde_json::to_string(&case).unwrap_or_default();
        let (kind, key, msg) = match &v.outcome {
            Outcome::Pass => ("pass", String::new(), String::new()),
            Outcome::Known { key, detail } => ("known", key.clone(), detail.clone()),
            Outcome::Fail(m) => ("fail", String::new(), m.clone()),
            Outcome::Infra(m) => ("infra", String::new(), m.clone()),
        };
        let send_case = idx < 2 || v.nontrivial || kind == "fail" || kind == "infra";
        let line = serde_json::json!({
            "t": "done", "i": idx, "labels": v.labels, "nt": v.nontrivial, "out": kind, "key": key, "msg": msg, "execs": v.execs,
            "fp": hash_str(&js), "case": if send_case && js.len() < 200_000 { serde_json::from_str::<serde_json::Value>(&js).ok() } else { None },
            "tape": tape.as_ref().map(|t| hex(t)),
        });
        let mut o = out.lock();
        let _ = writeln!(o, "{line}");
        let _ = o.flush();
        idx += shards;
    }
    0
}

/// Child of the supervisor: shrink a failing tape in this process and print the result.
pub fn shrink_main<C: Check>(opts: &RunOpts) -> i32 {
    limit_process_memory();
    let known = load_known();
    let Some(f) = &opts.shrink_file else { return 2 };
    let tape = unhex(std::fs::read_to_string(f).unwrap_or_default().trim());
    let (small, tries) = shrink::<C>(opts.tier, &known, tape, 1500);
    let mut src = Src::from_tape(small.clone());
    let case = C::gen(&mut src, opts.tier);
    let v = settle(C::ID, &known, run_guarded::<C>(&case));
    if let Outcome::Fail(m) = v.outcome {
        println!("{}", serde_json::json!({"tape": hex(&small), "case": serde_json::to_value(&case).unwrap_or_default(), "message": m, "tries": tries}));
        0
    } else {
        1
    }
}

enum Ev {
    Line(String),
    Eof,
}

struct Child {
    child: std::process::Child,
    rx: std::sync::mpsc::Receiver<Ev>,
    stderr_path: PathBuf,
}

fn spawn_self(args: &[String], tag: &str) -> std::io::Result<Child> {
    use std::io::BufRead;
    let exe = std::env::current_exe()?;
    let dir = verif_root().join("out").join("workers");
    std::fs::create_dir_all(&dir)?;
    let stderr_path = dir.join(format!("{}-{}.stderr", std::process::id(), tag));
    let errf = std::fs::File::create(&stderr_path)?;
    let mut child = std::process::Command::new(exe).args(args).env("RUST_BACKTRACE", "0").stdout(std::process::Stdio::piped()).stderr(errf).stdin(std::process::Stdio::null()).spawn()?;
    let stdout = child.stdout.take().ok_or_else(|| std::io::Error::new(std::io::ErrorKind::Other, "no stdout"))?;
    let (tx, rx) = std::sync::mpsc::channel();
    std::thread::spawn(move || {
        let r = std::io::BufReader::new(stdout);
        for line in r.lines() {
            match line {
                Ok(l) => {
                    if tx.send(Ev::Line(l)).is_err() {
                        return;
                    }
                }
                Err(_) => break,
            }
        }
        let _ = tx.send(Ev::Eof);
    });
    Ok(Child { child, rx, stderr_path })
}

fn stderr_tail(p: &Path) -> String {
    let t = std::fs::read_to_string(p).unwrap_or_default();
    let lines: Vec<&str> = t.lines().filter(|l| !l.trim().is_empty()).collect();
    let key: Vec<&str> = lines.iter().copied().filter(|l| l.contains("memory allocation") || l.contains("panicked") || l.contains("overflow") || l.contains("fatal")).collect();
    if !key.is_empty() {
        return key[..key.len().min(3)].join(" | ");
    }
    lines[lines.len().saturating_sub(4)..].join(" | ")
}

/// How a single case ends when run alone in a fresh process.
enum Alone {
    Done(serde_json::Value),
    Died(String),
    /// hung; the flag tells whether the code under test had been entered
    Hung(bool),
}

fn run_alone(id: &str, opts: &RunOpts, idx: usize, timeout_s: u64) -> Alone {
    let mut args = vec![id.to_string(), opts.tier.name().to_string(), "--worker".into(), format!("{idx}"), "1000000007".into(), format!("{idx}")];
    if let Some(b) = opts.budget_override {
        args.push("--cases".into());
        args.push(b.to_string());
    }
    // the shard arithmetic: index idx, stride huge => exactly one case
    let Ok(mut c) = spawn_self(&args, &format!("alone-{idx}")) else { return Alone::Died("cannot spawn".into()) };
    let deadline = Instant::now() + std::time::Duration::from_secs(timeout_s);
    let mut done = None;
    let mut entered = false;
    loop {
        let left = deadline.saturating_duration_since(Instant::now());
        match c.rx.recv_timeout(left) {
            Ok(Ev::Line(l)) => {
                if let Ok(v) = serde_json::from_str::<serde_json::Value>(&l) {
                    if v["t"] == "done" {
                        done = Some(v);
                    } else if v["t"] == "phase" {
                        entered = true;
                    }
                }
            }
            Ok(Ev::Eof) | Err(std::sync::mpsc::RecvTimeoutError::Disconnected) => break,
            Err(std::sync::mpsc::RecvTimeoutError::Timeout) => {
                let _ = c.child.kill();
                let _ = c.child.wait();
                let _ = std::fs::remove_file(&c.stderr_path);
                return Alone::Hung(entered);
            }
        }
    }
    let st = c.child.wait();
    let tail = stderr_tail(&c.stderr_path);
    let _ = std::fs::remove_file(&c.stderr_path);
    match done {
        Some(v) => Alone::Done(v),
        None => Alone::Died(format!("worker process ended with {st:?}: {tail}")),
    }
}

/// Supervisor for isolated checks: same accounting as the in-process runner.
pub fn supervise<C: Check>(opts: &RunOpts) -> i32 {
    let started = Instant::now();
    let id = C::ID;
    let known = load_known();
    if let Err(e) = C::preflight() {
        eprintln!("{id}: preflight failed (model validity / infrastructure): {e}");
        return 2;
    }
    let fixed_n = C::fixed(opts.tier).len();
    let total = fixed_n + opts.budget_override.unwrap_or_else(|| C::budget(opts.tier));
    let shards = opts.threads.max(1);
    let evals = AtomicU64::new(0);
    let execs = AtomicU64::new(0);
    let stop = AtomicBool::new(false);
    let labels: Mutex<BTreeMap<String, u64>> = Mutex::new(BTreeMap::new());
    let distinct: Mutex<HashSet<u64>> = Mutex::new(HashSet::new());
    let known_hits: Mutex<BTreeMap<String, u64>> = Mutex::new(BTreeMap::new());
    let samples: Mutex<Vec<serde_json::Value>> = Mutex::new(Vec::new());
    let nt_samples: Mutex<Vec<serde_json::Value>> = Mutex::new(Vec::new());
    // (index, message, case json, tape hex)
    let found: Mutex<Option<(usize, String, serde_json::Value, Option<String>)>> = Mutex::new(None);
    let inconclusive: Mutex<Vec<String>> = Mutex::new(Vec::new());

    // regression replays first (each in its own supervised child)
    let mut regressions = 0usize;
    let rdir = verif_root().join("replays").join(id);
    let mut reg_files: Vec<PathBuf> = std::fs::read_dir(&rdir).map(|d| d.flatten().map(|e| e.path()).filter(|p| p.extension().map(|e| e == "json").unwrap_or(false)).collect()).unwrap_or_default();
    reg_files.sort();
    for p in &reg_files {
        regressions += 1;
        evals.fetch_add(1, Ordering::Relaxed);
        execs.fetch_add(1, Ordering::Relaxed);
        match replay_supervised(id, opts, p, C::case_timeout_s() * 3) {
            ReplayEnd::Pass => {}
            ReplayEnd::Known(k) => {
                *known_hits.lock().unwrap().entry(k).or_insert(0) += 1;
            }
            ReplayEnd::Fail(m) => {
                println!("{id}: regression replay {} fails: {m}", p.display());
                println!("VIOLATION property={id} replay={}", p.display());
                write_evidence::<C>(opts, started, evals.load(Ordering::Relaxed), execs.load(Ordering::Relaxed), &labels, &distinct, &known_hits, &samples, &nt_samples, regressions, 0, 1);
                return 1;
            }
            ReplayEnd::Infra(m) => {
                eprintln!("{id}: infrastructure problem in regression replay {}: {m}", p.display());
                return 2;
            }
        }
    }

    let handle_done = |v: &serde_json::Value| {
        let idx = v["i"].as_u64().unwrap_or(0) as usize;
        evals.fetch_add(1, Ordering::Relaxed);
        execs.fetch_add(v["execs"].as_u64().unwrap_or(1), Ordering::Relaxed);
        if let Some(ls) = v["labels"].as_array() {
            let mut l = labels.lock().unwrap();
            for x in ls {
                if let Some(s) = x.as_str() {
                    *l.entry(s.to_string()).or_insert(0) += 1;
                }
            }
        }
        if v["nt"].as_bool().unwrap_or(false) {
            let fresh = distinct.lock().unwrap().insert(v["fp"].as_u64().unwrap_or(idx as u64));
            if fresh && !v["case"].is_null() {
                let mut s = nt_samples.lock().unwrap();
                if s.len() < 3 {
                    s.push(trim_sample(v["case"].clone()));
                }
            }
        }
        if idx < 2 && !v["case"].is_null() {
            samples.lock().unwrap().push(trim_sample(v["case"].clone()));
        }
        match v["out"].as_str().unwrap_or("") {
            "known" => {
                *known_hits.lock().unwrap().entry(v["key"].as_str().unwrap_or("").to_string()).or_insert(0) += 1;
            }
            "fail" => {
                let mut f = found.lock().unwrap();
                if f.as_ref().map(|x| idx < x.0).unwrap_or(true) {
                    *f = Some((idx, v["msg"].as_str().unwrap_or("").to_string(), v["case"].clone(), v["tape"].as_str().map(|s| s.to_string())));
                }
                stop.store(true, Ordering::Relaxed);
            }
            "infra" => {
                eprintln!("{id}: infrastructure problem (harness or reference model) in case #{idx}: {}", v["msg"].as_str().unwrap_or(""));
                inconclusive.lock().unwrap().push(format!("case #{idx}: {}", v["msg"].as_str().unwrap_or("")));
                stop.store(true, Ordering::Relaxed);
            }
            _ => {}
        }
    };

    std::thread::scope(|sc| {
        for shard in 0..shards {
            let stop = &stop;
            let found = &found;
            let handle_done = &handle_done;
            let inconclusive = &inconclusive;
            sc.spawn(move || {
                let mut from = shard;
                'restart: while from < total && !stop.load(Ordering::Relaxed) {
                    let mut args = vec![id.to_string(), opts.tier.name().to_string(), "--worker".into(), shard.to_string(), shards.to_string(), from.to_string()];
                    if let Some(b) = opts.budget_override {
                        args.push("--cases".into());
                        args.push(b.to_string());
                    }
                    let Ok(mut c) = spawn_self(&args, &format!("w{shard}")) else {
                        inconclusive.lock().unwrap().push("cannot spawn worker".into());
                        return;
                    };
                    let mut in_flight: Option<usize> = None;
                    loop {
                        if stop.load(Ordering::Relaxed) {
                            let _ = c.child.kill();
                            let _ = c.child.wait();
                            let _ = std::fs::remove_file(&c.stderr_path);
                            return;
                        }
                        match c.rx.recv_timeout(std::time::Duration::from_millis(500)) {
                            Ok(Ev::Line(l)) => {
                                if let Ok(v) = serde_json::from_str::<serde_json::Value>(&l) {
                                    if v["t"] == "start" {
                                        in_flight = Some(v["i"].as_u64().unwrap_or(0) as usize);
                                        LAST_PROGRESS.with(|p| p.set(Instant::now()));
                                    } else if v["t"] == "done" {
                                        handle_done(&v);
                                        in_flight = None;
                                        LAST_PROGRESS.with(|p| p.set(Instant::now()));
                                    }
                                }
                            }
                            Err(std::sync::mpsc::RecvTimeoutError::Timeout) => {
                                let idle = LAST_PROGRESS.with(|p| p.get().elapsed().as_secs());
                                if in_flight.is_some() && idle > C::case_timeout_s() {
                                    // watchdog: kill, then re-run the case alone to confirm
                                    let idx = in_flight.unwrap_or(0);
                                    let _ = c.child.kill();
                                    let _ = c.child.wait();
                                    let _ = std::fs::remove_file(&c.stderr_path);
                                    match run_alone(id, opts, idx, C::case_timeout_s() * 3) {
                                        Alone::Hung(entered) => {
                                            if C::announces_phase() && !entered {
                                                inconclusive.lock().unwrap().push(format!("infrastructure: case #{idx} exceeds the watchdog inside the harness (before the code under test is entered)"));
                                                stop.store(true, Ordering::Relaxed);
                                                return;
                                            }
                                            let mut f = found.lock().unwrap();
                                            if f.as_ref().map(|x| idx < x.0).unwrap_or(true) {
                                                *f = Some((idx, format!("does not terminate: a single case ran for more than {} s twice (alone for {} s)", C::case_timeout_s(), C::case_timeout_s() * 3), serde_json::Value::Null, None));
                                            }
                                            stop.store(true, Ordering::Relaxed);
                                            return;
                                        }
                                        Alone::Done(v) => {
                                            inconclusive.lock().unwrap().push(format!("case #{idx} hit the watchdog in a busy worker but finished alone (not a violation)"));
                                            handle_done(&v);
                                        }
                                        Alone::Died(m) => {
                                            let mut f = found.lock().unwrap();
                                            if f.as_ref().map(|x| idx < x.0).unwrap_or(true) {
                                                *f = Some((idx, format!("process died: {m}"), serde_json::Value::Null, None));
                                            }
                                            stop.store(true, Ordering::Relaxed);
                                            return;
                                        }
                                    }
                                    from = idx + shards;
                                    continue 'restart;
                                }
                            }
                            Ok(Ev::Eof) | Err(std::sync::mpsc::RecvTimeoutError::Disconnected) => {
                                let st = c.child.wait();
                                let tail = stderr_tail(&c.stderr_path);
                                let _ = std::fs::remove_file(&c.stderr_path);
                                match in_flight {
                                    None => return, // finished its share
                                    Some(idx) => {
                                        // died with a case in flight: confirm alone
                                        match run_alone(id, opts, idx, C::case_timeout_s() * 3) {
                                            Alone::Died(m) => {
                                                let mut f = found.lock().unwrap();
                                                if f.as_ref().map(|x| idx < x.0).unwrap_or(true) {
                                                    *f = Some((idx, format!("the process aborted or was killed while running the case ({st:?}; {tail}); confirmed alone: {m}"), serde_json::Value::Null, None));
                                                }
                                                stop.store(true, Ordering::Relaxed);
                                                return;
                                            }
                                            Alone::Hung(_) => {
                                                let mut f = found.lock().unwrap();
                                                if f.as_ref().map(|x| idx < x.0).unwrap_or(true) {
                                                    *f = Some((idx, "does not terminate when run alone".into(), serde_json::Value::Null, None));
                                                }
                                                stop.store(true, Ordering::Relaxed);
                                                return;
                                            }
                                            Alone::Done(v) => {
                                                inconclusive.lock().unwrap().push(format!("worker died during case #{idx} ({tail}) but the case passes alone"));
                                                handle_done(&v);
                                            }
                                        }
                                        from = idx + shards;
                                        continue 'restart;
                                    }
                                }
                            }
                        }
                    }
                }
            });
        }
    });

    let mut code = 0;
    let mut violations = 0;
    if let Some((idx, msg, case, tape)) = found.into_inner().unwrap() {
        violations = 1;
        code = 1;
        let base = mix(opts.seed, hash_str(id));
        // regenerate the case when the worker could not send it (death / hang)
        let (case, tape) = if case.is_null() {
            let fixed = C::fixed(opts.tier);
            let (c, t) = case_for::<C>(&fixed, idx, base, opts.tier);
            (serde_json::to_value(&c).unwrap_or_default(), t.map(|t| hex(&t)))
        } else {
            (case, tape)
        };
        let mut final_case = case;
        let mut final_msg = msg.clone();
        let mut final_tape = tape.clone();
        if let (Some(t), false) = (&tape, msg.starts_with("process died") || msg.starts_with("does not terminate") || msg.starts_with("the process aborted")) {
            // shrink in a supervised child
            let f = out_dir().join(format!("{id}-shrink-{}.tape", std::process::id()));
            let _ = std::fs::write(&f, t);
            let args = vec![id.to_string(), opts.tier.name().to_string(), "--shrink".into(), f.display().to_string()];
            if let Ok(mut c) = spawn_self(&args, "shrink") {
                let deadline = Instant::now() + std::time::Duration::from_secs(200);
                let mut last = None;
                loop {
                    match c.rx.recv_timeout(deadline.saturating_duration_since(Instant::now())) {
                        Ok(Ev::Line(l)) => last = Some(l),
                        Ok(Ev::Eof) | Err(std::sync::mpsc::RecvTimeoutError::Disconnected) => break,
                        Err(std::sync::mpsc::RecvTimeoutError::Timeout) => {
                            let _ = c.child.kill();
                            break;
                        }
                    }
                }
                let _ = c.child.wait();
                let _ = std::fs::remove_file(&c.stderr_path);
                if let Some(v) = last.and_then(|l| serde_json::from_str::<serde_json::Value>(&l).ok()) {
                    if !v["case"].is_null() {
                        final_case = v["case"].clone();
                        final_msg = v["message"].as_str().unwrap_or(&msg).to_string();
                        final_tape = v["tape"].as_str().map(|s| s.to_string());
                    }
                }
            }
            let _ = std::fs::remove_file(&f);
        }
        let rf = serde_json::json!({"property": id, "message": final_msg, "case": final_case, "tape_hex": final_tape});
        let js = serde_json::to_string_pretty(&rf).unwrap_or_default();
        let path = out_dir().join(format!("{id}-{:016x}.json", hash_str(&js)));
        let _ = std::fs::write(&path, js);
        println!("{id}: case #{idx} failed: {final_msg}");
        println!("VIOLATION property={id} replay={}", path.display());
    }
    let inc = inconclusive.into_inner().unwrap();
    for m in &inc {
        eprintln!("{id}: note: {m}");
    }
    if code == 0 && inc.iter().any(|m| m.contains("infrastructure") || m.contains("cannot spawn") || m.starts_with("case #") && m.contains("reference")) {
        code = 2;
    }
    // known findings from their recorded inputs
    for k in known.iter().filter(|k| k.property == id && k.status == "open") {
        let still = match &k.replay {
            Some(r) => matches!(replay_supervised(id, opts, &verif_root().join(r), C::case_timeout_s() * 3), ReplayEnd::Known(ref key) if *key == k.key),
            None => known_hits.lock().unwrap().contains_key(&k.key),
        };
        if still {
            println!("KNOWN-FINDING: property={id} {}: {}", k.key, k.what);
        }
    }
    write_evidence::<C>(opts, started, evals.load(Ordering::Relaxed), execs.load(Ordering::Relaxed), &labels, &distinct, &known_hits, &samples, &nt_samples, regressions, fixed_n, violations);
    println!(
        "{id}: tier={} seed={} evaluations={} executions={} distinct_nontrivial={} wall={:.1}s (isolated workers) -> {}",
        opts.tier.name(),
        opts.seed,
        evals.load(Ordering::Relaxed),
        execs.load(Ordering::Relaxed),
        distinct.lock().unwrap().len(),
        started.elapsed().as_secs_f64(),
        match code {
            0 => "held",
            1 => "VIOLATED",
            _ => "INCONCLUSIVE",
        }
    );
    code
}

thread_local! {
    static LAST_PROGRESS: Cell<Instant> = Cell::new(Instant::now());
}
use std::cell::Cell;

pub enum ReplayEnd {
    Pass,
    Known(String),
    Fail(String),
    Infra(String),
}

/// Replay a file in a supervised child process.
pub fn replay_supervised(id: &str, opts: &RunOpts, path: &Path, timeout_s: u64) -> ReplayEnd {
    let mut args = vec![id.to_string(), opts.tier.name().to_string(), "--replay".into(), path.display().to_string(), "--inner".into()];
    if opts.strict {
        args.push("--strict".into());
    }
    let Ok(mut c) = spawn_self(&args, "replay") else { return ReplayEnd::Infra("cannot spawn".into()) };
    let deadline = Instant::now() + std::time::Duration::from_secs(timeout_s);
    let mut lines = Vec::new();
    loop {
        match c.rx.recv_timeout(deadline.saturating_duration_since(Instant::now())) {
            Ok(Ev::Line(l)) => lines.push(l),
            Ok(Ev::Eof) | Err(std::sync::mpsc::RecvTimeoutError::Disconnected) => break,
            Err(std::sync::mpsc::RecvTimeoutError::Timeout) => {
                let _ = c.child.kill();
                let _ = c.child.wait();
                let _ = std::fs::remove_file(&c.stderr_path);
                return ReplayEnd::Fail(format!("does not terminate within {timeout_s} s"));
            }
        }
    }
    let st = c.child.wait();
    let tail = stderr_tail(&c.stderr_path);
    let _ = std::fs::remove_file(&c.stderr_path);
    let code = st.as_ref().ok().and_then(|s| s.code());
    let text = lines.join("\n");
    match code {
        Some(0) => {
            if let Some(l) = lines.iter().find(|l| l.starts_with("KNOWN-FINDING:")) {
                let key = l.split_whitespace().nth(2).unwrap_or("").trim_end_matches(':').to_string();
                ReplayEnd::Known(key)
            } else {
                ReplayEnd::Pass
            }
        }
        Some(1) => ReplayEnd::Fail(text),
        Some(2) => ReplayEnd::Infra(format!("{text} {tail}")),
        _ => ReplayEnd::Fail(format!("the process aborted or was killed ({st:?}): {tail}")),
    }
}


// ------------------------------------------------------------------ fuzzing glue

/// Generate the case encoded by a tape and evaluate the property on it.
/// Listed known findings and infrastructure problems are not violations.
pub fn fuzz_case<C: Check>(data: &[u8]) -> Option<String> {
    static KNOWN: std::sync::OnceLock<Vec<KnownFinding>> = std::sync::OnceLock::new();
    let known = KNOWN.get_or_init(load_known);
    let mut src = Src::from_tape(data.to_vec());
    let case = guard(|| C::gen(&mut src, Tier::Thorough)).ok()?;
    match settle(C::ID, known, run_guarded::<C>(&case)).outcome {
        Outcome::Fail(m) => Some(m),
        _ => None,
    }
}

/// `--tape-one FILE`: evaluate the case encoded by a saved tape (a libFuzzer
/// artefact); on a violation write the replay file and report it.
pub fn tape_one<C: Check>(path: &Path) -> i32 {
    let known = load_known();
    let data = match std::fs::read(path) {
        Ok(d) => d,
        Err(e) => {
            eprintln!("cannot read {}: {e}", path.display());
            return 2;
        }
    };
    limit_process_memory();
    let (small, _) = {
        let mut src = Src::from_tape(data.clone());
        let case = match guard(|| C::gen(&mut src, Tier::Thorough)) {
            Ok(c) => c,
            Err(_) => return 0,
        };
        if !settle(C::ID, &known, run_guarded::<C>(&case)).failed() {
            println!("{}: tape {} does not violate the property", C::ID, path.display());
            return 0;
        }
        shrink::<C>(Tier::Thorough, &known, data, 800)
    };
    let mut src = Src::from_tape(small.clone());
    let case = C::gen(&mut src, Tier::Thorough);
    let v = settle(C::ID, &known, run_guarded::<C>(&case));
    let msg = match v.outcome {
        Outcome::Fail(m) => m,
        _ => "violation (message lost while shrinking)".to_string(),
    };
    let rf = ReplayFile { property: C::ID.to_string(), message: msg.clone(), case, tape_hex: Some(hex(&small)) };
    let js = serde_json::to_string_pretty(&rf).unwrap_or_default();
    let out = out_dir().join(format!("{}-{:016x}.json", C::ID, hash_str(&js)));
    let _ = std::fs::write(&out, js);
    println!("{}: fuzzing artefact {} violates the property: {msg}", C::ID, path.display());
    println!("VIOLATION property={} replay={}", C::ID, out.display());
    1
}

/// `--dump-tapes DIR N`: write the choice tapes of the first N random cases as
/// a starting corpus for the coverage-guided campaign.
pub fn dump_tapes<C: Check>(dir: &Path, n: usize, seed: u64) -> i32 {
    let _ = std::fs::create_dir_all(dir);
    let base = mix(seed, hash_str(C::ID));
    let fixed = C::fixed(Tier::Quick).len();
    for i in 0..n {
        let mut src = Src::from_seed(mix(base, (fixed + i) as u64));
        if guard(|| C::gen(&mut src, Tier::Thorough)).is_ok() {
            let _ = std::fs::write(dir.join(format!("seed-{i:05}")), src.tape());
        }
    }
    0
}
