//! Engine: choice tape (generation + shrinking), sharded deterministic runner,
//! evidence, replay files, known findings, panic capture.
use serde::de::DeserializeOwned;
use serde::{Deserialize, Serialize};
use std::collections::{BTreeMap, HashSet};
use std::panic::{catch_unwind, AssertUnwindSafe};
use std::path::{Path, PathBuf};
use std::sync::atomic::{AtomicBool, AtomicU64, Ordering};
use std::sync::Mutex;
use std::time::Instant;

pub const VERIF_ROOT: &str = "/verif";

#[derive(Clone, Copy, PartialEq, Eq, Debug)]
pub enum Tier {
    Quick,
    Thorough,
}
impl Tier {
    pub fn name(&self) -> &'static str {
        match self {
            Tier::Quick => "quick",
            Tier::Thorough => "thorough",
        }
    }
    pub fn pick(&self, q: usize, t: usize) -> usize {
        match self {
            Tier::Quick => q,
            Tier::Thorough => t,
        }
    }
}

pub fn splitmix(x: &mut u64) -> u64 {
    *x = x.wrapping_add(0x9E37_79B9_7F4A_7C15);
    let mut z = *x;
    z = (z ^ (z >> 30)).wrapping_mul(0xBF58_476D_1CE4_E5B9);
    z = (z ^ (z >> 27)).wrapping_mul(0x94D0_49BB_1331_11EB);
    z ^ (z >> 31)
}
pub fn mix(a: u64, b: u64) -> u64 {
    let mut x = a ^ b.wrapping_mul(0xD6E8_FEB8_6659_FD93);
    splitmix(&mut x)
}
pub fn hash_str(s: &str) -> u64 {
    let mut h: u64 = 0xcbf2_9ce4_8422_2325;
    for b in s.bytes() {
        h ^= b as u64;
        h = h.wrapping_mul(0x1000_0000_01b3);
    }
    h
}

/// Source of choices.  Either records fresh pseudo random bytes (seeded) or
/// replays a tape (zeros after its end).  Every generated case is a pure
/// function of its tape, so shrinking works on the tape.
pub struct Src {
    tape: Vec<u8>,
    pos: usize,
    rng: Option<u64>,
    buf: u64,
    buf_left: u32,
}
impl Src {
    pub fn from_seed(seed: u64) -> Self {
        Src { tape: Vec::new(), pos: 0, rng: Some(seed), buf: 0, buf_left: 0 }
    }
    pub fn from_tape(tape: Vec<u8>) -> Self {
        Src { tape, pos: 0, rng: None, buf: 0, buf_left: 0 }
    }
    pub fn tape(&self) -> &[u8] {
        &self.tape[..self.pos.min(self.tape.len())]
    }
    pub fn byte(&mut self) -> u8 {
        if let Some(state) = &mut self.rng {
            if self.buf_left == 0 {
                self.buf = splitmix(state);
                self.buf_left = 8;
            }
            let b = (self.buf & 0xff) as u8;
            self.buf >>= 8;
            self.buf_left -= 1;
            self.tape.push(b);
            self.pos += 1;
            b
        } else {
            let b = self.tape.get(self.pos).copied().unwrap_or(0);
            self.pos += 1;
            b
        }
    }
    pub fn u16(&mut self) -> u16 {
        u16::from_le_bytes([self.byte(), self.byte()])
    }
    pub fn u32(&mut self) -> u32 {
        u32::from_le_bytes([self.byte(), self.byte(), self.byte(), self.byte()])
    }
    pub fn u64(&mut self) -> u64 {
        let mut b = [0u8; 8];
        for x in &mut b {
            *x = self.byte();
        }
        u64::from_le_bytes(b)
    }
    /// Uniform-ish in 0..n (n >= 1), monotone in the tape bytes.
    pub fn below(&mut self, n: u64) -> u64 {
        if n <= 1 {
            return 0;
        }
        if n <= 256 {
            (self.byte() as u64 * n) >> 8
        } else if n <= 65536 {
            (self.u16() as u64 * n) >> 16
        } else if n <= 1 << 32 {
            (self.u32() as u64 * n) >> 32
        } else {
            ((self.u64() as u128 * n as u128) >> 64) as u64
        }
    }
    pub fn range(&mut self, lo: i64, hi: i64) -> i64 {
        // inclusive
        let span = (hi as i128 - lo as i128 + 1) as u128;
        if span > u64::MAX as u128 {
            return self.u64() as i64;
        }
        (lo as i128 + self.below(span as u64) as i128) as i64
    }
    pub fn usize_in(&mut self, lo: usize, hi: usize) -> usize {
        self.range(lo as i64, hi as i64) as usize
    }
    pub fn flag(&mut self) -> bool {
        self.byte() & 1 == 1
    }
    /// true with probability num/den; a zero tape yields false.
    pub fn chance(&mut self, num: u64, den: u64) -> bool {
        self.below(den) >= den - num
    }
    pub fn pick<'a, T>(&mut self, xs: &'a [T]) -> &'a T {
        &xs[self.below(xs.len() as u64) as usize]
    }
    /// Index chosen with the given weights (first entry for a zero tape).
    pub fn weighted(&mut self, ws: &[u32]) -> usize {
        let total: u64 = ws.iter().map(|w| *w as u64).sum();
        let mut v = self.below(total.max(1));
        for (i, w) in ws.iter().enumerate() {
            if v < *w as u64 {
                return i;
            }
            v -= *w as u64;
        }
        ws.len() - 1
    }
}

#[derive(Clone, Debug)]
pub enum Outcome {
    Pass,
    /// failure matching the signature of a listed known finding
    Known { key: String, detail: String },
    Fail(String),
    /// the harness / reference model is at fault: exit 2, never a violation
    Infra(String),
}

#[derive(Clone, Debug)]
pub struct Verdict {
    pub labels: Vec<String>,
    pub nontrivial: bool,
    pub outcome: Outcome,
    /// number of executions of the code under test this case stands for
    pub execs: u64,
}
impl Verdict {
    pub fn new() -> Self {
        Verdict { labels: Vec::new(), nontrivial: false, outcome: Outcome::Pass, execs: 1 }
    }
    pub fn label(&mut self, l: &str) {
        if !self.labels.iter().any(|x| x == l) {
            self.labels.push(l.to_string());
        }
    }
    pub fn nt(&mut self, l: &str) {
        self.label(l);
        self.nontrivial = true;
    }
    pub fn fail(&mut self, m: impl Into<String>) {
        if matches!(self.outcome, Outcome::Pass | Outcome::Known { .. }) {
            self.outcome = Outcome::Fail(m.into());
        }
    }
    pub fn infra(&mut self, m: impl Into<String>) {
        self.outcome = Outcome::Infra(m.into());
    }
    pub fn known(&mut self, key: &str, detail: impl Into<String>) {
        if matches!(self.outcome, Outcome::Pass) {
            self.outcome = Outcome::Known { key: key.to_string(), detail: detail.into() };
        }
    }
    pub fn failed(&self) -> bool {
        matches!(self.outcome, Outcome::Fail(_))
    }
}

#[derive(Clone, Copy, Debug, PartialEq)]
pub enum Level {
    Exploration,
    FaultEnumeration,
}
impl Level {
    pub fn name(&self) -> &'static str {
        match self {
            Level::Exploration => "exploration",
            Level::FaultEnumeration => "fault_enumeration",
        }
    }
}

pub trait Check: Sync + Send + 'static {
    type Case: Serialize + DeserializeOwned + Send + Sync + Clone;
    const ID: &'static str;
    fn level() -> Level {
        Level::Exploration
    }
    /// How cases are generated and what makes one non-trivial.
    fn rule() -> String;
    fn assumptions() -> Vec<String> {
        Vec::new()
    }
    /// Number of random cases.
    fn budget(tier: Tier) -> usize;
    /// Enumerated (seed independent) cases, run before the random ones.
    fn fixed(_tier: Tier) -> Vec<Self::Case> {
        Vec::new()
    }
    fn describe_fixed(_tier: Tier) -> Option<String> {
        None
    }
    fn gen(src: &mut Src, tier: Tier) -> Self::Case;
    fn run(case: &Self::Case) -> Verdict;
    /// Model validity etc.; Err => exit 2.
    fn preflight() -> Result<(), String> {
        Ok(())
    }
    /// Extra keys merged into evidence.coverage.
    fn extra_coverage() -> BTreeMap<String, serde_json::Value> {
        BTreeMap::new()
    }
}

// ---------------------------------------------------------------- panics

thread_local! {
    static LAST_PANIC: std::cell::RefCell<Option<String>> = const { std::cell::RefCell::new(None) };
}

pub fn install_panic_hook() {
    std::panic::set_hook(Box::new(|info| {
        let msg = if let Some(s) = info.payload().downcast_ref::<&str>() {
            s.to_string()
        } else if let Some(s) = info.payload().downcast_ref::<String>() {
            s.clone()
        } else {
            "non-string panic payload".to_string()
        };
        let loc = info.location().map(|l| format!("{}:{}", l.file(), l.line())).unwrap_or_default();
        LAST_PANIC.with(|p| *p.borrow_mut() = Some(format!("{msg} at {loc}")));
    }));
}

/// Run a closure, turning a panic into Err(message with location).
pub fn guard<T>(f: impl FnOnce() -> T) -> Result<T, String> {
    match catch_unwind(AssertUnwindSafe(f)) {
        Ok(v) => Ok(v),
        Err(_) => Err(LAST_PANIC.with(|p| p.borrow_mut().take()).unwrap_or_else(|| "panic".to_string())),
    }
}

// ------------------------------------------------------- known findings

#[derive(Clone, Debug, Serialize, Deserialize)]
pub struct KnownFinding {
    pub property: String,
    pub key: String,
    /// "open" or "fixed"
    pub status: String,
    pub what: String,
    #[serde(default)]
    pub commit: Option<String>,
    #[serde(default)]
    pub replay: Option<String>,
}

pub fn load_known() -> Vec<KnownFinding> {
    let p = Path::new(VERIF_ROOT).join("known_findings.json");
    match std::fs::read_to_string(&p) {
        Ok(s) => match serde_json::from_str::<Vec<KnownFinding>>(&s) {
            Ok(v) => v,
            Err(e) => {
                eprintln!("cannot parse {}: {e}", p.display());
                std::process::exit(2);
            }
        },
        Err(_) => Vec::new(),
    }
}

// ----------------------------------------------------------------- replay

#[derive(Serialize, Deserialize)]
pub struct ReplayFile<C> {
    pub property: String,
    pub message: String,
    pub case: C,
    #[serde(default)]
    pub tape_hex: Option<String>,
}

fn hex(b: &[u8]) -> String {
    b.iter().map(|x| format!("{x:02x}")).collect()
}

pub fn out_dir() -> PathBuf {
    let d = Path::new(VERIF_ROOT).join("out").join("replays");
    let _ = std::fs::create_dir_all(&d);
    d
}

fn run_guarded<C: Check>(case: &C::Case) -> Verdict {
    match guard(|| C::run(case)) {
        Ok(v) => v,
        Err(p) => {
            let mut v = Verdict::new();
            v.fail(format!("check harness or code under test panicked outside a guarded call: {p}"));
            v
        }
    }
}

/// Apply the known-findings list: a `Known` outcome whose key is not listed
/// as open for this property is a plain failure.
fn settle(id: &str, known: &[KnownFinding], mut v: Verdict) -> Verdict {
    if let Outcome::Known { key, detail } = &v.outcome {
        let open = known.iter().any(|k| k.property == id && k.key == *key && k.status == "open");
        if !open {
            v.outcome = Outcome::Fail(format!("{detail} [signature {key}]"));
        }
    }
    v
}

struct Found<C> {
    index: usize,
    tape: Option<Vec<u8>>,
    case: C,
    message: String,
}

fn shrink<C: Check>(tier: Tier, known: &[KnownFinding], tape: Vec<u8>, budget: usize) -> (Vec<u8>, usize) {
    let fails = |t: &[u8]| -> bool {
        let mut src = Src::from_tape(t.to_vec());
        let case = match guard(|| C::gen(&mut src, tier)) {
            Ok(c) => c,
            Err(_) => return false,
        };
        settle(C::ID, known, run_guarded::<C>(&case)).failed()
    };
    let mut best = tape;
    let mut tries = 0usize;
    let started = Instant::now();
    let mut progress = true;
    while progress && tries < budget && started.elapsed().as_secs() < 120 {
        progress = false;
        // delete chunks
        for size in [64usize, 32, 16, 8, 4, 2, 1] {
            let mut i = 0;
            while i + size <= best.len() && tries < budget {
                let mut t = best.clone();
                t.drain(i..i + size);
                tries += 1;
                if fails(&t) {
                    best = t;
                    progress = true;
                } else {
                    i += size;
                }
            }
        }
        // truncate trailing zeros (equivalent tape)
        while best.last() == Some(&0) {
            best.pop();
        }
        // zero, then halve bytes
        let mut i = 0;
        while i < best.len() && tries < budget {
            if best[i] != 0 {
                for cand in [0u8, best[i] / 2, best[i] - 1] {
                    if cand >= best[i] {
                        continue;
                    }
                    let mut t = best.clone();
                    t[i] = cand;
                    tries += 1;
                    if fails(&t) {
                        best = t;
                        progress = true;
                        break;
                    }
                }
            }
            i += 1;
        }
    }
    (best, tries)
}

pub struct RunOpts {
    pub tier: Tier,
    pub seed: u64,
    pub replay: Option<PathBuf>,
    pub threads: usize,
    pub budget_override: Option<usize>,
    pub strict: bool,
}

fn trim_sample(v: serde_json::Value) -> serde_json::Value {
    let s = v.to_string();
    if s.len() > 6000 {
        serde_json::json!({"truncated_case_json": format!("{}...", &s[..6000.min(s.len())].chars().take(3000).collect::<String>()), "full_length": s.len()})
    } else {
        v
    }
}

/// Run one check; returns the process exit code.
pub fn run_check<C: Check>(opts: &RunOpts) -> i32 {
    let started = Instant::now();
    let id = C::ID;
    let known = load_known();
    if let Err(e) = C::preflight() {
        eprintln!("{id}: preflight failed (model validity / infrastructure): {e}");
        return 2;
    }

    // ---- replay mode
    if let Some(path) = &opts.replay {
        let text = match std::fs::read_to_string(path) {
            Ok(t) => t,
            Err(e) => {
                eprintln!("cannot read {}: {e}", path.display());
                return 2;
            }
        };
        let rf: ReplayFile<C::Case> = match serde_json::from_str(&text) {
            Ok(r) => r,
            Err(e) => {
                eprintln!("cannot parse replay file {}: {e}", path.display());
                return 2;
            }
        };
        let v = run_guarded::<C>(&rf.case);
        let v = if opts.strict { strict(v) } else { settle(id, &known, v) };
        return match v.outcome {
            Outcome::Pass => {
                println!("{id}: replay passes");
                0
            }
            Outcome::Known { key, detail } => {
                println!("KNOWN-FINDING: property={id} {key}: {detail}");
                0
            }
            Outcome::Infra(m) => {
                eprintln!("{id}: infrastructure problem: {m}");
                2
            }
            Outcome::Fail(m) => {
                println!("{id}: replay fails: {m}");
                println!("VIOLATION property={id} replay={}", path.display());
                1
            }
        };
    }

    let evals = AtomicU64::new(0);
    let execs = AtomicU64::new(0);
    let stop = AtomicBool::new(false);
    let labels: Mutex<BTreeMap<String, u64>> = Mutex::new(BTreeMap::new());
    let distinct: Mutex<HashSet<u64>> = Mutex::new(HashSet::new());
    let known_hits: Mutex<BTreeMap<String, u64>> = Mutex::new(BTreeMap::new());
    let samples: Mutex<Vec<serde_json::Value>> = Mutex::new(Vec::new());
    let nt_samples: Mutex<Vec<serde_json::Value>> = Mutex::new(Vec::new());
    let found: Mutex<Option<Found<C::Case>>> = Mutex::new(None);

    let account = |case: &C::Case, v: &Verdict, idx: usize| {
        evals.fetch_add(1, Ordering::Relaxed);
        execs.fetch_add(v.execs, Ordering::Relaxed);
        {
            let mut l = labels.lock().unwrap();
            for x in &v.labels {
                *l.entry(x.clone()).or_insert(0) += 1;
            }
        }
        if v.nontrivial {
            let js = serde_json::to_string(case).unwrap_or_default();
            let fp = hash_str(&js);
            let fresh = distinct.lock().unwrap().insert(fp);
            if fresh {
                let mut s = nt_samples.lock().unwrap();
                if s.len() < 3 {
                    s.push(trim_sample(serde_json::to_value(case).unwrap_or_default()));
                }
            }
        }
        if idx < 2 {
            samples.lock().unwrap().push(trim_sample(serde_json::to_value(case).unwrap_or_default()));
        }
        if let Outcome::Known { key, .. } = &v.outcome {
            *known_hits.lock().unwrap().entry(key.clone()).or_insert(0) += 1;
        }
    };

    // ---- committed regression replays (seconds-long tier)
    let mut regressions = 0usize;
    let rdir = Path::new(VERIF_ROOT).join("replays").join(id);
    let mut reg_files: Vec<PathBuf> = std::fs::read_dir(&rdir).map(|d| d.flatten().map(|e| e.path()).filter(|p| p.extension().map(|e| e == "json").unwrap_or(false)).collect()).unwrap_or_default();
    reg_files.sort();
    let mut known_replays: BTreeMap<String, bool> = BTreeMap::new();
    for p in &reg_files {
        let text = std::fs::read_to_string(p).unwrap_or_default();
        let rf: ReplayFile<C::Case> = match serde_json::from_str(&text) {
            Ok(r) => r,
            Err(e) => {
                eprintln!("{id}: cannot parse regression replay {}: {e}", p.display());
                return 2;
            }
        };
        let v = settle(id, &known, run_guarded::<C>(&rf.case));
        regressions += 1;
        evals.fetch_add(1, Ordering::Relaxed);
        execs.fetch_add(v.execs, Ordering::Relaxed);
        match &v.outcome {
            Outcome::Fail(m) => {
                println!("{id}: regression replay {} fails: {m}", p.display());
                println!("VIOLATION property={id} replay={}", p.display());
                write_evidence::<C>(opts, started, evals.load(Ordering::Relaxed), execs.load(Ordering::Relaxed), &labels, &distinct, &known_hits, &samples, &nt_samples, regressions, 0, 1);
                return 1;
            }
            Outcome::Known { key, .. } => {
                known_replays.insert(key.clone(), true);
                *known_hits.lock().unwrap().entry(key.clone()).or_insert(0) += 1;
            }
            Outcome::Infra(m) => {
                eprintln!("{id}: infrastructure problem in regression replay {}: {m}", p.display());
                return 2;
            }
            Outcome::Pass => {}
        }
    }

    // ---- enumerated cases, then random cases, sharded over threads
    let fixed = C::fixed(opts.tier);
    let nfixed = fixed.len();
    let nrandom = opts.budget_override.unwrap_or_else(|| C::budget(opts.tier));
    let total = nfixed + nrandom;
    let base = mix(opts.seed, hash_str(id));
    let threads = opts.threads.max(1);
    std::thread::scope(|sc| {
        for t in 0..threads {
            let fixed = &fixed;
            let stop = &stop;
            let found = &found;
            let account = &account;
            let known = &known;
            let tier = opts.tier;
            sc.spawn(move || {
                let mut idx = t;
                while idx < total {
                    if stop.load(Ordering::Relaxed) {
                        break;
                    }
                    let (case, tape) = if idx < nfixed {
                        (fixed[idx].clone(), None)
                    } else {
                        let mut src = Src::from_seed(mix(base, idx as u64));
                        match guard(|| C::gen(&mut src, tier)) {
                            Ok(c) => (c, Some(src.tape().to_vec())),
                            Err(p) => {
                                eprintln!("{}: generator panicked: {p}", C::ID);
                                std::process::exit(2);
                            }
                        }
                    };
                    let v = settle(C::ID, known, run_guarded::<C>(&case));
                    account(&case, &v, idx);
                    if let Outcome::Infra(m) = &v.outcome {
                        eprintln!("{}: infrastructure problem (harness or reference model, not the code under test) in case #{idx}: {m}", C::ID);
                        let js = serde_json::to_string_pretty(&case).unwrap_or_default();
                        let path = out_dir().join(format!("{}-infra-{:016x}.json", C::ID, hash_str(&js)));
                        let _ = std::fs::write(&path, js);
                        eprintln!("case written to {}", path.display());
                        std::process::exit(2);
                    }
                    if let Outcome::Fail(m) = &v.outcome {
                        let mut f = found.lock().unwrap();
                        if f.as_ref().map(|x| idx < x.index).unwrap_or(true) {
                            *f = Some(Found { index: idx, tape, case: case.clone(), message: m.clone() });
                        }
                        stop.store(true, Ordering::Relaxed);
                        break;
                    }
                    idx += threads;
                }
            });
        }
    });

    let found = found.into_inner().unwrap();
    let mut violations = 0;
    let mut code = 0;
    if let Some(f) = found {
        violations = 1;
        code = 1;
        // shrink (random cases only)
        let (case, message, tape) = match f.tape {
            Some(t) => {
                let (small, tries) = shrink::<C>(opts.tier, &known, t, 1500);
                let mut src = Src::from_tape(small.clone());
                let case = C::gen(&mut src, opts.tier);
                let v = settle(id, &known, run_guarded::<C>(&case));
                match v.outcome {
                    Outcome::Fail(m) => {
                        eprintln!("{id}: shrunk failing case with {tries} re-executions");
                        (case, m, Some(small))
                    }
                    _ => (f.case, f.message, None),
                }
            }
            None => (f.case, f.message, None),
        };
        let rf = ReplayFile { property: id.to_string(), message: message.clone(), case, tape_hex: tape.as_ref().map(|t| hex(t)) };
        let js = serde_json::to_string_pretty(&rf).unwrap_or_default();
        let path = out_dir().join(format!("{id}-{:016x}.json", hash_str(&js)));
        let _ = std::fs::write(&path, js);
        println!("{id}: case #{} failed: {message}", f.index);
        println!("VIOLATION property={id} replay={}", path.display());
    }

    // ---- known findings: re-establish each open entry from its recorded input
    for k in known.iter().filter(|k| k.property == id && k.status == "open") {
        let still = match &k.replay {
            Some(r) => {
                let p = Path::new(VERIF_ROOT).join(r);
                match std::fs::read_to_string(&p).ok().and_then(|t| serde_json::from_str::<ReplayFile<C::Case>>(&t).ok()) {
                    Some(rf) => matches!(run_guarded::<C>(&rf.case).outcome, Outcome::Known { ref key, .. } if *key == k.key),
                    None => {
                        eprintln!("{id}: known finding {} has no readable replay file {}", k.key, p.display());
                        return 2;
                    }
                }
            }
            None => known_hits.lock().unwrap().contains_key(&k.key),
        };
        if still {
            println!("KNOWN-FINDING: property={id} {}: {}", k.key, k.what);
        }
    }

    write_evidence::<C>(opts, started, evals.load(Ordering::Relaxed), execs.load(Ordering::Relaxed), &labels, &distinct, &known_hits, &samples, &nt_samples, regressions, nfixed, violations);
    let e = evals.load(Ordering::Relaxed);
    let d = distinct.lock().unwrap().len();
    println!("{id}: tier={} seed={} evaluations={e} executions={} distinct_nontrivial={d} wall={:.1}s -> {}", opts.tier.name(), opts.seed, execs.load(Ordering::Relaxed), started.elapsed().as_secs_f64(), if code == 0 { "held" } else { "VIOLATED" });
    code
}

fn strict(mut v: Verdict) -> Verdict {
    if let Outcome::Known { key, detail } = &v.outcome {
        v.outcome = Outcome::Fail(format!("{detail} [signature {key}]"));
    }
    v
}

#[allow(clippy::too_many_arguments)]
fn write_evidence<C: Check>(
    opts: &RunOpts,
    started: Instant,
    evals: u64,
    execs: u64,
    labels: &Mutex<BTreeMap<String, u64>>,
    distinct: &Mutex<HashSet<u64>>,
    known_hits: &Mutex<BTreeMap<String, u64>>,
    samples: &Mutex<Vec<serde_json::Value>>,
    nt_samples: &Mutex<Vec<serde_json::Value>>,
    regressions: usize,
    nfixed: usize,
    violations: i64,
) {
    let mut all_samples = samples.lock().unwrap().clone();
    all_samples.extend(nt_samples.lock().unwrap().iter().cloned());
    let mut cov = serde_json::Map::new();
    cov.insert("evaluations".into(), evals.into());
    cov.insert("executions_of_code_under_test".into(), execs.into());
    cov.insert("distinct_nontrivial".into(), (distinct.lock().unwrap().len() as u64).into());
    cov.insert("rule".into(), C::rule().into());
    cov.insert("samples".into(), serde_json::Value::Array(all_samples));
    cov.insert("exhaustive".into(), false.into());
    cov.insert("label_histogram".into(), serde_json::to_value(&*labels.lock().unwrap()).unwrap_or_default());
    cov.insert("known_finding_hits".into(), serde_json::to_value(&*known_hits.lock().unwrap()).unwrap_or_default());
    cov.insert("regression_replays".into(), (regressions as u64).into());
    cov.insert("enumerated_cases".into(), (nfixed as u64).into());
    if let Some(d) = C::describe_fixed(opts.tier) {
        cov.insert("exhaustive_core".into(), d.into());
    }
    for (k, v) in C::extra_coverage() {
        cov.insert(k, v);
    }
    let ev = serde_json::json!({
        "property_id": C::ID,
        "tier": opts.tier.name(),
        "seed": opts.seed,
        "level": C::level().name(),
        "coverage": cov,
        "assumptions": C::assumptions(),
        "wall_s": started.elapsed().as_secs_f64(),
        "violations": violations,
    });
    let dir = Path::new(VERIF_ROOT).join("evidence");
    let _ = std::fs::create_dir_all(&dir);
    let path = dir.join(format!("{}.json", C::ID));
    if let Err(e) = std::fs::write(&path, serde_json::to_string_pretty(&ev).unwrap_or_default()) {
        eprintln!("cannot write {}: {e}", path.display());
    }
}

/// Deterministic pseudo random bytes for blob contents etc.
pub fn fill_bytes(seed: u64, len: usize) -> Vec<u8> {
    let mut s = seed;
    let mut out = Vec::with_capacity(len + 8);
    while out.len() < len {
        out.extend_from_slice(&splitmix(&mut s).to_le_bytes());
    }
    out.truncate(len);
    out
}
