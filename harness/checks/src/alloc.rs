//! Counting global allocator: per-thread current / peak heap usage, and a
//! hard cap above which an allocation fails (the process then aborts, which
//! the supervisor of an isolated worker attributes to the case in flight).
use std::alloc::{GlobalAlloc, Layout, System};
use std::cell::Cell;
use std::sync::atomic::{AtomicUsize, Ordering};

pub struct Counting;

thread_local! {
    static CUR: Cell<isize> = const { Cell::new(0) };
    static PEAK: Cell<isize> = const { Cell::new(0) };
    /// all bytes this thread ever asked for (allocations and the growth of reallocations); never decreases
    static TOTAL: Cell<u64> = const { Cell::new(0) };
}
/// single allocations above this size fail (0 = no cap)
pub static HARD_CAP: AtomicUsize = AtomicUsize::new(0);

unsafe impl GlobalAlloc for Counting {
    unsafe fn alloc(&self, l: Layout) -> *mut u8 {
        let cap = HARD_CAP.load(Ordering::Relaxed);
        if cap != 0 && l.size() > cap {
            return std::ptr::null_mut();
        }
        let p = System.alloc(l);
        if !p.is_null() {
            add(l.size());
        }
        p
    }
    unsafe fn dealloc(&self, p: *mut u8, l: Layout) {
        System.dealloc(p, l);
        sub(l.size());
    }
    unsafe fn alloc_zeroed(&self, l: Layout) -> *mut u8 {
        let cap = HARD_CAP.load(Ordering::Relaxed);
        if cap != 0 && l.size() > cap {
            return std::ptr::null_mut();
        }
        let p = System.alloc_zeroed(l);
        if !p.is_null() {
            add(l.size());
        }
        p
    }
    unsafe fn realloc(&self, p: *mut u8, l: Layout, new: usize) -> *mut u8 {
        let cap = HARD_CAP.load(Ordering::Relaxed);
        if cap != 0 && new > cap {
            return std::ptr::null_mut();
        }
        let q = System.realloc(p, l, new);
        if !q.is_null() {
            sub(l.size());
            add(new);
        }
        q
    }
}

fn add(n: usize) {
    let _ = TOTAL.try_with(|t| t.set(t.get().wrapping_add(n as u64)));
    // signed: a thread may free what another thread allocated
    let _ = CUR.try_with(|c| {
        let v = c.get().wrapping_add(n as isize);
        c.set(v);
        let _ = PEAK.try_with(|p| {
            if v > p.get() {
                p.set(v)
            }
        });
    });
}
fn sub(n: usize) {
    let _ = CUR.try_with(|c| c.set(c.get().wrapping_sub(n as isize)));
}

/// All bytes this thread has asked the allocator for so far (a reallocation counts with its new size: the bytes the
/// allocator may have to copy).
pub fn total() -> u64 {
    TOTAL.with(|t| t.get())
}

/// Run `f` and return its result with the peak heap growth (bytes) of this
/// thread during the call.
pub fn measure<T>(f: impl FnOnce() -> T) -> (T, usize) {
    let base = CUR.with(|c| c.get());
    PEAK.with(|p| p.set(base));
    let r = f();
    let peak = PEAK.with(|p| p.get());
    (r, (peak - base).max(0) as usize)
}
