//! C14 - bounds and default limits written by the writer are exact.
use crate::adapt::read_scene;
use crate::dev::MemDev;
use crate::gen;
use crate::kit::{guard, Check, Src, Tier, Verdict};
use crate::prog::{self, GenOpts, Op, Program, Trace};
use e57ref::fx::F64;
use e57ref::scene::{LimitVal, RType, Rec};
use serde::{Deserialize, Serialize};

pub struct C14;

#[derive(Clone, Serialize, Deserialize)]
pub struct Case {
    pub program: Program,
}

fn declared(ty: &RType) -> (Option<LimitVal>, Option<LimitVal>) {
    match ty {
        RType::Single { min, max } => (min.map(LimitVal::S), max.map(LimitVal::S)),
        RType::Double { min, max } => (min.map(LimitVal::D), max.map(LimitVal::D)),
        RType::Int { min, max } => (Some(LimitVal::I(*min)), Some(LimitVal::I(*max))),
        // limits of a scaled integer record are raw values in the record's scale and offset; the declared range is
        // the range of the values the raw ones stand for, so with a negative scale the smallest value is the one of
        // the largest raw number
        RType::Scaled { min, max, scale, .. } if scale.0 < 0.0 => (Some(LimitVal::SI(*max)), Some(LimitVal::SI(*min))),
        RType::Scaled { min, max, .. } => (Some(LimitVal::SI(*min)), Some(LimitVal::SI(*max))),
    }
}
fn find<'a>(p: &'a [Rec], n: &str) -> Option<&'a Rec> {
    p.iter().find(|r| r.prefix.is_none() && r.name == n)
}
fn num_eq(a: &Option<F64>, b: &Option<F64>) -> bool {
    match (a, b) {
        (None, None) => true,
        (Some(x), Some(y)) => x.0 == y.0,
        _ => false,
    }
}

impl Check for C14 {
    type Case = Case;
    const ID: &'static str = "C14";
    fn rule() -> String {
        "Writer programs with rule-following prototypes containing any subset of Cartesian / spherical / row-column-return / colour / intensity \
         groups in any data type, non-NaN point sequences (empty, single, boundary-heavy, sign-mixed), 1 history in 3 interleaved with add_point calls that must be rejected (wrong kind / integer out of range / wrong arity in one column, extreme storable values in the others), limit overrides none / complete / partial. \
         Oracle after write -> read: every bound equals min/max over the added points of the attribute's real value (scaled integers value*scale+offset \
         computed independently), compared numerically; group present iff the prototype has it; all fields absent with 0 points; every point read \
         back lies within the bounds; default limits equal the declared range when the type declares both ends (else absent); a complete override is \
         stored as given. Non-trivial: >= 3 points with a bounded group, or scaled-integer coordinates, or an override, or a history with rejected points."
            .into()
    }
    fn budget(t: Tier) -> usize {
        t.pick(60_000, 10_000_000)
    }
    fn gen(s: &mut Src, _t: Tier) -> Case {
        let o = GenOpts { density: 1, max_ops: 2, max_values: 2000, images: false, blobs: false, nan_ok: false, fat_chance: (0, 1), reject_chance: (1, 3), ..GenOpts::default() };
        let mut p = prog::valid_program(s, &o);
        for op in &mut p.ops {
            if let Op::Cloud(c) = op {
                if s.chance(1, 2) {
                    c.n = c.n.min(40);
                }
                if find(&c.proto, "intensity").is_some() {
                    match s.weighted(&[3, 2, 1]) {
                        0 => {}
                        1 => c.meta.intensity_limits = Some([Some(gen::limit_val(s)), Some(gen::limit_val(s))]),
                        _ => c.meta.intensity_limits = Some([Some(gen::limit_val(s)), None]),
                    }
                }
                if find(&c.proto, "colorRed").is_some() {
                    match s.weighted(&[3, 2, 1]) {
                        0 => {}
                        1 => c.meta.color_limits = Some([(); 6].map(|_| Some(gen::limit_val(s)))),
                        _ => c.meta.color_limits = Some([Some(gen::limit_val(s)), None, None, None, None, None]),
                    }
                }
            }
        }
        Case { program: p }
    }
    fn run(case: &Case) -> Verdict {
        let mut v = Verdict::new();
        let p = &case.program;
        let dev = MemDev::new();
        let mut tr = Trace::default();
        let h = dev.handle();
        if let Err(panic) = guard(|| prog::exec(p, dev, &mut tr)) {
            v.fail(format!("writer panicked in {}: {panic}", tr.current));
            return v;
        }
        if let Some((call, e)) = &tr.error {
            v.fail(format!("writer rejected a valid program: {call}: {e}"));
            return v;
        }
        let got = match guard(|| read_scene(MemDev::with_data(h.bytes()))) {
            Err(panic) => {
                v.fail(format!("reader panicked: {panic}"));
                return v;
            }
            Ok(Err(e)) => {
                v.fail(format!("reading failed: {e}"));
                return v;
            }
            Ok(Ok((s, _))) => s,
        };
        let specs: Vec<_> = p.ops.iter().filter_map(|o| if let Op::Cloud(c) = o { Some(c) } else { None }).filter(|c| c.finalize).collect();
        if specs.len() != got.clouds.len() {
            v.fail("cloud count differs");
            return v;
        }
        for (ci, (spec, cl)) in specs.iter().zip(got.clouds.iter()).enumerate() {
            let pts = spec.points();
            if !spec.rejects.is_empty() {
                v.nt("history_with_rejected_points");
            }
            let (cart, sph, idx) = prog::expected_bounds(&spec.proto, &pts);
            let names_c = ["xMinimum", "xMaximum", "yMinimum", "yMaximum", "zMinimum", "zMaximum"];
            let names_s = ["rangeMinimum", "rangeMaximum", "elevationMinimum", "elevationMaximum", "azimuthStart", "azimuthEnd"];
            for (what, exp, act, names) in [("cartesianBounds", &cart, &cl.meta.cart_bounds, names_c), ("sphericalBounds", &sph, &cl.meta.sph_bounds, names_s)] {
                match (exp, act) {
                    (None, None) => {}
                    (Some(e), Some(a)) => {
                        for k in 0..6 {
                            if !num_eq(&e[k], &a[k]) {
                                v.fail(format!("cloud {ci}: {what}.{} is {:?}, the points give {:?}", names[k], a[k], e[k]));
                                return v;
                            }
                        }
                        if pts.len() >= 3 {
                            v.nt("bounds_over_3_or_more_points");
                        }
                    }
                    _ => {
                        v.fail(format!("cloud {ci}: {what} present={} but prototype has the group={}", act.is_some(), exp.is_some()));
                        return v;
                    }
                }
            }
            match (&idx, &cl.meta.idx_bounds) {
                (None, None) => {}
                (Some(e), Some(a)) => {
                    if e != a {
                        v.fail(format!("cloud {ci}: indexBounds {a:?}, the points give {e:?}"));
                        return v;
                    }
                    v.label("index_bounds");
                }
                (e, a) => {
                    v.fail(format!("cloud {ci}: indexBounds present={} expected present={}", a.is_some(), e.is_some()));
                    return v;
                }
            }
            if spec.proto.iter().any(|r| r.name.starts_with("cartesian") || r.name.starts_with("spherical")) && spec.proto.iter().any(|r| matches!(r.ty, RType::Scaled { .. }) && (r.name.starts_with("cartesian") || r.name.starts_with("spherical"))) {
                v.nt("scaled_integer_coordinates");
            }
            // every point read back lies within the bounds
            for (what, b, cols) in [
                ("cartesian", &cl.meta.cart_bounds, ["cartesianX", "cartesianY", "cartesianZ"]),
                ("spherical", &cl.meta.sph_bounds, ["sphericalRange", "sphericalElevation", "sphericalAzimuth"]),
            ] {
                if let Some(b) = b {
                    for (k, name) in cols.iter().enumerate() {
                        if let Some(j) = cl.proto.iter().position(|r| r.prefix.is_none() && r.name == *name) {
                            for (pi, pt) in cl.points.iter().enumerate() {
                                let x = pt[j].real(&cl.proto[j].ty);
                                let lo = b[2 * k].map(|f| f.0);
                                let hi = b[2 * k + 1].map(|f| f.0);
                                if !(lo.map(|l| l <= x).unwrap_or(false) && hi.map(|h| x <= h).unwrap_or(false)) {
                                    v.fail(format!("cloud {ci}: point {pi} {what} {name}={x} lies outside the stored bounds {lo:?}..{hi:?}"));
                                    return v;
                                }
                            }
                        }
                    }
                }
            }
            // limits
            let ov_i = &spec.meta.intensity_limits;
            match ov_i {
                Some(l) if l.iter().all(|x| x.is_some()) => {
                    v.nt("complete_limit_override");
                    if cl.meta.intensity_limits.as_ref() != Some(l) {
                        v.fail(format!("cloud {ci}: intensity limit override {l:?} stored as {:?}", cl.meta.intensity_limits));
                        return v;
                    }
                }
                Some(_) => v.label("partial_override_not_asserted"),
                None => {
                    let exp = find(&spec.proto, "intensity").and_then(|r| match declared(&r.ty) {
                        (Some(a), Some(b)) => Some([Some(a), Some(b)]),
                        _ => None,
                    });
                    if cl.meta.intensity_limits != exp {
                        v.fail(format!("cloud {ci}: default intensity limits {:?}, declared range gives {exp:?}", cl.meta.intensity_limits));
                        return v;
                    }
                    if exp.is_some() {
                        v.label("default_intensity_limits");
                    }
                }
            }
            match &spec.meta.color_limits {
                Some(l) if l.iter().all(|x| x.is_some()) => {
                    v.nt("complete_limit_override");
                    if cl.meta.color_limits.as_ref() != Some(l) {
                        v.fail(format!("cloud {ci}: colour limit override {l:?} stored as {:?}", cl.meta.color_limits));
                        return v;
                    }
                }
                Some(_) => v.label("partial_override_not_asserted"),
                None => {
                    let exp = if find(&spec.proto, "colorRed").is_some() {
                        let d: Vec<_> = ["colorRed", "colorGreen", "colorBlue"].iter().map(|n| declared(&find(&spec.proto, n).unwrap().ty)).collect();
                        if d.iter().all(|(a, b)| a.is_some() && b.is_some()) {
                            Some([d[0].0, d[0].1, d[1].0, d[1].1, d[2].0, d[2].1])
                        } else {
                            None
                        }
                    } else {
                        None
                    };
                    if cl.meta.color_limits != exp {
                        v.fail(format!("cloud {ci}: default colour limits {:?}, declared ranges give {exp:?}", cl.meta.color_limits));
                        return v;
                    }
                    if exp.is_some() {
                        v.label("default_color_limits");
                    }
                }
            }
        }
        v
    }
}
