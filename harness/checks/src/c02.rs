//! C02 - every finalized file is well-formed by an independent decoder.
use crate::adapt::read_scene;
use crate::c01::{layout_labels, proto_labels};
use crate::dev::MemDev;
use crate::kit::{guard, Check, Src, Tier, Verdict};
use crate::prog::{self, GenOpts, Op, Program, Trace};
use e57ref::scene::diff_scene;
use serde::{Deserialize, Serialize};

pub struct C02;

#[derive(Clone, Serialize, Deserialize)]
pub struct Case {
    pub program: Program,
    /// the device serves reads and writes in these (cyclic) maximum sizes; empty = full transfers
    #[serde(default)]
    pub chunks: Vec<u16>,
}

impl Check for C02 {
    type Case = Case;
    const ID: &'static str = "C02";
    fn rule() -> String {
        "Same program space as C01 (plus images and blobs in every order, leading padding blob sweeping positions mod 1020). Each finalized file is \
         decoded and validated by e57ref, an independent decoder (bit-serial CRC-32C, own strict XML+namespace parser, naive bit codec): size, page \
         checksums, header fields, XML well-formedness and namespaces, every published offset, section ids, section/packet length consistency, \
         alignment, prototype values within their own limits; 1 in 6 programs writes to a device that serves short reads and writes; the decoded scene must equal what was handed to the writer, and must equal what the crate's own reader reports. \
         Non-trivial: file with >= 2 section kinds and a header straddling a page boundary, or an image with a projection, or a cloud with >= 3 data packets."
            .into()
    }
    fn assumptions() -> Vec<String> {
        vec!["e57ref is a correct reading of ASTM E2807; bounded by the preflight against 12 libE57Format-written files bundled with the repository".into()]
    }
    fn budget(t: Tier) -> usize {
        t.pick(15_000, 300_000)
    }
    fn preflight() -> Result<(), String> {
        crate::preflight::decoder_preflight()
    }
    fn fixed(t: Tier) -> Vec<Case> {
        prog::sweep_programs(t == Tier::Thorough).into_iter().map(|program| Case { program, chunks: vec![] }).collect()
    }
    fn describe_fixed(t: Tier) -> Option<String> {
        Some(format!(
            "position sweep: a leading blob of every length 4r, r = 0..255 (every 4-byte residue of the section start modulo 1020), x {} prototype / point-count variants around the packet capacity, followed by a second cloud and a blob",
            if t == Tier::Thorough { 5 } else { 2 }
        ))
    }
    fn gen(s: &mut Src, _t: Tier) -> Case {
        let o = GenOpts { density: 3, max_ops: 5, compact_chance: (1, 60), failing_blob_chance: (1, 12), ..GenOpts::default() };
        let mut program = prog::valid_program(s, &o);
        if s.chance(1, 40) {
            // an extension record under its namespace name in another spelling: the writer refuses it (then the program is
            // outside this property) - or every element name it writes must still be bound to a declared namespace
            for op in &mut program.ops {
                if let Op::Cloud(c) = op {
                    if let Some(r) = c.proto.iter_mut().find(|r| r.prefix.as_ref().map(|p| p.chars().any(|ch| ch.is_ascii_alphabetic())).unwrap_or(false)) {
                        let p = r.prefix.clone().unwrap_or_default();
                        r.prefix = Some(if p.chars().any(|ch| ch.is_ascii_lowercase()) { p.to_ascii_uppercase() } else { p.to_ascii_lowercase() });
                        break;
                    }
                }
            }
        }
        let chunks = if s.chance(1, 6) { (0..1 + s.below(4)).map(|_| *s.pick(&[1u16, 7, 200, 512, 1000, 1023, 1024, 3000])).collect() } else { vec![] };
        Case { program, chunks }
    }
    fn run(case: &Case) -> Verdict {
        let mut v = Verdict::new();
        let p = &case.program;
        proto_labels(p, &mut v);
        let dev = MemDev::new();
        if !case.chunks.is_empty() {
            dev.st.borrow_mut().chunks = case.chunks.iter().map(|c| *c as usize).collect();
            v.label("device_with_short_transfers");
        }
        let mut tr = Trace::default();
        let h = dev.handle();
        if guard(|| prog::exec(p, dev, &mut tr)).is_err() || tr.error.is_some() || !tr.finalized {
            // not a successfully finalized file: outside this property (C01 / C10 decide it)
            v.label("writer_did_not_finalize");
            return v;
        }
        let bytes = h.bytes();
        layout_labels(&bytes, &mut v);
        let kinds = p.ops.iter().filter(|o| matches!(o, Op::Cloud(_))).count().min(1)
            + p.ops.iter().filter(|o| matches!(o, Op::Blob(_))).count().min(1)
            + p.ops.iter().filter(|o| matches!(o, Op::Image(_))).count().min(1);
        if kinds >= 2 && v.labels.iter().any(|l| l.contains("straddles")) {
            v.nt("mixed_sections_with_straddling_header");
        }
        if p.ops.iter().any(|o| matches!(o, Op::Image(i) if i.projection.is_some())) {
            v.nt("image_with_projection");
        }
        let d = match e57ref::decode::decode(&bytes) {
            Ok(d) => d,
            Err(e) => {
                v.fail(format!("independent decoder cannot decode the finalized file: {e}"));
                return v;
            }
        };
        if let Some(c) = d.complaints.first() {
            v.fail(format!("file is not well-formed: {c} ({} complaints)", d.complaints.len()));
            return v;
        }
        if let Some(x) = &tr.xml_out {
            if x.as_bytes() != &d.xml[..] {
                v.fail("XML section differs from the transformer output");
                return v;
            }
        }
        // decoded content == what was handed to the writer
        let mut exp = prog::expected_scene(p);
        let mut got = d.scene.clone();
        prog::mask_derived(&mut got, &mut exp);
        if let Some(diff) = diff_scene(&exp, &got, "handed_to_writer", "independent_decoder") {
            v.fail(format!("independent decoder disagrees with the writer's input: {diff}"));
            return v;
        }
        for (i, (b, (off, len))) in prog::free_blobs(p).iter().zip(tr.blobs.iter()).enumerate() {
            match e57ref::decode::blob_at(&bytes, *off, *len) {
                Ok(data) => {
                    if data != b.bytes() {
                        v.fail(format!("blob {i}: independent decoder reads other bytes than were written"));
                        return v;
                    }
                }
                Err(c) => {
                    v.fail(format!("blob {i} at offset {off} is not a well-formed blob section: {}", c.join("; ")));
                    return v;
                }
            }
        }
        // differential: independent decoder vs the crate's own reader, everything
        match guard(|| read_scene(MemDev::with_data(bytes.clone()))) {
            Ok(Ok((own, _))) => {
                if let Some(diff) = diff_scene(&d.scene, &own, "independent_decoder", "own_reader") {
                    v.fail(format!("own reader and independent decoder disagree: {diff}"));
                }
            }
            Ok(Err(e)) => v.fail(format!("own reader fails on a file the independent decoder accepts: {e}")),
            Err(p) => v.fail(format!("own reader panicked: {p}")),
        }
        v
    }
}
