//! Reference model of the simple point iterator, written from the rustdoc of
//! Point / RecordName / the option setters and the statements of C05 and C13.
//! Deliberately uses other algebra than the implementation (Hamilton product
//! for the pose, division for the normalisation).
use e57ref::scene::{CloudMeta, LimitVal, RType, Rec, Val};

#[derive(Clone, Copy, Debug, PartialEq)]
pub struct Opts {
    pub s2c: bool,
    pub c2s: bool,
    pub i2c: bool,
    pub ni: bool,
    pub nc: bool,
    pub pose: bool,
}
impl Opts {
    pub fn from_bits(b: u8) -> Self {
        Opts { s2c: b & 1 != 0, c2s: b & 2 != 0, i2c: b & 4 != 0, ni: b & 8 != 0, nc: b & 16 != 0, pose: b & 32 != 0 }
    }
    pub const DEFAULT_BITS: u8 = 1 | 4 | 8 | 16 | 32;
}

#[derive(Clone, Copy, Debug, PartialEq)]
pub enum Cart {
    Valid([f64; 3]),
    Direction([f64; 3]),
    Invalid,
}
#[derive(Clone, Copy, Debug, PartialEq)]
pub enum Sph {
    /// range, azimuth, elevation
    Valid([f64; 3]),
    /// azimuth, elevation
    Direction([f64; 2]),
    Invalid,
}

/// Expected normalised value, or how much of it is pinned down.
#[derive(Clone, Copy, Debug, PartialEq)]
pub enum Norm {
    /// exact expectation (before rounding to f32)
    Value(f64),
    /// only "finite, in [0,1], monotone" is specified (see DESIGN section 8)
    UnitOnly,
    /// raw value delivered as f32 (normalisation disabled)
    Raw(f32),
}

#[derive(Clone, Debug)]
pub struct ExpPoint {
    pub cart: Cart,
    /// alternative accepted for `cart` (unspecified interplay), if any
    pub cart_alt: Option<Cart>,
    pub sph: Sph,
    pub sph_alt: Option<Sph>,
    pub color: Option<[Norm; 3]>,
    pub intensity: Option<Norm>,
    pub row: i64,
    pub column: i64,
    /// some input was non-finite or huge: coordinate values are not compared
    pub extreme: bool,
    /// grey colour derived from intensity while the two normalisation switches differ:
    /// which switch governs the grey value is not documented, only presence is compared
    pub grey_unspecified: bool,
    /// the cloud has no pose and stores a valid Cartesian value: it must come out untouched, bit for bit,
    /// whatever the pose switch says (also infinities and negative zero)
    pub exact_cart: Option<[f64; 3]>,
}

pub struct CloudView<'a> {
    pub proto: &'a [Rec],
    pub meta: &'a CloudMeta,
}

fn col(proto: &[Rec], name: &str) -> Option<usize> {
    proto.iter().position(|r| r.prefix.is_none() && r.name == name)
}

fn lim_f64(l: &LimitVal) -> Option<(u8, f64)> {
    match l {
        LimitVal::I(v) => Some((0, *v as f64)),
        LimitVal::S(v) => Some((1, v.0 as f64)),
        LimitVal::D(v) => Some((2, v.0)),
        LimitVal::SI(_) => None,
        LimitVal::SX { raw, scale, offset } => Some((2, *raw as f64 * scale.0 + offset.0)),
    }
}

/// lo/hi of the normalisation range: the limits when both are given and of
/// one recognised kind, otherwise the range of the data type.
pub enum RangeSpec {
    Exact(f64, f64),
    /// limits of a kind whose real meaning the API does not define
    Unspecified,
}

pub fn type_range(ty: &RType) -> (f64, f64) {
    match ty {
        RType::Single { min, max } => (min.map(|m| m.0 as f64).unwrap_or(f32::MIN as f64), max.map(|m| m.0 as f64).unwrap_or(f32::MAX as f64)),
        RType::Double { min, max } => (min.map(|m| m.0).unwrap_or(f64::MIN), max.map(|m| m.0).unwrap_or(f64::MAX)),
        RType::Int { min, max } => (*min as f64, *max as f64),
        RType::Scaled { min, max, scale, offset } => {
            // the real range of the type; a negative scale reverses the order of the ends
            let a = *min as f64 * scale.0 + offset.0;
            let b = *max as f64 * scale.0 + offset.0;
            (a.min(b), a.max(b))
        }
    }
}

pub fn range_spec(limits: Option<(Option<LimitVal>, Option<LimitVal>)>, ty: &RType) -> RangeSpec {
    if let Some((Some(a), Some(b))) = limits {
        // a ScaledInteger element in the units of the attribute it limits (1 and 0 for an attribute that is no scaled
        // integer) is a raw value of that attribute
        let units = match ty {
            RType::Scaled { scale, offset, .. } => (scale.0, offset.0),
            _ => (1.0, 0.0),
        };
        let settle = |l: LimitVal| match l {
            LimitVal::SX { raw, scale, offset } if (scale.0, offset.0) == units => LimitVal::SI(raw),
            other => other,
        };
        let (a, b) = (settle(a), settle(b));
        // "the limits when both are given": each limit is a number of its own kind (integer, single, double); a
        // scaled-integer limit is a raw value of a scaled-integer attribute (as the writer's defaults are)
        let num = |l: &LimitVal| -> Option<f64> {
            match (l, ty) {
                (LimitVal::SI(v), RType::Scaled { scale, offset, .. }) => Some(*v as f64 * scale.0 + offset.0),
                // the units of an attribute that is no scaled integer are scale 1 and offset 0 (as for limit elements
                // in a file, defect 54): the raw number is the value
                (LimitVal::SI(v), _) => Some(*v as f64),
                (other, _) => lim_f64(other).map(|(_, v)| v),
            }
        };
        return match (num(&a), num(&b)) {
            (Some(lo), Some(hi)) if lo.is_finite() && hi.is_finite() => {
                if matches!((&a, &b), (LimitVal::SI(_), LimitVal::SI(_))) {
                    // a negative scale reverses the order of the two ends
                    RangeSpec::Exact(lo.min(hi), lo.max(hi))
                } else {
                    RangeSpec::Exact(lo, hi)
                }
            }
            _ => RangeSpec::Unspecified, // a scaled-integer limit on another kind of attribute, or infinite limits
        };
    }
    let (lo, hi) = type_range(ty);
    if lo.is_infinite() || hi.is_infinite() {
        // declared bounds of +-infinity: (v - lo) / (hi - lo) is undefined
        return RangeSpec::Unspecified;
    }
    RangeSpec::Exact(lo, hi)
}

/// clamp((v - lo) / (hi - lo), 0, 1) evaluated without overflow; 0 for a
/// degenerate range.
pub fn normalise(v: f64, lo: f64, hi: f64) -> f64 {
    if !(hi > lo) {
        return 0.0;
    }
    if v <= lo {
        return 0.0;
    }
    if v >= hi {
        return 1.0;
    }
    let r = hi - lo;
    let x = if r.is_finite() { (v - lo) / r } else { (v / 2.0 - lo / 2.0) / (hi / 2.0 - lo / 2.0) };
    x.clamp(0.0, 1.0)
}

fn norm_of(enabled: bool, v: f64, spec: &RangeSpec) -> Norm {
    if !enabled {
        return Norm::Raw(v as f32);
    }
    match spec {
        RangeSpec::Exact(lo, hi) => Norm::Value(normalise(v, *lo, *hi)),
        RangeSpec::Unspecified => Norm::UnitOnly,
    }
}

fn rotate(q: [f64; 4], v: [f64; 3]) -> [f64; 3] {
    // q * (0, v) * conj(q), Hamilton products
    let mul = |a: [f64; 4], b: [f64; 4]| -> [f64; 4] {
        [
            a[0] * b[0] - a[1] * b[1] - a[2] * b[2] - a[3] * b[3],
            a[0] * b[1] + a[1] * b[0] + a[2] * b[3] - a[3] * b[2],
            a[0] * b[2] - a[1] * b[3] + a[2] * b[0] + a[3] * b[1],
            a[0] * b[3] + a[1] * b[2] - a[2] * b[1] + a[3] * b[0],
        ]
    };
    let p = [0.0, v[0], v[1], v[2]];
    let qc = [q[0], -q[1], -q[2], -q[3]];
    let r = mul(mul(q, p), qc);
    [r[1], r[2], r[3]]
}

fn to_cart(r: f64, az: f64, el: f64) -> [f64; 3] {
    [r * el.cos() * az.cos(), r * el.cos() * az.sin(), r * el.sin()]
}
fn to_sph(c: [f64; 3]) -> [f64; 3] {
    let r = (c[0] * c[0] + c[1] * c[1] + c[2] * c[2]).sqrt();
    [r, c[1].atan2(c[0]), (c[2] / r).asin()]
}

pub enum ModelErr {
    /// a stored invalid-state value is outside its documented set
    InvalidState(String),
}

/// The documented function (raw values, point cloud metadata, options) -> point.
pub fn model_point(cv: &CloudView, raw: &[Val], o: Opts) -> Result<ExpPoint, ModelErr> {
    let p = cv.proto;
    let real = |j: usize| raw[j].real(&p[j].ty);
    let state = |name: &str, present_default: i64, absent_default: i64, subject: bool, max: i64| -> Result<i64, ModelErr> {
        match col(p, name) {
            Some(j) => {
                let v = match raw[j] {
                    Val::I(v) => v,
                    _ => 0,
                };
                if v < 0 || v > max {
                    Err(ModelErr::InvalidState(format!("{name}={v}")))
                } else {
                    Ok(v)
                }
            }
            None => Ok(if subject { present_default } else { absent_default }),
        }
    };
    let cx = (col(p, "cartesianX"), col(p, "cartesianY"), col(p, "cartesianZ"));
    let has_cart = matches!(cx, (Some(_), Some(_), Some(_)));
    let cstate = state("cartesianInvalidState", 0, 2, has_cart, 2)?;
    let sx = (col(p, "sphericalRange"), col(p, "sphericalAzimuth"), col(p, "sphericalElevation"));
    let has_sph = matches!(sx, (Some(_), Some(_), Some(_)));
    let sstate = state("sphericalInvalidState", 0, 2, has_sph, 2)?;
    let kx = (col(p, "colorRed"), col(p, "colorGreen"), col(p, "colorBlue"));
    let has_color = matches!(kx, (Some(_), Some(_), Some(_)));
    let kstate = state("isColorInvalid", 0, 1, has_color, 1)?;
    let ix = col(p, "intensity");
    let istate = state("isIntensityInvalid", 0, 1, ix.is_some(), 1)?;

    let mut extreme = false;
    let mut cart = match (cx, cstate) {
        ((Some(a), Some(b), Some(c)), 0) => Cart::Valid([real(a), real(b), real(c)]),
        ((Some(a), Some(b), Some(c)), 1) => Cart::Direction([real(a), real(b), real(c)]),
        _ => Cart::Invalid,
    };
    let mut sph = match (sx, sstate) {
        ((Some(r), Some(a), Some(e)), 0) => Sph::Valid([real(r), real(a), real(e)]),
        ((Some(_), Some(a), Some(e)), 1) => Sph::Direction([real(a), real(e)]),
        _ => Sph::Invalid,
    };
    let big = |v: f64| !v.is_finite() || v.abs() > 1e100;
    // non-finite or huge stored coordinates: values are not compared at all (see DESIGN section 8)
    for c in [cart] {
        if let Cart::Valid(a) | Cart::Direction(a) = c {
            extreme |= a.iter().any(|v| big(*v));
        }
    }
    match sph {
        Sph::Valid(a) => extreme |= a.iter().any(|v| big(*v)),
        Sph::Direction(a) => extreme |= a.iter().any(|v| big(*v)),
        Sph::Invalid => {}
    }
    let mut cart_alt = None;
    let mut sph_alt = None;
    let orig_cart = cart;
    // spherical -> Cartesian when no valid Cartesian value exists
    if o.s2c && !matches!(cart, Cart::Valid(_)) {
        match sph {
            Sph::Valid([r, a, e]) => {
                extreme |= big(r) || big(a) || big(e);
                cart = Cart::Valid(to_cart(r, a, e));
            }
            Sph::Direction([a, e]) => {
                // direction-only conversions are not pinned down by the documentation: accept both
                if matches!(cart, Cart::Invalid) {
                    extreme |= big(a) || big(e);
                    cart_alt = Some(Cart::Direction(to_cart(1.0, a, e)));
                }
            }
            Sph::Invalid => {}
        }
    }
    // Cartesian -> spherical when no valid spherical value exists
    if o.c2s && !matches!(sph, Sph::Valid(_)) {
        match cart {
            Cart::Valid(c) => {
                extreme |= c.iter().any(|v| big(*v));
                sph = Sph::Valid(to_sph(c));
                if !matches!(orig_cart, Cart::Valid(_)) {
                    // derived from a converted value: fine either way
                }
            }
            Cart::Direction(c) => {
                if matches!(sph, Sph::Invalid) {
                    extreme |= c.iter().any(|v| big(*v));
                    let s = to_sph(c);
                    sph_alt = Some(Sph::Direction([s[1], s[2]]));
                }
            }
            Cart::Invalid => {
                if let (Some(Cart::Direction(c)), Sph::Invalid) = (cart_alt, sph) {
                    let s = to_sph(c);
                    sph_alt = Some(Sph::Direction([s[1], s[2]]));
                }
            }
        }
    }
    // pose: rotation then translation, applied to valid Cartesian coordinates
    if o.pose {
        if let (Some(pose), Cart::Valid(c)) = (&cv.meta.pose, cart) {
            let q = [pose.rot[0].0, pose.rot[1].0, pose.rot[2].0, pose.rot[3].0];
            let t = [pose.trans[0].0, pose.trans[1].0, pose.trans[2].0];
            extreme |= q.iter().chain(t.iter()).chain(c.iter()).any(|v| big(*v));
            let r = rotate(q, c);
            let posed = [r[0] + t[0], r[1] + t[1], r[2] + t[2]];
            let identity = q == [1.0, 0.0, 0.0, 0.0] && t == [0.0, 0.0, 0.0];
            if o.c2s && !identity {
                // spherical derived from local or from posed coordinates: both accepted
                if let Sph::Valid(_) = sph {
                    if !matches!((sx, sstate), ((Some(_), Some(_), Some(_)), 0)) {
                        sph_alt = Some(Sph::Valid(to_sph(posed)));
                    }
                }
            }
            cart = Cart::Valid(posed);
        }
    }
    let color = if has_color && kstate == 0 {
        let (a, b, c) = (kx.0.unwrap_or(0), kx.1.unwrap_or(0), kx.2.unwrap_or(0));
        let lim = |k: usize| cv.meta.color_limits.as_ref().map(|l| (l[2 * k], l[2 * k + 1]));
        Some([
            norm_of(o.nc, real(a), &range_spec(lim(0), &p[a].ty)),
            norm_of(o.nc, real(b), &range_spec(lim(1), &p[b].ty)),
            norm_of(o.nc, real(c), &range_spec(lim(2), &p[c].ty)),
        ])
    } else {
        None
    };
    let intensity = match (ix, istate) {
        (Some(j), 0) => Some(norm_of(o.ni, real(j), &range_spec(cv.meta.intensity_limits.as_ref().map(|l| (l[0], l[1])), &p[j].ty))),
        _ => None,
    };
    // intensity becomes grey colour when no colour exists
    let mut grey_unspecified = false;
    let color = match (color, intensity, o.i2c) {
        (None, Some(i), true) => {
            grey_unspecified = o.ni != o.nc;
            Some([i, i, i])
        }
        (c, _, _) => c,
    };
    let row = col(p, "rowIndex").map(|j| if let Val::I(v) = raw[j] { v } else { -1 }).unwrap_or(-1);
    let column = col(p, "columnIndex").map(|j| if let Val::I(v) = raw[j] { v } else { -1 }).unwrap_or(-1);
    let exact_cart = match (&cv.meta.pose, orig_cart) {
        (None, Cart::Valid(a)) => Some(a),
        _ => None,
    };
    Ok(ExpPoint { cart, cart_alt, sph, sph_alt, color, intensity, row, column, extreme, grey_unspecified, exact_cart })
}

fn close(a: f64, b: f64, scale: f64) -> bool {
    if a.is_nan() || b.is_nan() {
        return a.is_nan() && b.is_nan();
    }
    if a == b {
        return true;
    }
    (a - b).abs() <= 1e-9 * scale.max(1e-300)
}

fn cart_matches(e: &Cart, g: &e57::CartesianCoordinate, extreme: bool) -> bool {
    use e57::CartesianCoordinate as C;
    match (e, g) {
        (Cart::Invalid, C::Invalid) => true,
        (Cart::Valid(a), C::Valid { x, y, z }) | (Cart::Direction(a), C::Direction { x, y, z }) => {
            if extreme {
                return true;
            }
            let s = a.iter().fold(1.0f64, |m, v| m.max(v.abs()));
            close(a[0], *x, s) && close(a[1], *y, s) && close(a[2], *z, s)
        }
        _ => false,
    }
}
fn sph_matches(e: &Sph, g: &e57::SphericalCoordinate, extreme: bool) -> bool {
    use e57::SphericalCoordinate as S;
    match (e, g) {
        (Sph::Invalid, S::Invalid) => true,
        (Sph::Valid(a), S::Valid { range, azimuth, elevation }) => {
            extreme || (close(a[0], *range, a[0].abs().max(1.0)) && close(a[1], *azimuth, 4.0) && close(a[2], *elevation, 4.0))
        }
        (Sph::Direction(a), S::Direction { azimuth, elevation }) => extreme || (close(a[0], *azimuth, 4.0) && close(a[1], *elevation, 4.0)),
        _ => false,
    }
}

pub fn norm_matches(e: &Norm, g: f32) -> Result<(), String> {
    match e {
        Norm::Raw(r) => {
            if r.to_bits() == g.to_bits() || (r.is_nan() && g.is_nan()) {
                Ok(())
            } else {
                Err(format!("normalisation disabled: expected the stored value as f32 {r:?}, got {g:?}"))
            }
        }
        Norm::UnitOnly => {
            if g.is_finite() && (0.0..=1.0).contains(&g) {
                Ok(())
            } else {
                Err(format!("normalised value {g:?} is not a number in [0,1]"))
            }
        }
        Norm::Value(x) => {
            if !(g.is_finite() && (0.0..=1.0).contains(&g)) {
                return Err(format!("normalised value {g:?} is not a number in [0,1] (expected {x})"));
            }
            if (g as f64 - x).abs() > 2.4e-7 {
                return Err(format!("normalised value {g:?}, expected (value-min)/(max-min) clamped = {x}"));
            }
            Ok(())
        }
    }
}

/// Compare a delivered point with the model; Err describes the first difference.
pub fn compare(e: &ExpPoint, g: &e57::Point) -> Result<(), String> {
    if let Some(a) = e.exact_cart {
        let same = |x: f64, y: f64| x.to_bits() == y.to_bits() || (x.is_nan() && y.is_nan());
        match &g.cartesian {
            e57::CartesianCoordinate::Valid { x, y, z } if same(*x, a[0]) && same(*y, a[1]) && same(*z, a[2]) => {}
            other => return Err(format!("cartesian: the cloud has no pose, the stored valid coordinates {a:?} must be delivered untouched, got {other:?}")),
        }
    }
    if !(cart_matches(&e.cart, &g.cartesian, e.extreme) || e.cart_alt.as_ref().map(|a| cart_matches(a, &g.cartesian, e.extreme)).unwrap_or(false)) {
        return Err(format!("cartesian: expected {:?} (or {:?}), got {:?}", e.cart, e.cart_alt, g.cartesian));
    }
    if !(sph_matches(&e.sph, &g.spherical, e.extreme) || e.sph_alt.as_ref().map(|a| sph_matches(a, &g.spherical, e.extreme)).unwrap_or(false)) {
        return Err(format!("spherical: expected {:?} (or {:?}), got {:?}", e.sph, e.sph_alt, g.spherical));
    }
    match (&e.color, &g.color) {
        (None, None) => {}
        (Some(_), Some(gc)) if e.grey_unspecified => {
            if gc.red.to_bits() != gc.green.to_bits() || gc.red.to_bits() != gc.blue.to_bits() {
                return Err(format!("grey colour from intensity has different components: {gc:?}"));
            }
        }
        (Some(c), Some(gc)) => {
            norm_matches(&c[0], gc.red).map_err(|m| format!("red: {m}"))?;
            norm_matches(&c[1], gc.green).map_err(|m| format!("green: {m}"))?;
            norm_matches(&c[2], gc.blue).map_err(|m| format!("blue: {m}"))?;
        }
        (ec, gc) => return Err(format!("colour presence: expected {}, got {:?}", ec.is_some(), gc)),
    }
    match (&e.intensity, &g.intensity) {
        (None, None) => {}
        (Some(i), Some(gi)) => norm_matches(i, *gi).map_err(|m| format!("intensity: {m}"))?,
        (ei, gi) => return Err(format!("intensity presence: expected {}, got {:?}", ei.is_some(), gi)),
    }
    if e.row != g.row || e.column != g.column {
        return Err(format!("row/column: expected {}/{}, got {}/{}", e.row, e.column, g.row, g.column));
    }
    Ok(())
}
