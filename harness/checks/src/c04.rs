//! C04 - all metadata survives write -> read unchanged.
use crate::adapt::read_scene;
use crate::dev::MemDev;
use crate::gen;
use crate::kit::{guard, Check, Src, Tier, Verdict};
use crate::prog::{self, End, GenOpts, Op, Program, Trace};
use e57ref::scene::diff_scene;
use serde::{Deserialize, Serialize};

pub struct C04;

#[derive(Clone, Serialize, Deserialize)]
pub struct Case {
    pub program: Program,
}

fn interesting_string(t: &str) -> bool {
    t.is_empty() || t.trim().is_empty() || t.contains(['<', '&', '>', '"', '\'']) || t.contains("]]") || t.chars().any(|c| c as u32 > 0xFFFF)
}

pub fn metadata_labels(p: &Program, v: &mut Verdict) {
    let js = serde_json::to_value(p).unwrap_or_default();
    fn walk(j: &serde_json::Value, v: &mut Verdict) {
        match j {
            serde_json::Value::String(t) => {
                if t == "inf" || t == "-inf" || t.starts_with("NaN:") {
                    v.nt("non_finite_float");
                } else if interesting_string(t) {
                    v.nt("xml_significant_string");
                }
            }
            serde_json::Value::Number(n) => {
                if n.as_i64() == Some(i64::MIN) || n.as_i64() == Some(i64::MAX) || n.as_u64() == Some(u32::MAX as u64) {
                    v.nt("integer_extreme");
                }
            }
            serde_json::Value::Array(a) => a.iter().for_each(|x| walk(x, v)),
            serde_json::Value::Object(o) => o.values().for_each(|x| walk(x, v)),
            _ => {}
        }
    }
    walk(&js, v);
    for op in &p.ops {
        if let Op::Image(i) = op {
            for r in [&i.visual, &i.projection].into_iter().flatten() {
                v.label(&format!("image_{:?}", r.kind));
                if r.mask.is_some() {
                    v.nt("image_with_mask");
                }
            }
        }
    }
}

impl Check for C04 {
    type Case = Case;
    const ID: &'static str = "C04";
    fn rule() -> String {
        "Writer programs exercising every setter of E57Writer / PointCloudWriter / ImageWriter with independent presence bits (6 in 8), strings over \
         XML 1.0 characters minus CR built from a token alphabet ('<', '&', ']]>', '<![CDATA[', entities, whitespace-only, empty, BMP edges, astral, \
         combining), floats from a special pool + random bit patterns, i64/u32 extremes, extension URIs with XML-significant characters, 1 program in 300 with 150 .. 600 registered extensions (the writer may refuse to register more than it can read back), all four \
         image representations with/without mask, complete limit overrides, identity or editing XML transformer. Oracle: every getter of the reader \
         equals the model field by field (floats bitwise, NaN~NaN), xml() and raw_xml() equal the transformer output byte for byte. \
         Non-trivial: case contains an XML-significant/empty/whitespace-only/astral string, a non-finite float, an integer extreme or an image with mask."
            .into()
    }
    fn budget(t: Tier) -> usize {
        t.pick(60_000, 5_000_000)
    }
    fn gen(s: &mut Src, _t: Tier) -> Case {
        let o = GenOpts { density: 6, max_ops: 4, max_values: 200, fat_chance: (0, 1), ..GenOpts::default() };
        let mut p = prog::valid_program(s, &o);
        if s.chance(1, 300) {
            // hundreds of registered extensions (each one is a namespace declaration on the root element)
            let n = *s.pick(&[150usize, 249, 250, 251, 254, 255, 256, 300, 600]);
            for i in 0..n {
                p.ops.insert(0, Op::Ext { prefix: format!("many{i}"), url: format!("urn:verif:many:{i}") });
            }
        }
        if s.chance(1, 15) {
            // a transformer that serialises with CR LF line ends (between the elements; strings are left alone)
            p.end = End::FinalizeReplace(vec![(">\n<".into(), ">\r\n<".into())]);
        }
        for op in &mut p.ops {
            match op {
                Op::Ext { prefix, url } => {
                    if s.chance(1, 2) {
                        *url = gen::ext_url(s, prefix);
                    }
                }
                Op::Cloud(c) => {
                    if c.proto.iter().any(|r| r.name == "intensity") && s.chance(1, 2) {
                        c.meta.intensity_limits = Some([Some(gen::limit_val(s)), Some(gen::limit_val(s))]);
                    }
                    if c.proto.iter().any(|r| r.name == "colorRed") && s.chance(1, 2) {
                        c.meta.color_limits = Some([(); 6].map(|_| Some(gen::limit_val(s))));
                    }
                    // rarely: a very long list (tens of thousands of XML nodes)
                    if s.chance(1, 400) {
                        let n = 20_000 + s.below(15_000) as usize;
                        c.meta.original_guids = Some((0..n).map(|i| format!("g{i}")).collect());
                    }
                    // explicit clearing through the API: set_*_limits(None)
                    if s.chance(1, 5) {
                        c.clear_limits = 1 + s.below(3) as u8;
                        if c.clear_limits & 1 != 0 {
                            c.meta.intensity_limits = None;
                        }
                        if c.clear_limits & 2 != 0 {
                            c.meta.color_limits = None;
                        }
                    }
                }
                _ => {}
            }
        }
        Case { program: p }
    }
    fn run(case: &Case) -> Verdict {
        let mut v = Verdict::new();
        let p = &case.program;
        metadata_labels(p, &mut v);
        if p.ops.iter().any(|o| matches!(o, Op::Cloud(c) if c.meta.original_guids.as_ref().map(|g| g.len() > 10_000).unwrap_or(false))) {
            v.nt("tens_of_thousands_of_xml_nodes");
        }
        let dev = MemDev::new();
        let mut tr = Trace::default();
        let h = dev.handle();
        if let Err(panic) = guard(|| prog::exec(p, dev, &mut tr)) {
            v.fail(format!("writer panicked in {}: {panic}", tr.current));
            return v;
        }
        let n_ext = p.ops.iter().filter(|o| matches!(o, Op::Ext { .. })).count();
        if n_ext > 200 {
            v.nt("hundreds_of_extensions");
        }
        if let Some((call, e)) = &tr.error {
            if call == "register_extension" && n_ext > 200 {
                // hundreds of namespace declarations: the writer may refuse to register more than it can read back
                v.label("extension_count_refused");
                return v;
            }
            v.fail(format!("writer rejected a valid program: {call}: {e}"));
            return v;
        }
        let bytes = h.bytes();
        let (mut got, xml) = match guard(|| read_scene(MemDev::with_data(bytes.clone()))) {
            Err(panic) => {
                v.fail(format!("reader panicked: {panic}"));
                return v;
            }
            Ok(Err(e)) => {
                v.fail(format!("reading the finalized file failed: {e}"));
                return v;
            }
            Ok(Ok(x)) => x,
        };
        let mut exp = prog::expected_scene(p);
        let cleared: Vec<u8> = p.ops.iter().filter_map(|o| if let Op::Cloud(c) = o { if c.finalize { Some(c.clear_limits) } else { None } } else { None }).collect();
        if cleared.iter().any(|b| *b != 0) {
            v.nt("limits_cleared_explicitly");
        }
        prog::mask_derived_with(&mut got, &mut exp, &cleared);
        if let Some(d) = diff_scene(&exp, &got, "written", "read") {
            v.fail(d);
            return v;
        }
        if let (End::FinalizeXml(_) | End::FinalizeMinified { .. } | End::FinalizeReplace(_), Some(x)) = (&p.end, &tr.xml_out) {
            v.label("xml_transformer");
            if x.contains('\r') {
                v.nt("transformer_output_with_carriage_returns");
            }
            if *x != xml {
                v.fail("E57Reader::xml() differs from the XML the transformer returned");
                return v;
            }
        }
        match guard(|| e57::E57Reader::raw_xml(MemDev::with_data(bytes.clone()))) {
            Ok(Ok(raw)) => {
                if raw != xml.as_bytes() {
                    v.fail("raw_xml() differs from xml()");
                }
            }
            Ok(Err(e)) => v.fail(format!("raw_xml failed: {e}")),
            Err(p) => v.fail(format!("raw_xml panicked: {p}")),
        }
        v
    }
}
