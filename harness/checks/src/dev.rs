//! In-memory Read + Write + Seek device that shares its state with the
//! harness: the bytes can be inspected after the writer is dropped, every
//! operation can be recorded, one operation can be made to fail, and
//! transfers can be served in short chunks.
use std::cell::RefCell;
use std::io::{Error, ErrorKind, Read, Result, Seek, SeekFrom, Write};
use std::rc::Rc;

#[derive(Clone, Debug, PartialEq)]
pub enum OpKind {
    Read,
    Write,
    Seek,
    Flush,
}

#[derive(Clone, Debug)]
pub struct DevOp {
    pub kind: OpKind,
    pub offset: u64,
    /// bytes written (Write only)
    pub data: Vec<u8>,
    pub len: usize,
}

#[derive(Clone, Copy, Debug, PartialEq)]
pub enum FaultKind {
    /// hard error (ErrorKind::Other)
    Hard,
    /// hard error of another kind (index into a list of kinds; never Interrupted)
    Kind(u8),
    /// ErrorKind::Interrupted - callers using write_all/read_exact must retry
    Interrupted,
}

#[derive(Default)]
pub struct DevState {
    pub data: Vec<u8>,
    pub record: bool,
    pub log: Vec<DevOp>,
    pub ops: usize,
    /// fail operation number `n` (0-based, counted over all kinds)
    pub fault_at: Option<(usize, FaultKind)>,
    pub fault_fired: bool,
    /// maximum bytes served per read / write call, cyclic; empty = unlimited
    pub chunks: Vec<usize>,
    pub chunk_i: usize,
    pub bytes_read: u64,
    pub bytes_written: u64,
    /// bytes of every write when `record` is on: (op index at that moment)
    pub marks: Vec<(String, usize)>,
}

impl std::fmt::Debug for MemDev {
    fn fmt(&self, f: &mut std::fmt::Formatter<'_>) -> std::fmt::Result {
        write!(f, "MemDev@{}", self.pos)
    }
}

#[derive(Clone)]
pub struct MemDev {
    pub st: Rc<RefCell<DevState>>,
    pos: u64,
}

impl MemDev {
    pub fn new() -> Self {
        MemDev { st: Rc::new(RefCell::new(DevState::default())), pos: 0 }
    }
    pub fn with_data(data: Vec<u8>) -> Self {
        let d = Self::new();
        d.st.borrow_mut().data = data;
        d
    }
    /// A second handle onto the same state with its own cursor at 0.
    pub fn handle(&self) -> Self {
        MemDev { st: self.st.clone(), pos: 0 }
    }
    pub fn bytes(&self) -> Vec<u8> {
        self.st.borrow().data.clone()
    }
    /// Remember the current length of the operation log under a name.
    pub fn mark(&self, name: &str) {
        let mut s = self.st.borrow_mut();
        let n = s.log.len();
        s.marks.push((name.to_string(), n));
    }
    pub fn fault_fired(&self) -> bool {
        self.st.borrow().fault_fired
    }
    fn tick(&self, kind: OpKind) -> Result<()> {
        let mut s = self.st.borrow_mut();
        let n = s.ops;
        s.ops += 1;
        if let Some((at, fk)) = s.fault_at {
            if at == n {
                s.fault_fired = true;
                return Err(match fk {
                    FaultKind::Hard => Error::new(ErrorKind::Other, format!("injected device fault at operation {n} ({kind:?})")),
                    FaultKind::Kind(k) => {
                        const KINDS: [ErrorKind; 8] = [
                            ErrorKind::InvalidInput,
                            ErrorKind::InvalidData,
                            ErrorKind::UnexpectedEof,
                            ErrorKind::PermissionDenied,
                            ErrorKind::BrokenPipe,
                            ErrorKind::TimedOut,
                            ErrorKind::NotFound,
                            ErrorKind::WriteZero,
                        ];
                        Error::new(KINDS[k as usize % KINDS.len()], format!("injected device fault at operation {n} ({kind:?})"))
                    }
                    FaultKind::Interrupted => Error::new(ErrorKind::Interrupted, "injected EINTR"),
                });
            }
        }
        Ok(())
    }
    fn chunk(&self, want: usize) -> usize {
        let mut s = self.st.borrow_mut();
        if s.chunks.is_empty() || want == 0 {
            return want;
        }
        let c = s.chunks[s.chunk_i % s.chunks.len()].max(1);
        s.chunk_i += 1;
        want.min(c)
    }
}

impl Read for MemDev {
    fn read(&mut self, buf: &mut [u8]) -> Result<usize> {
        self.tick(OpKind::Read)?;
        let want = self.chunk(buf.len());
        let mut s = self.st.borrow_mut();
        let len = s.data.len() as u64;
        let n = if self.pos >= len { 0 } else { want.min((len - self.pos) as usize) };
        if n > 0 {
            buf[..n].copy_from_slice(&s.data[self.pos as usize..self.pos as usize + n]);
        }
        if s.record {
            let off = self.pos;
            s.log.push(DevOp { kind: OpKind::Read, offset: off, data: Vec::new(), len: n });
        }
        s.bytes_read += n as u64;
        self.pos += n as u64;
        Ok(n)
    }
}

impl Write for MemDev {
    fn write(&mut self, buf: &[u8]) -> Result<usize> {
        self.tick(OpKind::Write)?;
        let n = self.chunk(buf.len());
        let mut s = self.st.borrow_mut();
        let end = self.pos as usize + n;
        if s.data.len() < end {
            s.data.resize(end, 0);
        }
        s.data[self.pos as usize..end].copy_from_slice(&buf[..n]);
        if s.record {
            let off = self.pos;
            s.log.push(DevOp { kind: OpKind::Write, offset: off, data: buf[..n].to_vec(), len: n });
        }
        s.bytes_written += n as u64;
        self.pos += n as u64;
        Ok(n)
    }
    fn flush(&mut self) -> Result<()> {
        self.tick(OpKind::Flush)?;
        let mut s = self.st.borrow_mut();
        if s.record {
            let off = self.pos;
            s.log.push(DevOp { kind: OpKind::Flush, offset: off, data: Vec::new(), len: 0 });
        }
        Ok(())
    }
}

impl Seek for MemDev {
    fn seek(&mut self, to: SeekFrom) -> Result<u64> {
        self.tick(OpKind::Seek)?;
        let len = self.st.borrow().data.len() as i128;
        let target: i128 = match to {
            SeekFrom::Start(p) => p as i128,
            SeekFrom::End(d) => len + d as i128,
            SeekFrom::Current(d) => self.pos as i128 + d as i128,
        };
        if target < 0 {
            return Err(Error::new(ErrorKind::InvalidInput, "seek before start"));
        }
        self.pos = target as u64;
        let mut s = self.st.borrow_mut();
        if s.record {
            s.log.push(DevOp { kind: OpKind::Seek, offset: target as u64, data: Vec::new(), len: 0 });
        }
        Ok(self.pos)
    }
}
