//! Writer programs: sequences of public writer API calls, their generator,
//! their executor against the crate under test and the scene they describe.
use crate::adapt::*;
use crate::dev::MemDev;
use crate::gen::{self, BlobSpec, ImageSpec, ProtoOpts, RepSpec};
use crate::kit::Src;
use e57::*;
use std::result::Result;
use e57ref::fx::F64;
use e57ref::scene::{self as sc, Cloud, CloudMeta, Rec, RepKind, Scene, Val, DT};
use serde::{Deserialize, Serialize};

#[derive(Clone, Debug, PartialEq, Serialize, Deserialize)]
pub struct CloudSpec {
    pub guid: String,
    pub proto: Vec<Rec>,
    pub n: u32,
    pub seed: u64,
    pub nan_ok: bool,
    /// settable metadata; `intensity_limits` / `color_limits` Some(..) means
    /// the caller overrides the limits
    pub meta: CloudMeta,
    pub finalize: bool,
    /// explicit clearing through the API: bit 0 set_intensity_limits(None), bit 1 set_color_limits(None)
    #[serde(default)]
    pub clear_limits: u8,
    /// add_point calls that must be rejected, issued before point number `.0` (or after the last point):
    /// extreme but storable coordinates in every column and one value that does not fit
    /// (`.1`: 0 wrong kind, 1 integer above its maximum, 2 integer below its minimum, 3 one value too few, 4 one too many) in column `.2`
    #[serde(default)]
    pub rejects: Vec<(u32, u8, u8)>,
}

/// A point that add_point must reject; `None` if the requested kind does not apply to this prototype.
pub fn unfit_point(proto: &[Rec], kind: u8, col: u8) -> Option<Vec<RecordValue>> {
    use e57ref::scene::RType;
    if proto.is_empty() {
        return None;
    }
    let j = col as usize % proto.len();
    // storable extremes: a rejected point must leave no trace of them in bounds or limits
    let mut vals: Vec<RecordValue> = proto
        .iter()
        .enumerate()
        .map(|(k, r)| match &r.ty {
            RType::Single { .. } => RecordValue::Single(if k % 2 == 0 { 3.0e38 } else { -3.0e38 }),
            RType::Double { .. } => RecordValue::Double(if k % 2 == 0 { 1.0e300 } else { -1.0e300 }),
            RType::Int { min, max } => RecordValue::Integer(if k % 2 == 0 { *max } else { *min }),
            RType::Scaled { min, max, .. } => RecordValue::ScaledInteger(if k % 2 == 0 { *max } else { *min }),
        })
        .collect();
    match kind % 5 {
        0 => {
            vals[j] = match vals[j] {
                RecordValue::Single(_) => RecordValue::Double(1.0),
                RecordValue::Double(_) => RecordValue::Integer(1),
                RecordValue::Integer(v) => RecordValue::ScaledInteger(v),
                RecordValue::ScaledInteger(_) => RecordValue::Single(1.0),
            }
        }
        1 | 2 => {
            let (min, max) = proto[j].ty.int_range()?;
            let v = if kind % 5 == 1 { max.checked_add(1)? } else { min.checked_sub(1)? };
            vals[j] = if matches!(proto[j].ty, RType::Scaled { .. }) { RecordValue::ScaledInteger(v) } else { RecordValue::Integer(v) };
        }
        3 => {
            vals.pop();
        }
        _ => vals.push(RecordValue::Integer(0)),
    }
    Some(vals)
}
impl CloudSpec {
    pub fn points(&self) -> Vec<Vec<Val>> {
        gen::points_for(&self.proto, self.n as usize, self.seed, self.nan_ok)
    }
}

#[derive(Clone, Debug, PartialEq, Serialize, Deserialize)]
pub enum Op {
    /// add_blob from a source that reports an error after `after` bytes: the call must fail; the caller carries on
    BlobFailing { spec: BlobSpec, after: u32 },
    Ext { prefix: String, url: String },
    Creation(Option<DT>),
    CoordMeta(Option<String>),
    Blob(BlobSpec),
    Image(ImageSpec),
    Cloud(CloudSpec),
}

#[derive(Clone, Debug, PartialEq, Serialize, Deserialize)]
pub enum End {
    Finalize,
    /// finalize_customized_xml with a transformer appending this comment
    FinalizeXml(String),
    Drop,
    /// finalize_customized_xml with a transformer that removes the line breaks between elements
    /// (all of them, or all but the one after the XML declaration): a single-line document
    FinalizeMinified { keep_first: bool },
    /// a first finalize_customized_xml call whose transformer refuses (must return the error), then these
    /// late setter calls (only `Creation` / `CoordMeta`), then an ordinary finalize
    RejectedThenFinalize { late: Vec<Op> },
    /// finalize_customized_xml with a transformer applying these literal replacements (all occurrences, in order)
    FinalizeReplace(Vec<(String, String)>),
    /// finalize, then calls a finished writer must refuse: finalize again, these operations, finalize once more.
    /// Whatever they return is ignored here; the checks look at what is on the device.
    FinalizeThenMore {
        more: Vec<Op>,
        /// the finalize call is finalize_customized_xml with a transformer that changes nothing
        #[serde(default)]
        customized: bool,
    },
}

/// Remove the line breaks outside CDATA sections.
pub fn minify(xml: &str, keep_first: bool) -> String {
    let mut out = String::with_capacity(xml.len());
    let mut rest = xml;
    let mut kept = !keep_first;
    while !rest.is_empty() {
        let (plain, cdata, tail) = match rest.find("<![CDATA[") {
            Some(p) => {
                let end = rest[p..].find("]]>").map(|e| p + e + 3).unwrap_or(rest.len());
                (&rest[..p], &rest[p..end], &rest[end..])
            }
            None => (rest, "", ""),
        };
        // line ends of the layout stand between two pieces of markup; a string with characters that no CDATA section can
        // hold is written as escaped text, where '<' and '>' never occur as such
        let mut it = plain.chars().peekable();
        while let Some(c) = it.next() {
            if (c == '\n' || c == '\r') && out.ends_with('>') && matches!(it.peek(), None | Some('<')) && (it.peek().is_some() || cdata.is_empty()) {
                if !kept {
                    kept = true;
                    out.push(c);
                }
                continue;
            }
            out.push(c);
        }
        out.push_str(cdata);
        rest = tail;
    }
    out
}

#[derive(Clone, Debug, PartialEq, Serialize, Deserialize)]
pub struct Program {
    pub guid: String,
    pub ops: Vec<Op>,
    pub end: End,
}

#[derive(Clone, Debug)]
pub struct GenOpts {
    pub max_ops: usize,
    pub max_values: usize,
    pub density: u64,
    pub images: bool,
    pub blobs: bool,
    pub nan_ok: bool,
    pub fat_chance: (u64, u64),
    pub limit_overrides: bool,
    /// chance of a compact all-integer prototype (3..6 records of 1..31 bits) with more than two full packets of points
    pub compact_chance: (u64, u64),
    /// chance that a cloud's history contains add_point calls that must be rejected
    pub reject_chance: (u64, u64),
    /// chance that an add_blob call whose source breaks down part way is put in front of an operation
    pub failing_blob_chance: (u64, u64),
}
impl Default for GenOpts {
    fn default() -> Self {
        GenOpts { max_ops: 6, max_values: 60_000, density: 2, images: true, blobs: true, nan_ok: true, fat_chance: (1, 4), limit_overrides: false, compact_chance: (0, 1), reject_chance: (0, 1), failing_blob_chance: (0, 1) }
    }
}

/// Compact integer prototype: every packet is filled to the last byte with sub-byte
/// carries in every stream; several full packets of points.
pub fn compact_cloud(s: &mut Src) -> CloudSpec {
    use e57ref::fx::F64;
    use e57ref::scene::RType;
    let names = ["cartesianX", "cartesianY", "cartesianZ", "intensity", "rowIndex", "columnIndex"];
    let k = 3 + s.below(4) as usize;
    let mut proto = Vec::new();
    // 1 in 3: voxel-like, every record 1..3 bits wide, so that one data packet carries far more than 65535 points
    let narrow = s.chance(1, 3);
    for name in names.iter().take(k) {
        let w = if narrow { 1 + s.below(3) as u32 } else { 1 + s.below(31) as u32 };
        let (min, max) = gen::int_range_of_width(s, w);
        let ty = if matches!(*name, "rowIndex" | "columnIndex") || s.flag() { RType::Int { min, max } } else { RType::Scaled { min, max, scale: F64(0.001), offset: F64(0.0) } };
        proto.push(Rec { prefix: None, name: name.to_string(), ty });
    }
    if s.chance(1, 3) {
        // a constant record (min = max) next to them: its values are synthesised by the reader
        proto.push(Rec { prefix: None, name: "timeStamp".to_string(), ty: RType::Int { min: 7, max: 7 } });
    }
    let cap = gen::cap_hint(&proto).unwrap_or(1000) as u32;
    let n = (*s.pick(&[2 * cap + 1, 2 * cap + 2, 3 * cap + 1, 2 * cap - 1, 2 * cap + 1, 5 * cap + 3, 8 * cap + 1])).min(if narrow { 450_000 } else { 400_000 });
    CloudSpec { guid: gen::guid(s), proto, n, seed: s.u64(), nan_ok: true, meta: CloudMeta::default(), finalize: true, clear_limits: 0, rejects: vec![] }
}

pub fn cloud_spec(s: &mut Src, prefixes: &[String], o: &GenOpts) -> CloudSpec {
    if s.chance(o.compact_chance.0, o.compact_chance.1) {
        return compact_cloud(s);
    }
    let fat = !prefixes.is_empty() && s.chance(o.fat_chance.0, o.fat_chance.1);
    let proto = gen::valid_proto(s, &ProtoOpts { prefixes: prefixes.to_vec(), fat });
    let n = gen::point_count(s, &proto, o.max_values);
    let meta = gen::cloud_meta(s, o.density);
    let rejects = if s.chance(o.reject_chance.0, o.reject_chance.1) { (0..1 + s.below(3)).map(|_| (s.below(n as u64 + 1) as u32, s.below(5) as u8, s.byte())).collect() } else { vec![] };
    CloudSpec { guid: gen::guid(s), proto, n, seed: s.u64(), nan_ok: o.nan_ok, meta, finalize: true, clear_limits: 0, rejects }
}

/// A program in which every call is expected to succeed.
pub fn valid_program(s: &mut Src, o: &GenOpts) -> Program {
    let mut ops = Vec::new();
    let mut prefixes: Vec<String> = Vec::new();
    let n_ext = s.weighted(&[4, 3, 2]);
    for _ in 0..n_ext {
        let (p, u) = gen::extension(s, &prefixes);
        prefixes.push(p.clone());
        ops.push(Op::Ext { prefix: p, url: u });
    }
    if s.chance(o.density, 8) {
        ops.push(Op::Creation(if s.chance(1, 8) { None } else { Some(gen::dt(s)) }));
    }
    if s.chance(o.density, 8) {
        ops.push(Op::CoordMeta(if s.chance(1, 8) { None } else { Some(gen::xml_string(s)) }));
    }
    // optional leading padding blob: sweeps the position of everything that follows
    if o.blobs && s.chance(1, 2) {
        ops.push(Op::Blob(BlobSpec { len: (s.below(255) * 4 + s.below(2) * 1020) as u32, seed: s.u64() | 1, chunk: 0, xmlish: false }));
    }
    let k = 1 + s.below(o.max_ops as u64) as usize;
    for _ in 0..k {
        if s.chance(o.failing_blob_chance.0, o.failing_blob_chance.1) {
            let spec = gen::blob_spec(s);
            let after = if spec.len == 0 { 0 } else { s.below(spec.len as u64) as u32 };
            ops.push(Op::BlobFailing { spec, after });
        }
        match s.weighted(&[6, if o.blobs { 2 } else { 0 }, if o.images { 2 } else { 0 }]) {
            0 => ops.push(Op::Cloud(cloud_spec(s, &prefixes, o))),
            1 => ops.push(Op::Blob(gen::blob_spec(s))),
            _ => ops.push(Op::Image(gen::image_spec(s, o.density))),
        }
    }
    // a source that breaks down in the very last call before the end (the writer then stands wherever the copy stopped)
    if s.chance(o.failing_blob_chance.0, o.failing_blob_chance.1) {
        let spec = gen::blob_spec(s);
        let after = if spec.len == 0 { 0 } else { s.below(spec.len as u64) as u32 };
        ops.push(Op::BlobFailing { spec, after });
    }
    let end = match s.weighted(&[12, 3, 1, 1]) {
        0 => End::Finalize,
        1 => End::FinalizeXml(format!("<!-- {} -->", s.below(1000))),
        2 => End::FinalizeMinified { keep_first: s.flag() },
        _ => End::RejectedThenFinalize {
            late: (0..s.below(3))
                .map(|_| if s.flag() { Op::Creation(if s.chance(1, 4) { None } else { Some(gen::dt(s)) }) } else { Op::CoordMeta(if s.chance(1, 4) { None } else { Some(gen::xml_string(s)) }) })
                .collect(),
        },
    };
    Program { guid: gen::guid(s), ops, end }
}

#[derive(Clone, Debug, Default)]
pub struct Trace {
    /// the call in progress (survives a panic)
    pub current: String,
    pub calls: u64,
    /// (call name, error) of the first failing call
    pub error: Option<(String, String)>,
    /// offsets and lengths of free-standing blobs, in program order
    pub blobs: Vec<(u64, u64)>,
    pub finalize_entered: bool,
    pub finalized: bool,
    pub xml_out: Option<String>,
    /// input flag: call the top-level finalize a second time when the first call fails
    pub retry_finalize: bool,
    /// the second finalize call reported success
    pub finalized_on_retry: bool,
    /// handle onto the device, to observe injected faults
    pub probe: Option<MemDev>,
    /// a call returned success although an injected device fault fired during it
    pub swallowed: Option<String>,
    /// input flag: after the first failing call the caller gives up adding data but still calls the top-level finalize
    pub finalize_after_error: bool,
    /// that finalize call reported success
    pub finalized_after_error: bool,
    /// input flag: calls on an image writer after its finalize (must be refused)
    pub late_image_calls: bool,
    /// input flag: a second visual reference for an image that has one (must be refused: an image lists one)
    pub repeat_visual: bool,
    /// input flag: a caller who answers a failed top-level finalize by adding one more small point cloud and
    /// finalizing again
    pub add_after_failed_finalize: bool,
    /// that second finalize reported success
    pub finalized_after_adding_more: bool,
    /// the top-level finalize failed and the caller went on (see `add_after_failed_finalize`)
    pub added_after_failed_finalize: bool,
}
impl Trace {
    fn after_ok(&mut self, name: &str) {
        if self.swallowed.is_none() {
            if let Some(p) = &self.probe {
                if p.fault_fired() {
                    self.swallowed = Some(name.to_string());
                }
            }
        }
    }
}

fn rep_props_visual(r: &RepSpec) -> VisualReferenceImageProperties {
    VisualReferenceImageProperties { width: r.width, height: r.height }
}

macro_rules! call {
    ($tr:expr, $name:expr, $e:expr) => {{
        $tr.current = $name.to_string();
        $tr.calls += 1;
        match $e {
            Ok(v) => {
                $tr.after_ok($name);
                v
            }
            Err(e) => {
                $tr.error = Some(($name.to_string(), e.to_string()));
                return;
            }
        }
    }};
}

pub fn exec_image<T: std::io::Read + std::io::Write + std::io::Seek>(w: &mut E57Writer<T>, im: &ImageSpec, tr: &mut Trace) {
    let mut iw = call!(tr, "add_image", w.add_image(&im.guid));
    if let Some(v) = &im.name {
        iw.set_name(v);
    }
    if let Some(v) = &im.description {
        iw.set_description(v);
    }
    if let Some(v) = &im.assoc_guid {
        iw.set_pointcloud_guid(v);
    }
    if let Some(v) = &im.sensor_vendor {
        iw.set_sensor_vendor(v);
    }
    if let Some(v) = &im.sensor_model {
        iw.set_sensor_model(v);
    }
    if let Some(v) = &im.sensor_serial {
        iw.set_sensor_serial(v);
    }
    if let Some(v) = &im.acquisition {
        iw.set_acquisition(dt_to_e57(v));
    }
    if let Some(v) = &im.pose {
        iw.set_transform(pose_to_e57(v));
    }
    for r in [&im.visual, &im.projection].into_iter().flatten() {
        let fmt = if r.jpeg { ImageFormat::Jpeg } else { ImageFormat::Png };
        let data = r.data.bytes();
        let mut data_r = gen::Trickle { data: &data, chunk: r.data.chunk as usize, calls: 0 };
        let mask = r.mask.as_ref().map(|m| m.bytes());
        let mut mask_r: Option<gen::Trickle> = mask.as_deref().map(|d| gen::Trickle { data: d, chunk: r.mask.as_ref().map(|m| m.chunk as usize).unwrap_or(0), calls: 0 });
        let mask_dyn: Option<&mut dyn std::io::Read> = mask_r.as_mut().map(|m| m as &mut dyn std::io::Read);
        match r.kind {
            RepKind::Visual => call!(tr, "add_visual_reference", iw.add_visual_reference(fmt, &mut data_r, rep_props_visual(r), mask_dyn)),
            RepKind::Pinhole => call!(
                tr,
                "add_pinhole",
                iw.add_pinhole(
                    fmt,
                    &mut data_r,
                    PinholeImageProperties {
                        width: r.width,
                        height: r.height,
                        focal_length: r.props[0].0,
                        pixel_width: r.props[1].0,
                        pixel_height: r.props[2].0,
                        principal_x: r.props[3].0,
                        principal_y: r.props[4].0,
                    },
                    mask_dyn
                )
            ),
            RepKind::Spherical => call!(
                tr,
                "add_spherical",
                iw.add_spherical(fmt, &mut data_r, SphericalImageProperties { width: r.width, height: r.height, pixel_width: r.props[0].0, pixel_height: r.props[1].0 }, mask_dyn)
            ),
            RepKind::Cylindrical => call!(
                tr,
                "add_cylindrical",
                iw.add_cylindrical(
                    fmt,
                    &mut data_r,
                    CylindricalImageProperties {
                        width: r.width,
                        height: r.height,
                        radius: r.props[0].0,
                        principal_y: r.props[1].0,
                        pixel_width: r.props[2].0,
                        pixel_height: r.props[3].0,
                    },
                    mask_dyn
                )
            ),
        }
    }
    if tr.repeat_visual && im.visual.is_some() {
        // an image lists one visual reference: the data of an earlier one would be written but never listed
        let data = [7u8, 7, 7];
        let mut r: &[u8] = &data;
        tr.current = "add_visual_reference (second call)".into();
        tr.calls += 1;
        if iw.add_visual_reference(ImageFormat::Png, &mut r, VisualReferenceImageProperties { width: 1, height: 1 }, None).is_ok() {
            tr.error = Some(("add_visual_reference (second call)".into(), "accepted: the data of the first visual reference is written but never listed".into()));
            return;
        }
    }
    if im.finalize {
        call!(tr, "image.finalize", iw.finalize());
        if tr.late_image_calls {
            // a finalized image is complete: a representation added afterwards would be written but never listed
            let data = [1u8, 2, 3, 4, 5];
            let mut r: &[u8] = &data;
            tr.current = "add_visual_reference (after image.finalize)".into();
            tr.calls += 1;
            if iw.add_visual_reference(ImageFormat::Png, &mut r, VisualReferenceImageProperties { width: 1, height: 1 }, None).is_ok() {
                tr.error = Some(("add_visual_reference after image.finalize".into(), "accepted data for an image that was already finalized (it is never listed)".into()));
                return;
            }
            tr.current = "image.finalize (second call)".into();
            tr.calls += 1;
            if iw.finalize().is_ok() {
                tr.error = Some(("image.finalize (second call)".into(), "accepted: the image would be listed twice".into()));
            }
        }
    }
}

pub fn apply_cloud_meta<T: std::io::Read + std::io::Write + std::io::Seek>(pw: &mut PointCloudWriter<T>, m: &CloudMeta) {
    if m.name.is_some() {
        pw.set_name(m.name.clone());
    }
    if m.description.is_some() {
        pw.set_description(m.description.clone());
    }
    if m.original_guids.is_some() {
        pw.set_original_guids(m.original_guids.clone());
    }
    if m.sensor_vendor.is_some() {
        pw.set_sensor_vendor(m.sensor_vendor.clone());
    }
    if m.sensor_model.is_some() {
        pw.set_sensor_model(m.sensor_model.clone());
    }
    if m.sensor_serial.is_some() {
        pw.set_sensor_serial(m.sensor_serial.clone());
    }
    if m.sensor_hw.is_some() {
        pw.set_sensor_hw_version(m.sensor_hw.clone());
    }
    if m.sensor_sw.is_some() {
        pw.set_sensor_sw_version(m.sensor_sw.clone());
    }
    if m.sensor_fw.is_some() {
        pw.set_sensor_fw_version(m.sensor_fw.clone());
    }
    if let Some(v) = m.temperature {
        pw.set_temperature(Some(v.0));
    }
    if let Some(v) = m.humidity {
        pw.set_humidity(Some(v.0));
    }
    if let Some(v) = m.pressure {
        pw.set_atmospheric_pressure(Some(v.0));
    }
    if let Some(v) = &m.acq_start {
        pw.set_acquisition_start(Some(dt_to_e57(v)));
    }
    if let Some(v) = &m.acq_end {
        pw.set_acquisition_end(Some(dt_to_e57(v)));
    }
    if let Some(v) = &m.pose {
        pw.set_transform(Some(pose_to_e57(v)));
    }
    if let Some(l) = &m.intensity_limits {
        pw.set_intensity_limits(Some(intensity_limits_to_e57(l)));
    }
    if let Some(l) = &m.color_limits {
        pw.set_color_limits(Some(color_limits_to_e57(l)));
    }
}

pub fn exec_cloud<T: std::io::Read + std::io::Write + std::io::Seek>(w: &mut E57Writer<T>, c: &CloudSpec, tr: &mut Trace) {
    let proto: Vec<Record> = c.proto.iter().map(rec_to_e57).collect();
    let mut pw = call!(tr, "add_pointcloud", w.add_pointcloud(&c.guid, proto));
    apply_cloud_meta(&mut pw, &c.meta);
    if c.clear_limits & 1 != 0 {
        pw.set_intensity_limits(None);
    }
    if c.clear_limits & 2 != 0 {
        pw.set_color_limits(None);
    }
    let unfit = |pw: &mut e57::PointCloudWriter<T>, tr: &mut Trace, at: usize| {
        for (pos, kind, col) in &c.rejects {
            if (*pos as usize).min(c.n as usize) == at && tr.error.is_none() {
                if let Some(vals) = unfit_point(&c.proto, *kind, *col) {
                    tr.current = format!("add_point (unfit, before point {at})");
                    tr.calls += 1;
                    if pw.add_point(vals).is_ok() {
                        tr.error = Some((format!("add_point before point {at}"), format!("accepted a point that does not fit the prototype (kind {kind}, column {col})")));
                    }
                }
            }
        }
    };
    for i in 0..c.n as usize {
        unfit(&mut pw, tr, i);
        if tr.error.is_some() {
            return;
        }
        let vals: Vec<RecordValue> = c.proto.iter().enumerate().map(|(j, r)| val_to_e57(&gen::value_at(&r.ty, c.seed, i, j, c.nan_ok), &r.ty)).collect();
        tr.current = format!("add_point#{i}");
        tr.calls += 1;
        if let Err(e) = pw.add_point(vals) {
            tr.error = Some((format!("add_point#{i}"), e.to_string()));
            return;
        }
        if tr.probe.is_some() {
            tr.after_ok("add_point");
        }
    }
    unfit(&mut pw, tr, c.n as usize);
    if tr.error.is_some() {
        return;
    }
    if c.finalize {
        if tr.finalize_after_error {
            // the stubborn caller also tries a failing finalize of the point cloud a second time before giving up
            tr.current = "pointcloud.finalize".to_string();
            tr.calls += 1;
            if let Err(e) = pw.finalize() {
                tr.error = Some(("pointcloud.finalize".to_string(), e.to_string()));
                tr.current = "pointcloud.finalize (second call)".to_string();
                let _ = pw.finalize();
                return;
            }
            tr.after_ok("pointcloud.finalize");
            return;
        }
        call!(tr, "pointcloud.finalize", pw.finalize());
    }
}

/// Execute a program on a device, stopping at the first error like a caller
/// would.  The writer is dropped before returning.
pub fn exec(p: &Program, dev: MemDev, tr: &mut Trace) {
    let marker = dev.handle();
    tr.probe = Some(dev.handle());
    let mut w = call!(tr, "E57Writer::new", E57Writer::new(dev, &p.guid));
    exec_ops(&mut w, p, tr);
    if tr.error.is_some() {
        if tr.finalize_after_error {
            tr.current = "finalize (after an earlier call failed)".into();
            if w.finalize().is_ok() {
                tr.finalized_after_error = true;
            }
        }
        return;
    }
    exec_end(&mut w, p, tr, &marker);
}

fn exec_ops(w: &mut E57Writer<MemDev>, p: &Program, tr: &mut Trace) {
    for op in &p.ops {
        match op {
            Op::Ext { prefix, url } => call!(tr, "register_extension", w.register_extension(Extension::new(prefix, url))),
            Op::Creation(v) => w.set_creation(v.as_ref().map(dt_to_e57)),
            Op::CoordMeta(v) => w.set_coordinate_metadata(v.clone()),
            Op::Blob(b) => {
                let data = b.bytes();
                let mut r = gen::Trickle { data: &data, chunk: b.chunk as usize, calls: 0 };
                let blob = call!(tr, "add_blob", w.add_blob(&mut r));
                tr.blobs.push((blob.offset, blob.length));
            }
            Op::BlobFailing { spec, after } => {
                let data = spec.bytes();
                let cut = (*after as usize).min(data.len());
                let mut r = gen::FailingSource { inner: gen::Trickle { data: &data[..cut], chunk: spec.chunk as usize, calls: 0 } };
                tr.current = "add_blob (failing source)".into();
                tr.calls += 1;
                if let Ok(b) = w.add_blob(&mut r) {
                    tr.error = Some(("add_blob".into(), format!("reported success (length {}) although its source reported an error after {cut} bytes", b.length)));
                    return;
                }
            }
            Op::Image(im) => {
                exec_image(w, im, tr);
                if tr.error.is_some() {
                    return;
                }
            }
            Op::Cloud(c) => {
                exec_cloud(w, c, tr);
                if tr.error.is_some() {
                    return;
                }
            }
        }
    }
}

fn exec_end(w: &mut E57Writer<MemDev>, p: &Program, tr: &mut Trace, marker: &MemDev) {
    match &p.end {
        End::Finalize => {
            marker.mark("finalize");
            tr.finalize_entered = true;
            tr.current = "finalize".into();
            tr.calls += 1;
            match w.finalize() {
                Ok(()) => {
                    tr.after_ok("finalize");
                    tr.finalized = true;
                }
                Err(e) => {
                    if tr.add_after_failed_finalize {
                        let proto = vec![Record::CARTESIAN_X_F64, Record::CARTESIAN_Y_F64, Record::CARTESIAN_Z_F64];
                        let added = (|| -> e57::Result<()> {
                            let mut pw = w.add_pointcloud("{added-after-failed-finalize}", proto)?;
                            for i in 0..5 {
                                pw.add_point(vec![RecordValue::Double(i as f64), RecordValue::Double(-1.0), RecordValue::Double(0.5)])?;
                            }
                            pw.finalize()
                        })();
                        tr.added_after_failed_finalize = true;
                        if added.is_ok() && w.finalize().is_ok() {
                            tr.finalized = true;
                            tr.finalized_after_adding_more = true;
                            return;
                        }
                    }
                    tr.error = Some(("finalize".to_string(), e.to_string()));
                    if tr.retry_finalize {
                        // a caller may try again after a transient device error
                        tr.current = "finalize (second call)".into();
                        if w.finalize().is_ok() {
                            tr.finalized_on_retry = true;
                        }
                    }
                    return;
                }
            }
        }
        End::FinalizeXml(extra) => {
            marker.mark("finalize");
            tr.finalize_entered = true;
            let captured = std::cell::RefCell::new(None);
            let r = w.finalize_customized_xml(|xml| {
                let out = xml.replacen("</e57Root>", &format!("{extra}</e57Root>"), 1);
                *captured.borrow_mut() = Some(out.clone());
                Ok(out)
            });
            tr.current = "finalize_customized_xml".into();
            tr.calls += 1;
            tr.xml_out = captured.into_inner();
            if let Err(e) = r {
                tr.error = Some(("finalize_customized_xml".into(), e.to_string()));
                return;
            }
            tr.after_ok("finalize_customized_xml");
            tr.finalized = true;
        }
        End::Drop => {}
        End::RejectedThenFinalize { late } => {
            tr.current = "finalize_customized_xml (refusing transformer)".into();
            tr.calls += 1;
            let first = w.finalize_customized_xml(|_| Err(e57::Error::Invalid { desc: "transformer refuses".into(), source: None }));
            if first.is_ok() {
                tr.error = Some(("finalize_customized_xml".into(), "reported success although the transformer returned an error".into()));
                return;
            }
            for op in late {
                match op {
                    Op::Creation(v) => w.set_creation(v.as_ref().map(dt_to_e57)),
                    Op::CoordMeta(v) => w.set_coordinate_metadata(v.clone()),
                    _ => {}
                }
            }
            marker.mark("finalize");
            tr.finalize_entered = true;
            tr.current = "finalize".into();
            tr.calls += 1;
            match w.finalize() {
                Ok(()) => {
                    tr.after_ok("finalize");
                    tr.finalized = true;
                }
                Err(e) => {
                    tr.error = Some(("finalize".to_string(), e.to_string()));
                    return;
                }
            }
        }
        End::FinalizeThenMore { more, customized } => {
            marker.mark("finalize");
            tr.finalize_entered = true;
            tr.current = "finalize".into();
            tr.calls += 1;
            if let Err(e) = if *customized { w.finalize_customized_xml(Ok) } else { w.finalize() } {
                tr.error = Some(("finalize".to_string(), e.to_string()));
                return;
            }
            tr.after_ok("finalize");
            tr.finalized = true;
            tr.current = "calls after finalize".into();
            let _ = w.finalize();
            let late = Program { guid: String::new(), ops: more.clone(), end: End::Drop };
            let mut scratch = Trace::default();
            exec_ops(w, &late, &mut scratch);
            let _ = w.finalize();
        }
        End::FinalizeReplace(pairs) => {
            marker.mark("finalize");
            tr.finalize_entered = true;
            let captured = std::cell::RefCell::new(None);
            let r = w.finalize_customized_xml(|xml| {
                let mut out = xml;
                for (a, b) in pairs {
                    out = out.replace(a.as_str(), b.as_str());
                }
                *captured.borrow_mut() = Some(out.clone());
                Ok(out)
            });
            tr.current = "finalize_customized_xml".into();
            tr.calls += 1;
            tr.xml_out = captured.into_inner();
            if let Err(e) = r {
                tr.error = Some(("finalize_customized_xml".into(), e.to_string()));
                return;
            }
            tr.after_ok("finalize_customized_xml");
            tr.finalized = true;
        }
        End::FinalizeMinified { keep_first } => {
            marker.mark("finalize");
            tr.finalize_entered = true;
            let captured = std::cell::RefCell::new(None);
            let r = w.finalize_customized_xml(|xml| {
                let out = minify(&xml, *keep_first);
                *captured.borrow_mut() = Some(out.clone());
                Ok(out)
            });
            tr.current = "finalize_customized_xml".into();
            tr.calls += 1;
            tr.xml_out = captured.into_inner();
            if let Err(e) = r {
                tr.error = Some(("finalize_customized_xml".into(), e.to_string()));
                return;
            }
            tr.after_ok("finalize_customized_xml");
            tr.finalized = true;
        }
    }
}

/// Bounds as the property C14 defines them: min / max of the real values.
pub fn expected_bounds(proto: &[Rec], pts: &[Vec<Val>]) -> (Option<[Option<F64>; 6]>, Option<[Option<F64>; 6]>, Option<[Option<i64>; 6]>) {
    let col = |name: &str| -> Option<usize> { proto.iter().position(|r| r.prefix.is_none() && r.name == name) };
    let mm = |j: Option<usize>| -> (Option<F64>, Option<F64>) {
        match j {
            None => (None, None),
            Some(j) => {
                let mut lo: Option<f64> = None;
                let mut hi: Option<f64> = None;
                for p in pts {
                    let v = p[j].real(&proto[j].ty);
                    lo = Some(match lo {
                        None => v,
                        Some(l) => {
                            if v < l {
                                v
                            } else {
                                l
                            }
                        }
                    });
                    hi = Some(match hi {
                        None => v,
                        Some(h) => {
                            if v > h {
                                v
                            } else {
                                h
                            }
                        }
                    });
                }
                (lo.map(F64), hi.map(F64))
            }
        }
    };
    let mmi = |j: Option<usize>| -> (Option<i64>, Option<i64>) {
        match j {
            None => (None, None),
            Some(j) => {
                let it = pts.iter().filter_map(|p| if let Val::I(v) = p[j] { Some(v) } else { None });
                (it.clone().min(), it.max())
            }
        }
    };
    let cart = if col("cartesianX").is_some() {
        let (a, b) = mm(col("cartesianX"));
        let (c, d) = mm(col("cartesianY"));
        let (e, f) = mm(col("cartesianZ"));
        Some([a, b, c, d, e, f])
    } else {
        None
    };
    let sph = if col("sphericalAzimuth").is_some() {
        let (a, b) = mm(col("sphericalRange"));
        let (c, d) = mm(col("sphericalElevation"));
        let (e, f) = mm(col("sphericalAzimuth"));
        Some([a, b, c, d, e, f])
    } else {
        None
    };
    let idx = if col("rowIndex").is_some() || col("columnIndex").is_some() || col("returnIndex").is_some() {
        let (a, b) = mmi(col("rowIndex"));
        let (c, d) = mmi(col("columnIndex"));
        let (e, f) = mmi(col("returnIndex"));
        Some([a, b, c, d, e, f])
    } else {
        None
    };
    (cart, sph, idx)
}

/// The scene a (successfully finalized) program describes: everything that was
/// handed to the writer.  Derived fields (bounds, default limits) are filled
/// in from `actual` unless `with_bounds`.
pub fn expected_scene(p: &Program) -> Scene {
    let mut s = Scene { guid: p.guid.clone(), ..Default::default() };
    for op in &p.ops {
        match op {
            Op::Ext { prefix, url } => s.extensions.push((prefix.clone(), url.clone())),
            Op::Creation(v) => s.creation = v.clone(),
            Op::CoordMeta(v) => s.coord_meta = v.clone(),
            Op::Blob(_) | Op::BlobFailing { .. } => {}
            Op::Image(im) => {
                if im.finalize {
                    s.images.push(gen::image_to_scene(im));
                }
            }
            Op::Cloud(c) => {
                if c.finalize {
                    let mut meta = c.meta.clone();
                    meta.guid = Some(c.guid.clone());
                    s.clouds.push(Cloud { meta, proto: c.proto.clone(), points: c.points() });
                }
            }
        }
    }
    if let End::RejectedThenFinalize { late } = &p.end {
        for op in late {
            match op {
                Op::Creation(v) => s.creation = v.clone(),
                Op::CoordMeta(v) => s.coord_meta = v.clone(),
                _ => {}
            }
        }
    }
    s
}

/// Remove what the caller did not hand to the writer (derived bounds,
/// default limits, library version) from a scene read back, so that it can
/// be compared with `expected_scene`.  Partial limit overrides are not
/// asserted (the statements cover complete overrides only).
pub fn mask_derived(actual: &mut Scene, expected: &mut Scene) {
    mask_derived_with(actual, expected, &[])
}

/// `cleared[i]`: the clear_limits bits of cloud i (explicitly cleared limits must read back as absent).
pub fn mask_derived_with(actual: &mut Scene, expected: &mut Scene, cleared: &[u8]) {
    actual.library_version = None;
    expected.library_version = None;
    for (ci, (a, e)) in actual.clouds.iter_mut().zip(expected.clouds.iter_mut()).enumerate() {
        a.meta.cart_bounds = None;
        a.meta.sph_bounds = None;
        a.meta.idx_bounds = None;
        let bits = cleared.get(ci).copied().unwrap_or(0);
        let partial_i = bits & 1 == 0 && e.meta.intensity_limits.as_ref().map(|l| l.iter().any(|x| x.is_none())).unwrap_or(true);
        if bits & 1 != 0 {
            e.meta.intensity_limits = None;
        }
        if bits & 2 != 0 {
            e.meta.color_limits = None;
        }
        if partial_i {
            a.meta.intensity_limits = None;
            e.meta.intensity_limits = None;
        }
        let partial_c = bits & 2 == 0 && e.meta.color_limits.as_ref().map(|l| l.iter().any(|x| x.is_none())).unwrap_or(true);
        if partial_c {
            a.meta.color_limits = None;
            e.meta.color_limits = None;
        }
    }
}

pub fn free_blobs(p: &Program) -> Vec<&BlobSpec> {
    p.ops.iter().filter_map(|o| if let Op::Blob(b) = o { Some(b) } else { None }).collect()
}

#[allow(dead_code)]
pub fn unused(_: sc::Image) {}

/// Write a complete scene (explicit points) through the public writer API.
pub fn write_scene(scene: &Scene) -> Result<Vec<u8>, String> {
    let dev = MemDev::new();
    let h = dev.handle();
    let mut w = E57Writer::new(dev, &scene.guid).map_err(|e| format!("E57Writer::new: {e}"))?;
    for (p, u) in &scene.extensions {
        w.register_extension(Extension::new(p, u)).map_err(|e| format!("register_extension: {e}"))?;
    }
    w.set_creation(scene.creation.as_ref().map(dt_to_e57));
    w.set_coordinate_metadata(scene.coord_meta.clone());
    for (i, c) in scene.clouds.iter().enumerate() {
        let proto: Vec<Record> = c.proto.iter().map(rec_to_e57).collect();
        let mut pw = w.add_pointcloud(c.meta.guid.as_deref().unwrap_or("{no-guid}"), proto).map_err(|e| format!("cloud {i}: add_pointcloud: {e}"))?;
        apply_cloud_meta(&mut pw, &c.meta);
        for (k, pt) in c.points.iter().enumerate() {
            let vals: Vec<RecordValue> = pt.iter().zip(c.proto.iter()).map(|(v, r)| val_to_e57(v, &r.ty)).collect();
            pw.add_point(vals).map_err(|e| format!("cloud {i}: add_point#{k}: {e}"))?;
        }
        pw.finalize().map_err(|e| format!("cloud {i}: finalize: {e}"))?;
    }
    for (i, im) in scene.images.iter().enumerate() {
        let spec = ImageSpec {
            guid: im.guid.clone().unwrap_or_else(|| "{no-guid}".into()),
            name: im.name.clone(),
            description: im.description.clone(),
            assoc_guid: im.assoc_guid.clone(),
            sensor_vendor: im.sensor_vendor.clone(),
            sensor_model: im.sensor_model.clone(),
            sensor_serial: im.sensor_serial.clone(),
            acquisition: im.acquisition.clone(),
            pose: im.pose.clone(),
            visual: None,
            projection: None,
            finalize: true,
        };
        // blobs with explicit bytes: drive the image writer directly
        let mut iw = w.add_image(&spec.guid).map_err(|e| format!("image {i}: add_image: {e}"))?;
        if let Some(v) = &spec.name {
            iw.set_name(v);
        }
        if let Some(v) = &spec.description {
            iw.set_description(v);
        }
        if let Some(v) = &spec.assoc_guid {
            iw.set_pointcloud_guid(v);
        }
        if let Some(v) = &spec.sensor_vendor {
            iw.set_sensor_vendor(v);
        }
        if let Some(v) = &spec.sensor_model {
            iw.set_sensor_model(v);
        }
        if let Some(v) = &spec.sensor_serial {
            iw.set_sensor_serial(v);
        }
        if let Some(v) = &spec.acquisition {
            iw.set_acquisition(dt_to_e57(v));
        }
        if let Some(v) = &spec.pose {
            iw.set_transform(pose_to_e57(v));
        }
        for r in [&im.visual, &im.projection].into_iter().flatten() {
            let fmt = if r.jpeg { ImageFormat::Jpeg } else { ImageFormat::Png };
            let mut data_r: &[u8] = &r.data;
            let mut mask_r: Option<&[u8]> = r.mask.as_deref();
            let mask_dyn: Option<&mut dyn std::io::Read> = mask_r.as_mut().map(|m| m as &mut dyn std::io::Read);
            let (wd, ht) = (r.width as u32, r.height as u32);
            let res = match r.kind {
                RepKind::Visual => iw.add_visual_reference(fmt, &mut data_r, VisualReferenceImageProperties { width: wd, height: ht }, mask_dyn),
                RepKind::Pinhole => iw.add_pinhole(
                    fmt,
                    &mut data_r,
                    PinholeImageProperties { width: wd, height: ht, focal_length: r.props[0].0, pixel_width: r.props[1].0, pixel_height: r.props[2].0, principal_x: r.props[3].0, principal_y: r.props[4].0 },
                    mask_dyn,
                ),
                RepKind::Spherical => iw.add_spherical(fmt, &mut data_r, SphericalImageProperties { width: wd, height: ht, pixel_width: r.props[0].0, pixel_height: r.props[1].0 }, mask_dyn),
                RepKind::Cylindrical => iw.add_cylindrical(
                    fmt,
                    &mut data_r,
                    CylindricalImageProperties { width: wd, height: ht, radius: r.props[0].0, principal_y: r.props[1].0, pixel_width: r.props[2].0, pixel_height: r.props[3].0 },
                    mask_dyn,
                ),
            };
            res.map_err(|e| format!("image {i}: add {:?}: {e}", r.kind))?;
        }
        iw.finalize().map_err(|e| format!("image {i}: finalize: {e}"))?;
    }
    w.finalize().map_err(|e| format!("finalize: {e}"))?;
    drop(w);
    Ok(h.bytes())
}

/// Enumerated position sweep: a leading blob of every length 4r (r = 0..255)
/// places the following sections at every 4-byte residue modulo the 1020 byte
/// page payload; the clouds have packet-capacity-boundary point counts.
pub fn sweep_programs(thorough: bool) -> Vec<Program> {
    use e57ref::fx::F64;
    use e57ref::scene::RType;
    let r = |name: &str, ty: RType| Rec { prefix: None, name: name.to_string(), ty };
    let p1 = vec![
        r("cartesianX", RType::Double { min: None, max: None }),
        r("cartesianY", RType::Double { min: None, max: None }),
        r("cartesianZ", RType::Double { min: None, max: None }),
        r("intensity", RType::Int { min: 0, max: 6 }),
    ];
    let p2 = vec![
        r("cartesianX", RType::Scaled { min: -50000, max: 50000, scale: F64(0.001), offset: F64(0.0) }),
        r("cartesianY", RType::Single { min: None, max: None }),
        r("cartesianZ", RType::Int { min: i64::MIN, max: i64::MAX }),
        r("colorRed", RType::Int { min: 0, max: 255 }),
        r("colorGreen", RType::Int { min: 0, max: 1023 }),
        r("colorBlue", RType::Int { min: 7, max: 7 }),
        r("rowIndex", RType::Int { min: 0, max: 4 }),
    ];
    let cap = |p: &[Rec]| gen::cap_hint(p).unwrap_or(100) as u32;
    let mut out = Vec::new();
    for res in 0..255u32 {
        let mut variants: Vec<(&Vec<Rec>, u32)> = vec![(&p1, if res % 3 == 0 { cap(&p1) + 1 } else if res % 16 == 1 { 2 * cap(&p1) + 1 } else { 9 }), (&p2, if res % 32 == 5 { 2 * cap(&p2) + 2 } else { 7 })];
        if thorough {
            variants = vec![(&p1, cap(&p1) - 1), (&p1, cap(&p1)), (&p1, cap(&p1) + 1), (&p2, cap(&p2) + 1), (&p2, 7)];
        }
        for (k, (proto, n)) in variants.into_iter().enumerate() {
            let cloud = |guid: &str, n: u32, seed: u64| {
                Op::Cloud(CloudSpec { guid: guid.to_string(), proto: proto.clone(), n, seed, nan_ok: true, meta: CloudMeta::default(), finalize: true, clear_limits: 0, rejects: vec![] })
            };
            out.push(Program {
                guid: format!("{{sweep-{res}-{k}}}"),
                ops: vec![
                    Op::Blob(BlobSpec { len: 4 * res, seed: 2 * res as u64 + 1, chunk: 0, xmlish: false }),
                    cloud("{first}", n, res as u64 * 31 + k as u64),
                    cloud("{second}", 3, 5),
                    Op::Blob(BlobSpec { len: 3, seed: 9, chunk: 0, xmlish: false }),
                ],
                end: End::Finalize,
            });
        }
    }
    out
}
