//! e57check - property checks for cry-inc/e57 (property-based testing and fuzzing).

use checks::kit::{self, run_check, RunOpts, Tier};
use checks::{alloc, c07, preflight};

#[global_allocator]
static GLOBAL: alloc::Counting = alloc::Counting;

fn usage() -> ! {
    eprintln!("usage: e57check <C01..C20> <quick|thorough> [--replay FILE] [--cases N] [--threads N] [--strict]");
    std::process::exit(2)
}

fn main() {
    let args: Vec<String> = std::env::args().collect();
    if args.len() < 2 {
        usage();
    }
    let id = args[1].clone();
    let mut tier = match std::env::var("VERIF_TIER").ok().as_deref() {
        Some("thorough") => Tier::Thorough,
        _ => Tier::Quick,
    };
    let mut opts = RunOpts {
        tier,
        seed: std::env::var("VERIF_SEED").ok().and_then(|s| s.trim().parse::<i64>().ok()).map(|v| v as u64).unwrap_or(1),
        replay: None,
        threads: std::thread::available_parallelism().map(|n| n.get()).unwrap_or(8).min(16),
        budget_override: None,
        strict: false,
        worker: None,
        inner: false,
        shrink_file: None,
    };
    let mut i = if id == "c07-digest" { args.len() } else { 2 };
    while i < args.len() {
        match args[i].as_str() {
            "quick" => tier = Tier::Quick,
            "thorough" => tier = Tier::Thorough,
            "--replay" => {
                i += 1;
                opts.replay = Some(args.get(i).unwrap_or_else(|| usage()).into());
            }
            "--cases" => {
                i += 1;
                opts.budget_override = args.get(i).and_then(|s| s.parse().ok());
            }
            "--threads" => {
                i += 1;
                opts.threads = args.get(i).and_then(|s| s.parse().ok()).unwrap_or(1);
            }
            "--strict" => opts.strict = true,
            "--inner" => opts.inner = true,
            "--worker" => {
                let a = args.get(i + 1).and_then(|s| s.parse().ok()).unwrap_or(0);
                let b = args.get(i + 2).and_then(|s| s.parse().ok()).unwrap_or(1);
                let c = args.get(i + 3).and_then(|s| s.parse().ok()).unwrap_or(0);
                opts.worker = Some((a, b, c));
                i += 3;
            }
            "--tape-one" => {
                i += 1;
                let f: std::path::PathBuf = args.get(i).unwrap_or_else(|| usage()).into();
                kit::install_panic_hook();
                let code = checks::for_check!(id.as_str(), kit::tape_one, &f).unwrap_or(2);
                std::process::exit(code);
            }
            "--dump-tapes" => {
                let dir: std::path::PathBuf = args.get(i + 1).unwrap_or_else(|| usage()).into();
                let n: usize = args.get(i + 2).and_then(|s| s.parse().ok()).unwrap_or(100);
                let code = checks::for_check!(id.as_str(), kit::dump_tapes, &dir, n, opts.seed).unwrap_or(2);
                std::process::exit(code);
            }
            "--shrink" => {
                i += 1;
                opts.shrink_file = Some(args.get(i).unwrap_or_else(|| usage()).into());
            }
            _ => usage(),
        }
        i += 1;
    }
    opts.tier = tier;
    kit::install_panic_hook();
    let code = match id.as_str() {
        "c07-digest" => {
            let seed = args.get(2).and_then(|s| s.parse().ok()).unwrap_or(0);
            let n = args.get(3).and_then(|s| s.parse().ok()).unwrap_or(10);
            println!("{}", c07::backend_digest(seed, n));
            0
        }
        "preflight" => match preflight::decoder_preflight() {
            Ok(()) => {
                println!("preflight ok");
                0
            }
            Err(e) => {
                eprintln!("preflight failed: {e}");
                2
            }
        },
        other => match checks::for_check!(other, run_check, &opts) {
            Some(code) => code,
            None => {
                eprintln!("unknown property id {id}");
                2
            }
        },
    };
    std::process::exit(code);
}
