//! e57check - property checks for cry-inc/e57 (property-based testing and fuzzing).
mod adapt;
mod alloc;
mod c01;
mod c02;
mod c03;
mod c04;
mod c05;
mod simple_model;
mod c06;
mod c07;
mod c08;
mod c09;
mod c10;
mod untrusted;
mod c11;
mod c12;
mod c13;
mod c14;
mod c15;
mod c16;
mod c17;
mod c18;
mod c19;
mod c20;
mod rops;
mod dev;
mod gen;
mod kit;
mod preflight;
mod prog;

use kit::{run_check, RunOpts, Tier};

#[global_allocator]
static GLOBAL: alloc::Counting = alloc::Counting;

fn usage() -> ! {
    eprintln!("usage: e57check <C01..C20> <quick|thorough> [--replay FILE] [--cases N] [--threads N] [--strict]");
    std::process::exit(2)
}

fn main() {
    let args: Vec<String> = std::env::args().collect();
    if args.len() < 2 {
        usage();
    }
    let id = args[1].clone();
    let mut tier = match std::env::var("VERIF_TIER").ok().as_deref() {
        Some("thorough") => Tier::Thorough,
        _ => Tier::Quick,
    };
    let mut opts = RunOpts {
        tier,
        seed: std::env::var("VERIF_SEED").ok().and_then(|s| s.trim().parse::<i64>().ok()).map(|v| v as u64).unwrap_or(1),
        replay: None,
        threads: std::thread::available_parallelism().map(|n| n.get()).unwrap_or(8).min(16),
        budget_override: None,
        strict: false,
        worker: None,
        inner: false,
        shrink_file: None,
    };
    let mut i = if id == "c07-digest" { args.len() } else { 2 };
    while i < args.len() {
        match args[i].as_str() {
            "quick" => tier = Tier::Quick,
            "thorough" => tier = Tier::Thorough,
            "--replay" => {
                i += 1;
                opts.replay = Some(args.get(i).unwrap_or_else(|| usage()).into());
            }
            "--cases" => {
                i += 1;
                opts.budget_override = args.get(i).and_then(|s| s.parse().ok());
            }
            "--threads" => {
                i += 1;
                opts.threads = args.get(i).and_then(|s| s.parse().ok()).unwrap_or(1);
            }
            "--strict" => opts.strict = true,
            "--inner" => opts.inner = true,
            "--worker" => {
                let a = args.get(i + 1).and_then(|s| s.parse().ok()).unwrap_or(0);
                let b = args.get(i + 2).and_then(|s| s.parse().ok()).unwrap_or(1);
                let c = args.get(i + 3).and_then(|s| s.parse().ok()).unwrap_or(0);
                opts.worker = Some((a, b, c));
                i += 3;
            }
            "--shrink" => {
                i += 1;
                opts.shrink_file = Some(args.get(i).unwrap_or_else(|| usage()).into());
            }
            _ => usage(),
        }
        i += 1;
    }
    opts.tier = tier;
    kit::install_panic_hook();
    let code = match id.as_str() {
        "C01" => run_check::<c01::C01>(&opts),
        "C02" => run_check::<c02::C02>(&opts),
        "C03" => run_check::<c03::C03>(&opts),
        "C04" => run_check::<c04::C04>(&opts),
        "C05" => run_check::<c05::C05>(&opts),
        "C06" => run_check::<c06::C06>(&opts),
        "C08" => run_check::<c08::C08>(&opts),
        "C09" => run_check::<c09::C09>(&opts),
        "C10" => run_check::<c10::C10>(&opts),
        "C11" => run_check::<c11::C11>(&opts),
        "C12" => run_check::<c12::C12>(&opts),
        "C13" => run_check::<c13::C13>(&opts),
        "C14" => run_check::<c14::C14>(&opts),
        "C15" => run_check::<c15::C15>(&opts),
        "C16" => run_check::<c16::C16>(&opts),
        "C17" => run_check::<c17::C17>(&opts),
        "C07" => run_check::<c07::C07>(&opts),
        "c07-digest" => {
            let seed = args.get(2).and_then(|s| s.parse().ok()).unwrap_or(0);
            let n = args.get(3).and_then(|s| s.parse().ok()).unwrap_or(10);
            println!("{}", c07::backend_digest(seed, n));
            0
        }
        "C18" => run_check::<c18::C18>(&opts),
        "C19" => run_check::<c19::C19>(&opts),
        "C20" => run_check::<c20::C20>(&opts),
        "preflight" => match preflight::decoder_preflight() {
            Ok(()) => {
                println!("preflight ok");
                0
            }
            Err(e) => {
                eprintln!("preflight failed: {e}");
                2
            }
        },
        _ => {
            eprintln!("unknown property id {id}");
            2
        }
    };
    std::process::exit(code);
}
