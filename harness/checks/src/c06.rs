//! C06 - blobs and image payloads round-trip byte-exactly.
use crate::adapt::read_scene;
use crate::dev::MemDev;
use crate::gen::{self, BlobSpec};
use crate::kit::{guard, Check, Src, Tier, Verdict};
use crate::prog::{self, End, GenOpts, Op, Program, Trace};
use e57::{Blob, E57Reader};
use e57ref::scene::diff_image;
use serde::{Deserialize, Serialize};

pub struct C06;

#[derive(Clone, Serialize, Deserialize)]
pub struct Case {
    pub program: Program,
    /// descriptor perturbations: (free blob index, length delta)
    pub perturb: Vec<(u8, i32)>,
    /// page damage (checksums not re-sealed) applied before the blob read sequence `order`
    #[serde(default)]
    pub damage: Vec<crate::c17::Damage>,
    #[serde(default)]
    pub order: Vec<u8>,
    /// reads into a target with limited room: (blob index, room selector, sink mode)
    #[serde(default)]
    pub sinks: Vec<(u8, u8, u8)>,
    /// the device reports ErrorKind::Interrupted once, at this operation (selector modulo the number of operations)
    #[serde(default)]
    pub interrupt: Option<u32>,
}

fn blob_program(s: &mut Src) -> Program {
    let mut ops = Vec::new();
    let k = 1 + s.below(6);
    for _ in 0..k {
        match s.weighted(&[6, 3, 1, 1]) {
            0 => ops.push(Op::Blob(gen::blob_spec(s))),
            3 => {
                // an extraction source that breaks down part way: that call fails, everything written afterwards must be intact
                let spec = gen::blob_spec(s);
                let after = if spec.len == 0 { 0 } else { s.below(spec.len as u64) as u32 };
                ops.push(Op::BlobFailing { spec, after });
            }
            1 => ops.push(Op::Image(gen::image_spec(s, 1))),
            _ => {
                let o = GenOpts { max_values: 3000, density: 0, ..GenOpts::default() };
                ops.push(Op::Cloud(prog::cloud_spec(s, &[], &o)));
            }
        }
    }
    if s.chance(1, 8) && ops.iter().any(|o| matches!(o, Op::Image(_))) {
        // a producer's own element in front of every image payload element, named like it but in its own namespace
        // (e.g. a thumbnail): each image's descriptors must still lead to that image's own data
        ops.insert(0, Op::Ext { prefix: "thumb".into(), url: "urn:verif:thumbnail".into() });
        let pairs = ["jpegImage", "pngImage", "imageMask"]
            .iter()
            .map(|n| (format!("<{n} "), format!("<thumb:{n} type=\"Blob\" fileOffset=\"48\" length=\"{}\"/><{n} ", 1 + s.below(40))))
            .collect();
        return Program { guid: "{blob-file}".into(), ops, end: End::FinalizeReplace(pairs) };
    }
    if s.chance(1, 10) {
        // a caller that goes on using the finished writer: what was written before must still come back exactly
        let more = (0..1 + s.below(2)).map(|_| Op::Blob(gen::blob_spec(s))).collect();
        return Program { guid: "{blob-file}".into(), ops, end: End::FinalizeThenMore { more, customized: s.flag() } };
    }
    Program { guid: "{blob-file}".into(), ops, end: End::Finalize }
}

fn fixed_lengths(t: Tier) -> Vec<Case> {
    // every length 0..=N at four positions relative to the page boundary
    let n = t.pick(2050, 4100);
    let lead = t.pick(2, 4);
    let mut out = Vec::new();
    for len in 0..=n as u32 {
        for l in 0..lead {
            let mut ops = Vec::new();
            if l > 0 {
                ops.push(Op::Blob(BlobSpec { len: [0u32, 952, 956, 1001][l], seed: 77, chunk: 0, xmlish: false }));
            }
            ops.push(Op::Blob(BlobSpec { len, seed: len as u64 * 2 + 1, chunk: 0, xmlish: false }));
            ops.push(Op::Blob(BlobSpec { len: 5, seed: 99, chunk: 0, xmlish: false }));
            out.push(Case { program: Program { guid: "{len-sweep}".into(), ops, end: End::Finalize }, perturb: vec![], damage: vec![], order: vec![], sinks: vec![(1, (len % 7) as u8, (len % 3) as u8)], interrupt: None });
        }
    }
    // blobs and an image close to the end of a big file (hundreds of pages in front of them)
    for (k, big) in [310_000u32, 655_360, 1_000_003].iter().enumerate() {
        for tail in [0u32, 1, 37, 1016, 2500] {
            let mut s = Src::from_seed(7000 + k as u64 * 10 + tail as u64);
            let ops = vec![
                Op::Blob(BlobSpec { len: *big, seed: 5 + k as u64, chunk: 0, xmlish: false }),
                Op::Image(gen::image_spec(&mut s, 1)),
                Op::Blob(BlobSpec { len: tail, seed: 11, chunk: 0, xmlish: false }),
            ];
            out.push(Case { program: Program { guid: "{big-file}".into(), ops, end: End::Finalize }, perturb: vec![], damage: vec![], order: vec![], sinks: vec![(1, 3, 0), (0, 2, 1)], interrupt: None });
        }
    }
    out
}

/// Room of a limited target relative to the blob length `len`.
fn room(sel: u8, len: u64) -> usize {
    (match sel % 7 {
        0 => 0,
        1 => len.saturating_sub(1),
        2 => len / 2,
        3 => len,
        4 => len + 1,
        5 => len.saturating_sub(1 + len % 1020),
        _ => len.saturating_sub(70_000),
    }) as usize
}

impl Check for C06 {
    type Case = Case;
    const ID: &'static str = "C06";
    fn rule() -> String {
        "Programs of blobs / images (all four representations, with and without mask) / point clouds in any number and order; blob lengths from \
         {0..5} u {k*1020 + d, d around header sizes} u random up to 5 pages, contents pseudo random with a distinct prefix per blob; plus an \
         enumerated sweep of every blob length 0..=2050 at two positions (thorough: 0..=4100 at four positions relative to a page end). Oracle: E57Reader::blob returns \
         Ok(len) and exactly the written bytes for every descriptor, each image's blob/mask descriptors lead to that image's data; for perturbed \
         descriptors Blob::new(offset, len') the result is Err or exactly len' bytes following the header; on files with damaged pages (1 in 4 \
         cases) every blob read of a generated sequence on one reader fails or returns exactly the written bytes; 1 in 4 blobs is fed from a \
         source that returns short reads; 1 case in 6 runs on a device that reports ErrorKind::Interrupted once (either a call fails or every blob is still exact); 1 operation in 11 is an add_blob whose source breaks down part way (the call must fail, everything written before and after it must read back exactly); blobs are also extracted into targets with limited room (error / Ok(0) / short writes when full, room \
         0, len-1, len/2, len, len+1, ...): Ok(n) only if the target received all n = len written bytes, a failure hands over only a prefix, \
         and the next read on the same reader is exact; 15 enumerated big files (0.3 - 1 MB blob in front of an image and a last blob). Non-trivial: blob spanning >= 2 pages, \
         or ending within 4 bytes of a page end, or length 0, or perturbed descriptor, or limited target."
            .into()
    }
    fn budget(t: Tier) -> usize {
        t.pick(40_000, 6_000_000)
    }
    fn fixed(t: Tier) -> Vec<Case> {
        fixed_lengths(t)
    }
    fn describe_fixed(t: Tier) -> Option<String> {
        Some(format!("every blob length 0..={} x {} leading positions, each followed by another blob", t.pick(2050, 4100), t.pick(2, 4)))
    }
    fn gen(s: &mut Src, _t: Tier) -> Case {
        let program = blob_program(s);
        let k = s.below(3);
        let perturb = (0..k).map(|_| (s.byte(), *s.pick(&[-1i32, 1, 2, 3, 4, 15, 16, 17, 19, 20, 32, 1020, 100000, -5]))).collect();
        let (damage, order) = if s.chance(1, 4) {
            let d = (0..1 + s.below(2)).map(|_| crate::c17::Damage::Unsealed { page: s.byte(), byte: s.u16(), bit: s.byte() }).collect();
            let o = (0..2 + s.below(8)).map(|_| s.byte()).collect();
            (d, o)
        } else {
            (vec![], vec![])
        };
        let sinks = (0..s.below(4)).map(|_| (s.byte(), s.below(7) as u8, s.below(3) as u8)).collect();
        let interrupt = if s.chance(1, 6) { Some(s.u32()) } else { None };
        Case { program, perturb, damage, order, sinks, interrupt }
    }
    fn run(case: &Case) -> Verdict {
        let mut v = Verdict::new();
        let p = &case.program;
        let dev = MemDev::new();
        if let Some(sel) = case.interrupt {
            // a device that reports ErrorKind::Interrupted once (a signal arriving during a system call): the call in
            // progress may fail; if every call succeeds, every blob must still be exact
            let dry = MemDev::new();
            let hd = dry.handle();
            let mut t0 = Trace::default();
            let _ = guard(|| prog::exec(p, dry, &mut t0));
            let n = hd.st.borrow().ops;
            if n > 0 {
                dev.st.borrow_mut().fault_at = Some((sel as usize % n, crate::dev::FaultKind::Interrupted));
                v.nt("device_operation_interrupted_once");
            }
        }
        let mut tr = Trace::default();
        let h = dev.handle();
        if let Err(panic) = guard(|| prog::exec(p, dev, &mut tr)) {
            v.fail(format!("writer panicked in {}: {panic}", tr.current));
            return v;
        }
        if case.interrupt.is_some() && tr.error.is_some() {
            v.label("interrupted_call_reported_an_error");
            return v;
        }
        if let Some((call, e)) = &tr.error {
            v.fail(format!("writer rejected a valid program: {call}: {e}"));
            return v;
        }
        let bytes = h.bytes();
        let free = prog::free_blobs(p);
        if matches!(p.end, End::FinalizeReplace(_)) {
            v.nt("foreign_blob_elements_in_image_representations");
        }
        if p.ops.iter().any(|o| matches!(o, Op::BlobFailing { .. })) {
            v.nt("blobs_written_after_a_failed_add_blob");
        }
        for (b, (off, len)) in free.iter().zip(tr.blobs.iter()) {
            if *len != b.len as u64 {
                v.fail(format!("add_blob returned length {len} for a blob of {} bytes", b.len));
                return v;
            }
            if b.len == 0 {
                v.nt("zero_length_blob");
            }
            let log_start = off / 1024 * 1020 + off % 1024 + 16;
            let log_end = log_start + *len;
            if log_end / 1020 > log_start / 1020 + 1 {
                v.nt("blob_spans_two_page_boundaries");
            }
            if log_end % 1020 >= 1016 || log_end % 1020 <= 3 {
                v.nt("blob_ends_near_page_end");
            }
        }
        let r = guard(|| -> Result<(), String> {
            let mut rd = E57Reader::new(MemDev::with_data(bytes.clone())).map_err(|e| format!("open: {e}"))?;
            for (i, (b, (off, len))) in free.iter().zip(tr.blobs.iter()).enumerate() {
                let mut out = Vec::new();
                let n = rd.blob(&Blob::new(*off, *len), &mut out).map_err(|e| format!("blob {i}: {e}"))?;
                if n != *len || out.len() as u64 != n {
                    return Err(format!("blob {i}: returned {n} / wrote {} bytes, length is {len}", out.len()));
                }
                if out != b.bytes() {
                    let pos = out.iter().zip(b.bytes().iter()).position(|(a, b)| a != b);
                    return Err(format!("blob {i} (len {len} at {off}): bytes differ from what was written, first at {pos:?}"));
                }
            }
            Ok(())
        });
        match r {
            Err(p) => {
                v.fail(format!("reader panicked: {p}"));
                return v;
            }
            Ok(Err(e)) => {
                v.fail(e);
                return v;
            }
            Ok(Ok(())) => {}
        }
        // images: descriptors lead to their own data
        match guard(|| read_scene(MemDev::with_data(bytes.clone()))) {
            Err(p) => {
                v.fail(format!("reader panicked: {p}"));
                return v;
            }
            Ok(Err(e)) => {
                v.fail(format!("reading failed: {e}"));
                return v;
            }
            Ok(Ok((got, _))) => {
                let exp = prog::expected_scene(p);
                if got.images.len() != exp.images.len() {
                    v.fail(format!("{} images read, {} written", got.images.len(), exp.images.len()));
                    return v;
                }
                for (i, (a, e)) in got.images.iter().zip(exp.images.iter()).enumerate() {
                    if let Some(d) = diff_image(e, a, "written", "read") {
                        v.fail(format!("image {i}: {d}"));
                        return v;
                    }
                }
                if !exp.images.is_empty() {
                    v.label("images");
                }
            }
        }
        // targets with limited room: Ok(n) means the target really received all n bytes of the blob; after a
        // failed extraction the same reader still delivers every blob exactly
        if !case.sinks.is_empty() && !tr.blobs.is_empty() {
            let r = guard(|| -> Result<Vec<&'static str>, String> {
                let mut labels = Vec::new();
                let mut rd = E57Reader::new(MemDev::with_data(bytes.clone())).map_err(|e| format!("open: {e}"))?;
                for (which, sel, mode) in &case.sinks {
                    let k = *which as usize % tr.blobs.len();
                    let (off, len) = tr.blobs[k];
                    let want = free[k].bytes();
                    let mut sink = gen::LimitSink::new(room(*sel, len), *mode);
                    let res = rd.blob(&Blob::new(off, len), &mut sink);
                    match res {
                        Ok(n) => {
                            if n != len || sink.got.len() as u64 != n || sink.got != want {
                                return Err(format!("blob {k} (len {len}) into a target with room for {} bytes: Ok({n}) although the target received {} bytes", sink.cap, sink.got.len()));
                            }
                            labels.push("limited_target_fits");
                        }
                        Err(_) => {
                            if sink.cap as u64 >= len {
                                return Err(format!("blob {k} (len {len}) into a target with room for {} bytes failed", sink.cap));
                            }
                            if sink.got[..] != want[..sink.got.len()] {
                                return Err(format!("blob {k}: the {} bytes handed to the target before the failure are not the start of the blob", sink.got.len()));
                            }
                            labels.push("limited_target_overflows");
                        }
                    }
                    // and the next ordinary read on this reader is exact
                    let k2 = (k + 1) % tr.blobs.len();
                    let (off2, len2) = tr.blobs[k2];
                    let mut out = Vec::new();
                    let n = rd.blob(&Blob::new(off2, len2), &mut out).map_err(|e| format!("blob {k2} after an extraction into a limited target: {e}"))?;
                    if n != len2 || out != free[k2].bytes() {
                        return Err(format!("blob {k2} after an extraction into a limited target: Ok({n}) with wrong bytes"));
                    }
                }
                Ok(labels)
            });
            match r {
                Err(p) => {
                    v.fail(format!("reader panicked (limited target): {p}"));
                    return v;
                }
                Ok(Err(e)) => {
                    v.fail(e);
                    return v;
                }
                Ok(Ok(labels)) => {
                    for l in labels {
                        v.nt(l);
                    }
                }
            }
        }
        // damaged pages: on ONE reader, every blob read in a generated order (with repeats) fails or returns exactly the written bytes
        if !case.damage.is_empty() && !tr.blobs.is_empty() {
            v.nt("blob_reads_on_a_damaged_file");
            let bad = crate::c17::damaged(&bytes, &case.damage);
            let r = guard(|| -> Result<(), String> {
                let mut rd = match E57Reader::new(MemDev::with_data(bad.clone())) {
                    Ok(r) => r,
                    Err(_) => return Ok(()),
                };
                for (step, w) in case.order.iter().enumerate() {
                    let k = *w as usize % tr.blobs.len();
                    let (off, len) = tr.blobs[k];
                    let mut out = Vec::new();
                    if let Ok(n) = rd.blob(&Blob::new(off, len), &mut out) {
                        if n != len || out != free[k].bytes() {
                            return Err(format!("damaged file, read {step} of the sequence {:?}: blob {k} returned Ok({n}) with bytes that were never written to it", case.order));
                        }
                    }
                }
                Ok(())
            });
            match r {
                Err(p) => {
                    v.fail(format!("reader panicked on a damaged file: {p}"));
                    return v;
                }
                Ok(Err(e)) => {
                    v.fail(e);
                    return v;
                }
                Ok(Ok(())) => {}
            }
        }
        // a descriptor longer than what the file holds, with the section header inflated to match: nothing may come
        // back as success with fewer bytes than the descriptor states
        if !case.perturb.is_empty() && !tr.blobs.is_empty() {
            if let Ok(mut log) = e57ref::pages::unpage(&bytes) {
                let (which, delta) = case.perturb[0];
                let (off, len) = tr.blobs[which as usize % tr.blobs.len()];
                if let Some(l) = e57ref::pages::phys_to_log(off) {
                    let l = l as usize;
                    if l + 16 <= log.len() {
                        log[l + 8..l + 16].copy_from_slice(&(1u64 << 40).to_le_bytes());
                        let inflated = e57ref::pages::page(&log);
                        let want_len = (log.len() as u64).saturating_sub(l as u64) + 1 + delta.unsigned_abs() as u64;
                        v.nt("descriptor_and_section_header_longer_than_the_file");
                        let res = guard(|| {
                            let mut rd = E57Reader::new(MemDev::with_data(inflated.clone())).map_err(|e| e.to_string())?;
                            let mut sink = gen::LimitSink::new(usize::MAX, 0);
                            rd.blob(&Blob::new(off, want_len), &mut sink).map(|n| (n, sink.got.len() as u64)).map_err(|e| e.to_string())
                        });
                        match res {
                            Err(p) => {
                                v.fail(format!("blob() panicked for a descriptor beyond the end of the file: {p}"));
                                return v;
                            }
                            Ok(Ok((n, got))) if n != want_len || got != want_len => {
                                v.fail(format!("descriptor of {want_len} bytes on a blob of {len} bytes whose section header claims 2^40 bytes: blob() reports Ok({n}) and hands over {got} bytes - fewer than the descriptor's length, silently"));
                                return v;
                            }
                            _ => {}
                        }
                    }
                }
            }
        }
        // perturbed descriptors
        if !case.perturb.is_empty() && !tr.blobs.is_empty() {
            let log = e57ref::pages::unpage(&bytes).unwrap_or_default();
            for (which, delta) in &case.perturb {
                let (off, len) = tr.blobs[*which as usize % tr.blobs.len()];
                let len2 = (len as i64 + *delta as i64).max(0) as u64;
                v.nt("perturbed_descriptor");
                let res = guard(|| {
                    let mut rd = E57Reader::new(MemDev::with_data(bytes.clone())).map_err(|e| e.to_string())?;
                    let mut out = Vec::new();
                    rd.blob(&Blob::new(off, len2), &mut out).map(|n| (n, out)).map_err(|e| e.to_string())
                });
                match res {
                    Err(p) => {
                        v.fail(format!("blob() panicked for descriptor ({off},{len2}): {p}"));
                        return v;
                    }
                    Ok(Err(_)) => v.label("perturbed_rejected"),
                    Ok(Ok((n, out))) => {
                        v.label("perturbed_accepted");
                        let l = (off / 1024 * 1020 + off % 1024 + 16) as usize;
                        let expect = log.get(l..l + len2 as usize);
                        if n != len2 || out.len() as u64 != n || expect != Some(&out[..]) {
                            v.fail(format!("descriptor ({off},{len2}) on a blob of {len} bytes: Ok({n}) with {} bytes that are not the {len2} bytes after the section header", out.len()));
                            return v;
                        }
                    }
                }
            }
        }
        v
    }
}
