//! Generators (construction, not rejection) for record types, prototypes,
//! values, metadata, images and layouts.  All choices come from `Src`.
use crate::kit::{mix, Src};
use e57ref::encode::{CloudLayout, Layout, Pk};
use e57ref::fx::{F32, F64};
use e57ref::scene::*;
use serde::{Deserialize, Serialize};

pub const F64_POOL: [f64; 30] = [
    3.4028234663852886e38,
    -3.4028234663852886e38,
    1.7976931348623157e308,
    4294967296.0,
    -2147483648.0,
    1e-320,
    0.0,
    -0.0,
    1.0,
    -1.0,
    0.1,
    0.5,
    1e-300,
    5e-324,
    f64::MIN_POSITIVE,
    f64::MAX,
    f64::MIN,
    f64::INFINITY,
    f64::NEG_INFINITY,
    f64::NAN,
    1e21,
    1e-7,
    123456789.125,
    9007199254740992.0,
    9007199254740994.0,
    std::f64::consts::PI,
    0.3333333333333333,
    -273.15,
    1e16,
    2.2250738585072011e-308,
];

pub fn f64_any(s: &mut Src) -> f64 {
    match s.weighted(&[6, 3, 2]) {
        0 => *s.pick(&F64_POOL),
        1 => (s.range(-100000, 100000) as f64) / *s.pick(&[1.0, 8.0, 10.0, 1000.0]),
        _ => f64::from_bits(s.u64()),
    }
}
pub fn f64_finite(s: &mut Src) -> f64 {
    let v = f64_any(s);
    if v.is_finite() {
        v
    } else {
        s.range(-1000, 1000) as f64 * 0.25
    }
}
pub fn f32_any(s: &mut Src) -> f32 {
    match s.weighted(&[4, 3, 2]) {
        0 => *s.pick(&[0.0f32, -0.0, 1.0, -1.0, 0.1, f32::MIN_POSITIVE, 1e-45, f32::MAX, f32::MIN, f32::INFINITY, f32::NEG_INFINITY, f32::NAN, 16777216.0, 16777218.0]),
        1 => (s.range(-100000, 100000) as f32) / *s.pick(&[1.0f32, 8.0, 10.0, 1000.0]),
        _ => f32::from_bits(s.u32()),
    }
}

/// Integer range realising a chosen bit width (0..=64).
pub fn int_range_of_width(s: &mut Src, w: u32) -> (i64, i64) {
    let range: u128 = if w == 0 {
        0
    } else {
        let hi: u128 = (1u128 << w) - 1;
        let lo: u128 = 1u128 << (w - 1);
        match s.weighted(&[3, 2, 2, 3]) {
            0 => hi,
            1 => lo,
            2 => (lo + 1).min(hi),
            _ => lo + (s.u64() as u128 % (hi - lo + 1)),
        }
    };
    // min must satisfy i64::MIN <= min and min + range <= i64::MAX
    let max_min: i128 = i64::MAX as i128 - range as i128;
    let min_min: i128 = i64::MIN as i128;
    let cands: [i128; 6] = [0, 1, -1, min_min, max_min, -((range / 2) as i128)];
    let mut min = match s.weighted(&[3, 1, 1, 2, 2, 2, 3]) {
        i @ 0..=5 => cands[i],
        _ => {
            let span = (max_min - min_min + 1) as u128;
            min_min + (s.u64() as u128 % span) as i128
        }
    };
    if min > max_min {
        min = max_min;
    }
    if min < min_min {
        min = min_min;
    }
    (min as i64, (min + range as i128) as i64)
}

pub fn int_range(s: &mut Src) -> (i64, i64) {
    let w = s.below(65) as u32;
    int_range_of_width(s, w)
}

#[derive(Clone, Copy, PartialEq)]
pub enum TypeRule {
    Any,
    /// azimuth / elevation: anything but Integer
    NotInteger,
    /// row / column / return: Integer only
    IntegerOnly,
}

fn float_bounds64(s: &mut Src) -> (Option<F64>, Option<F64>) {
    match s.weighted(&[5, 2, 1, 1]) {
        0 => (None, None),
        1 => {
            let a = f64_finite(s);
            let b = f64_finite(s);
            (Some(F64(a.min(b))), Some(F64(a.max(b))))
        }
        2 => (Some(F64(f64::NEG_INFINITY)), Some(F64(f64::INFINITY))),
        _ => {
            if s.flag() {
                (Some(F64(f64_finite(s))), None)
            } else {
                (None, Some(F64(f64_finite(s))))
            }
        }
    }
}
fn float_bounds32(s: &mut Src) -> (Option<F32>, Option<F32>) {
    let (a, b) = float_bounds64(s);
    // finite f64 bounds must stay finite (and ordered) as f32
    let c = |v: F64| F32(if v.0.is_finite() { (v.0 as f32).clamp(f32::MIN, f32::MAX) } else { v.0 as f32 });
    (a.map(c), b.map(c))
}

pub fn scale_offset(s: &mut Src) -> (f64, f64) {
    let scale = match s.weighted(&[4, 3, 1, 1]) {
        0 => 1.0,
        1 => *s.pick(&[0.001, 0.5, 1e-6, 2.0, 0.1, 1e3]),
        2 => -*s.pick(&[1.0, 0.25]),
        _ => {
            let v = f64_finite(s).abs();
            if v == 0.0 || !(1e-30..1e30).contains(&v) {
                0.125
            } else {
                v
            }
        }
    };
    let offset = match s.weighted(&[4, 2, 1]) {
        0 => 0.0,
        1 => *s.pick(&[1.5, -100.25, 1e6, -0.0]),
        _ => {
            let v = f64_finite(s);
            if v.abs() > 1e30 {
                7.0
            } else {
                v
            }
        }
    };
    (scale, offset)
}

pub fn rtype(s: &mut Src, rule: TypeRule) -> RType {
    let k = match rule {
        TypeRule::IntegerOnly => 2,
        TypeRule::Any => s.weighted(&[2, 2, 3, 3]),
        TypeRule::NotInteger => [0, 1, 3][s.weighted(&[2, 2, 3])],
    };
    match k {
        0 => {
            let (min, max) = float_bounds32(s);
            RType::Single { min, max }
        }
        1 => {
            let (min, max) = float_bounds64(s);
            RType::Double { min, max }
        }
        2 => {
            let (min, max) = int_range(s);
            RType::Int { min, max }
        }
        _ => {
            let (min, max) = int_range(s);
            let (scale, offset) = scale_offset(s);
            RType::Scaled { min, max, scale: F64(scale), offset: F64(offset) }
        }
    }
}

pub fn ext_name(s: &mut Src) -> String {
    const FIRST: &[u8] = b"abcdefghijklmnopqrstuvwyzABCDEFGHIJKLMNOPQRSTUVWYZ_";
    const REST: &[u8] = b"abcxyzABCXYZ0123456789_-";
    let mut n = String::new();
    n.push(*s.pick(FIRST) as char);
    for _ in 0..s.below(7) {
        n.push(*s.pick(REST) as char);
    }
    n
}

#[derive(Clone, Debug, Default)]
pub struct ProtoOpts {
    /// registered extension prefixes available for extension records
    pub prefixes: Vec<String>,
    /// add many wide extension records so that few points fill a packet
    pub fat: bool,
}

fn rec(name: &str, ty: RType) -> Rec {
    Rec { prefix: None, name: name.to_string(), ty }
}

/// A prototype that follows the writer's documented rules, by construction.
pub fn valid_proto(s: &mut Src, o: &ProtoOpts) -> Vec<Rec> {
    let mut p: Vec<Rec> = Vec::new();
    let coord = s.weighted(&[5, 2, 2]); // cartesian, spherical, both
    if coord == 0 || coord == 2 {
        for n in ["cartesianX", "cartesianY", "cartesianZ"] {
            p.push(rec(n, rtype(s, TypeRule::Any)));
        }
        if s.chance(1, 3) {
            p.push(rec("cartesianInvalidState", RType::Int { min: 0, max: 2 }));
        }
    }
    if coord == 1 || coord == 2 {
        p.push(rec("sphericalRange", rtype(s, TypeRule::Any)));
        p.push(rec("sphericalAzimuth", rtype(s, TypeRule::NotInteger)));
        p.push(rec("sphericalElevation", rtype(s, TypeRule::NotInteger)));
        if s.chance(1, 3) {
            p.push(rec("sphericalInvalidState", RType::Int { min: 0, max: 2 }));
        }
    }
    if s.chance(1, 3) {
        for n in ["colorRed", "colorGreen", "colorBlue"] {
            p.push(rec(n, rtype(s, TypeRule::Any)));
        }
        if s.chance(1, 3) {
            p.push(rec("isColorInvalid", RType::Int { min: 0, max: 1 }));
        }
    }
    if s.chance(1, 3) {
        p.push(rec("intensity", rtype(s, TypeRule::Any)));
        if s.chance(1, 3) {
            p.push(rec("isIntensityInvalid", RType::Int { min: 0, max: 1 }));
        }
    }
    if s.chance(1, 4) {
        p.push(rec("rowIndex", rtype(s, TypeRule::IntegerOnly)));
    }
    if s.chance(1, 4) {
        p.push(rec("columnIndex", rtype(s, TypeRule::IntegerOnly)));
    }
    if s.chance(1, 5) {
        p.push(rec("returnCount", rtype(s, TypeRule::IntegerOnly)));
        p.push(rec("returnIndex", rtype(s, TypeRule::IntegerOnly)));
    }
    if s.chance(1, 5) {
        p.push(rec("timeStamp", rtype(s, TypeRule::Any)));
        if s.chance(1, 3) {
            p.push(rec("isTimeStampInvalid", RType::Int { min: 0, max: 1 }));
        }
    }
    if !o.prefixes.is_empty() {
        let k = if o.fat { 8 + s.below(40) as usize } else { s.below(4) as usize };
        let mut used: Vec<String> = Vec::new();
        for i in 0..k {
            let prefix = s.pick(&o.prefixes).clone();
            let mut name = if !o.fat && s.chance(1, 6) { crate::adapt::STD_NAMES[s.below(20) as usize].0.to_string() } else { ext_name(s) };
            if used.contains(&name) || name.to_lowercase().starts_with("xml") {
                name = format!("{name}_{i}");
            }
            // (a renamed record can collide with a name generated earlier: every record needs its own name)
            while used.contains(&name) {
                name.push('x');
            }
            used.push(name.clone());
            let ty = if o.fat { RType::Double { min: None, max: None } } else { rtype(s, TypeRule::Any) };
            p.push(Rec { prefix: Some(prefix), name, ty });
        }
    }
    // degenerate but rule-following: every record has a fixed value (min == max)
    if s.chance(1, 25) {
        for r in p.iter_mut() {
            let v = *s.pick(&[0i64, 1, -7, i64::MAX, i64::MIN, 255]);
            let fixed_int = matches!(r.name.as_str(), "cartesianInvalidState" | "sphericalInvalidState" | "isColorInvalid" | "isIntensityInvalid" | "isTimeStampInvalid");
            if fixed_int {
                continue;
            }
            let must_int = matches!(r.name.as_str(), "rowIndex" | "columnIndex" | "returnCount" | "returnIndex");
            r.ty = if !must_int && (matches!(r.name.as_str(), "sphericalAzimuth" | "sphericalElevation") || s.flag()) {
                let (scale, offset) = scale_offset(s);
                RType::Scaled { min: v, max: v, scale: F64(scale), offset: F64(offset) }
            } else {
                RType::Int { min: v, max: v }
            };
        }
        // invalid-state records keep their mandated 0..1 / 0..2 range, so drop them to get an all-fixed prototype
        if s.flag() {
            p.retain(|r| !matches!(r.name.as_str(), "cartesianInvalidState" | "sphericalInvalidState" | "isColorInvalid" | "isIntensityInvalid" | "isTimeStampInvalid"));
        }
    }
    // order is free: shuffle
    for i in (1..p.len()).rev() {
        let j = s.below(i as u64 + 1) as usize;
        p.swap(i, j);
    }
    p
}

pub fn point_bits(proto: &[Rec]) -> usize {
    proto.iter().map(|r| r.ty.width() as usize).sum()
}

/// Generator hint only: the writer's documented packet capacity.
pub fn cap_hint(proto: &[Rec]) -> Option<usize> {
    let bits = point_bits(proto);
    if bits == 0 {
        return None;
    }
    let l = proto.len();
    Some(((65535usize.saturating_sub(6 + 2 * l + l + 500)) * 8) / bits)
}

pub fn point_count(s: &mut Src, proto: &[Rec], max_values: usize) -> u32 {
    let l = proto.len().max(1);
    let limit = (max_values / l).max(3);
    let cap = cap_hint(proto).unwrap_or(1000);
    let mut c: Vec<usize> = vec![0, 1, 2, 3, 7, 8, 9, 17];
    for m in [1usize, 2] {
        for d in [-1i64, 0, 1] {
            let v = (cap * m) as i64 + d;
            if v >= 0 && (v as usize) <= limit {
                c.push(v as usize);
                c.push(v as usize); // weight
            }
        }
    }
    let n = match s.weighted(&[6, 2]) {
        0 => *s.pick(&c),
        _ => s.below(40.min(limit) as u64 + 1) as usize,
    };
    n.min(limit) as u32
}

/// Deterministic expansion (seed, i, j) -> value fitting the type.
pub fn value_at(ty: &RType, seed: u64, i: usize, j: usize, nan_ok: bool) -> Val {
    let h = mix(seed, (i as u64) << 20 | j as u64);
    let h2 = mix(h, 0x51);
    match ty {
        RType::Int { min, max } | RType::Scaled { min, max, .. } => {
            let range = (*max as i128 - *min as i128) as u128;
            let off: u128 = match h % 8 {
                0 => 0,
                1 => range,
                2 => 1.min(range),
                3 => range.saturating_sub(1),
                4 => range / 2,
                5 => (0x5555_5555_5555_5555u128) & range_mask(range),
                _ => {
                    if range == u64::MAX as u128 {
                        h2 as u128
                    } else {
                        (h2 as u128 * (range + 1)) >> 64
                    }
                }
            };
            let off = off.min(range);
            Val::I((*min as i128 + off as i128) as i64)
        }
        RType::Single { min, max } => {
            let v = f32_at(h, h2, nan_ok);
            let lo = min.map(|m| m.0).unwrap_or(f32::NEG_INFINITY);
            let hi = max.map(|m| m.0).unwrap_or(f32::INFINITY);
            Val::S(F32(if v.is_nan() || !(lo <= hi) { v } else { v.clamp(lo, hi) }))
        }
        RType::Double { min, max } => {
            let v = f64_at(h, h2, nan_ok);
            let lo = min.map(|m| m.0).unwrap_or(f64::NEG_INFINITY);
            let hi = max.map(|m| m.0).unwrap_or(f64::INFINITY);
            Val::D(F64(if v.is_nan() || !(lo <= hi) { v } else { v.clamp(lo, hi) }))
        }
    }
}

fn range_mask(range: u128) -> u128 {
    if range == 0 {
        0
    } else {
        let bits = 128 - range.leading_zeros();
        (1u128 << bits) - 1
    }
}

fn f64_at(h: u64, h2: u64, nan_ok: bool) -> f64 {
    let v = match h % 5 {
        0 => F64_POOL[(h2 % F64_POOL.len() as u64) as usize],
        1 | 2 => ((h2 % 2_000_001) as f64 - 1_000_000.0) / 1024.0,
        3 => ((h2 % 20001) as f64 - 10000.0) * 1e-3,
        _ => f64::from_bits(h2),
    };
    if v.is_nan() && !nan_ok {
        (h2 % 1000) as f64
    } else {
        v
    }
}
fn f32_at(h: u64, h2: u64, nan_ok: bool) -> f32 {
    let v = match h % 5 {
        0 => [0.0f32, -0.0, 1.0, -1.0, f32::MIN_POSITIVE, 1e-45, f32::MAX, f32::MIN, f32::INFINITY, f32::NEG_INFINITY, f32::NAN][(h2 % 11) as usize],
        1 | 2 => ((h2 % 2_000_001) as f32 - 1_000_000.0) / 1024.0,
        3 => ((h2 % 20001) as f32 - 10000.0) * 1e-3,
        _ => f32::from_bits(h2 as u32),
    };
    if v.is_nan() && !nan_ok {
        (h2 % 1000) as f32
    } else {
        v
    }
}

pub fn points_for(proto: &[Rec], n: usize, seed: u64, nan_ok: bool) -> Vec<Vec<Val>> {
    (0..n).map(|i| proto.iter().enumerate().map(|(j, r)| value_at(&r.ty, seed, i, j, nan_ok)).collect()).collect()
}

// ------------------------------------------------------------ metadata

const TOKENS: [&str; 34] = [
    "a", "Z", "0", " ", "  ", "\t", "\n", "<", ">", "&", "\"", "'", "]", "]]", "]]>", "<![CDATA[", "&amp;", "&lt;", "&#65;", "<!--", "-->", "<?x?>", "</guid>", "\u{e9}", "\u{D7FF}", "\u{E000}", "\u{FFFD}", "\u{10000}",
    "\u{1F600}", "e\u{301}", "\u{85}", "\u{2028}", "{GUID-1234}", "\u{10FFFF}",
];

/// String over XML 1.0 characters except carriage return.
pub fn xml_string(s: &mut Src) -> String {
    match s.weighted(&[40, 200, 40, 20, 30, 3]) {
        0 => String::new(),
        1 => {
            let mut o = String::new();
            for _ in 0..1 + s.below(6) {
                o.push_str(*s.pick(&TOKENS[..]));
            }
            o
        }
        2 => "plain text value".to_string(),
        4 => {
            // arbitrary XML 1.0 characters (no carriage return)
            let mut o = String::new();
            for _ in 0..1 + s.below(12) {
                let c = match s.weighted(&[3, 2, 1]) {
                    0 => s.range(0x20, 0x7f) as u32,
                    1 => s.range(0x80, 0xFFFD) as u32,
                    _ => s.range(0x10000, 0x10FFFF) as u32,
                };
                match char::from_u32(c) {
                    Some(ch) => o.push(ch),
                    None => o.push('\u{E000}'), // a surrogate code point: not a character
                }
            }
            o
        }
        5 => {
            // long: crosses several pages of the XML section; now and then beyond 64 KiB
            let unit = *s.pick(&["x", "ab ]]> cd", "\u{1F600}&<", "line\n"]);
            let n = if s.chance(1, 6) { 70_000 } else { 300 + s.below(4000) as usize };
            unit.repeat(n / unit.len() + 1)
        }
        _ => {
            let mut o = String::new();
            for _ in 0..s.below(5) {
                o.push(*s.pick(&[' ', '\t', '\n']));
            }
            o
        }
    }
}

pub fn limit_val(s: &mut Src) -> LimitVal {
    match s.weighted(&[3, 2, 2, 1]) {
        0 => LimitVal::I(*s.pick(&[0i64, 1, 255, 65535, -1, i64::MIN, i64::MAX, 1000])),
        1 => LimitVal::D(F64(f64_any(s))),
        2 => LimitVal::S(F32(f32_any(s))),
        _ => LimitVal::SI(s.range(-1000, 70000)),
    }
}

/// A ScaledInteger limit element that states a scale and offset of its own, as another producer may write it.
pub fn limit_own_units(s: &mut Src) -> LimitVal {
    let scale = *s.pick(&[1.0, 0.5, 0.001, 2.0, -1.0, 1e-6, 256.0]);
    let offset = *s.pick(&[0.0, 0.0, 1.5, -100.25]);
    LimitVal::SX { raw: s.range(-1000, 70000), scale: F64(scale), offset: F64(offset) }
}

/// Extension namespace URI: any non-empty string XML can carry.
pub fn ext_url(s: &mut Src, prefix: &str) -> String {
    match s.weighted(&[6, 4, 1]) {
        0 => format!("http://example.com/{}/{}", prefix, s.below(1000)),
        1 => format!("http://example.com/{prefix}?a=1&b={}", xml_string(s)),
        // URIs that merely start like the standard's own or like a reserved one are ordinary extension URIs
        _ => format!("{}/{prefix}", s.pick(&["http://www.astm.org/COMMIT/E57/2010-e57-v1.0", "http://www.w3.org/XML/1998/namespace", "http://www.astm.org/COMMIT/E57/2010-e57-v1.0/extensions"])),
    }
}

pub fn guid(s: &mut Src) -> String {
    if s.chance(1, 6) {
        let mut g = xml_string(s);
        if g.is_empty() {
            g.push('g');
        }
        g
    } else {
        format!("{{{:08X}-{:04X}}}", s.u32(), s.u16())
    }
}

pub fn dt(s: &mut Src) -> DT {
    DT { gps: F64(f64_any(s)), atomic: s.flag() }
}

pub fn unit_quat(s: &mut Src) -> [f64; 4] {
    match s.weighted(&[2, 2, 4]) {
        0 => [1.0, 0.0, 0.0, 0.0],
        1 => {
            let h = std::f64::consts::FRAC_1_SQRT_2;
            *s.pick(&[[0.0, 1.0, 0.0, 0.0], [0.0, 0.0, 1.0, 0.0], [0.0, 0.0, 0.0, 1.0], [h, h, 0.0, 0.0], [h, 0.0, -h, 0.0], [0.5, 0.5, 0.5, 0.5]])
        }
        _ => {
            let mut q = [0.0; 4];
            let mut n = 0.0;
            for v in &mut q {
                *v = s.range(-1000, 1000) as f64 / 1000.0;
                n += *v * *v;
            }
            if n < 1e-6 {
                return [1.0, 0.0, 0.0, 0.0];
            }
            let n = n.sqrt();
            [q[0] / n, q[1] / n, q[2] / n, q[3] / n]
        }
    }
}

pub fn pose_any(s: &mut Src) -> Pose {
    if s.chance(1, 6) {
        // exactly the default pose (and its negative-zero spellings)
        let z = |s: &mut Src| F64(if s.chance(1, 4) { -0.0 } else { 0.0 });
        return Pose { rot: [F64(1.0), z(s), z(s), z(s)], trans: [z(s), z(s), z(s)] };
    }
    if s.chance(1, 6) {
        // almost the default pose: a tiny rotation about one axis (|w| within 1e-6 of 1, either sign) and no or a tiny
        // translation; far from the origin the rotation still moves points visibly
        let angle = *s.pick(&[2.0e-3f64, 1.0e-3, 1.0e-4, 3.0e-6, 1.0e-8]);
        let sign = if s.flag() { 1.0 } else { -1.0 };
        let (w, v) = (sign * (angle / 2.0).cos(), (angle / 2.0).sin());
        let axis = s.below(3) as usize;
        let mut rot = [F64(w), F64(0.0), F64(0.0), F64(0.0)];
        rot[1 + axis] = F64(v);
        let t = |s: &mut Src| F64(*s.pick(&[0.0f64, 0.0, 1.0e-7, -1.0e-9, 1.0e-3]));
        return Pose { rot, trans: [t(s), t(s), t(s)] };
    }
    if s.flag() {
        let q = unit_quat(s);
        Pose { rot: [F64(q[0]), F64(q[1]), F64(q[2]), F64(q[3])], trans: [F64(f64_finite(s)), F64(f64_finite(s)), F64(f64_finite(s))] }
    } else {
        Pose { rot: [F64(f64_any(s)), F64(f64_any(s)), F64(f64_any(s)), F64(f64_any(s))], trans: [F64(f64_any(s)), F64(f64_any(s)), F64(f64_any(s))] }
    }
}

/// Metadata a caller can set on a point cloud writer.  `density` in 0..=8:
/// probability (in eighths) that each optional field is present.
pub fn cloud_meta(s: &mut Src, density: u64) -> CloudMeta {
    let mut m = CloudMeta::default();
    macro_rules! opt {
        ($f:ident, $g:expr) => {
            if s.chance(density, 8) {
                m.$f = Some($g);
            }
        };
    }
    opt!(name, xml_string(s));
    opt!(description, xml_string(s));
    opt!(sensor_vendor, xml_string(s));
    opt!(sensor_model, xml_string(s));
    opt!(sensor_serial, xml_string(s));
    opt!(sensor_hw, xml_string(s));
    opt!(sensor_sw, xml_string(s));
    opt!(sensor_fw, xml_string(s));
    opt!(temperature, F64(f64_any(s)));
    opt!(humidity, F64(f64_any(s)));
    opt!(pressure, F64(f64_any(s)));
    opt!(acq_start, dt(s));
    opt!(acq_end, dt(s));
    opt!(pose, pose_any(s));
    if s.chance(density, 16) {
        let k = s.below(6) as usize;
        let pool: Vec<String> = (0..3).map(|_| guid(s)).collect();
        // repeated entries are legal and their order is content
        m.original_guids = Some((0..k).map(|_| if s.flag() { s.pick(&pool).clone() } else { guid(s) }).collect());
    }
    m
}

#[derive(Clone, Debug, PartialEq, Serialize, Deserialize)]
pub struct BlobSpec {
    pub len: u32,
    pub seed: u64,
    /// the source reader hands out at most this many bytes per read call (0 = everything at once)
    #[serde(default)]
    pub chunk: u16,
    /// content that looks like an E57 XML document instead of pseudo random bytes
    #[serde(default)]
    pub xmlish: bool,
}

/// A legal `Read` source that returns short reads before it is exhausted.
pub struct Trickle<'a> {
    pub data: &'a [u8],
    pub chunk: usize,
    pub calls: usize,
}
impl std::io::Read for Trickle<'_> {
    fn read(&mut self, buf: &mut [u8]) -> std::io::Result<usize> {
        self.calls += 1;
        let mut n = buf.len().min(self.data.len());
        if self.chunk > 0 {
            // vary the size of the short reads a little
            n = n.min(1 + (self.chunk + self.calls * 7) % (self.chunk + 1));
        }
        buf[..n].copy_from_slice(&self.data[..n]);
        self.data = &self.data[n..];
        Ok(n)
    }
}
/// A source that hands out its data (in short reads if asked to) and then reports an error instead of the end.
pub struct FailingSource<'a> {
    pub inner: Trickle<'a>,
}
impl std::io::Read for FailingSource<'_> {
    fn read(&mut self, buf: &mut [u8]) -> std::io::Result<usize> {
        if self.inner.data.is_empty() {
            return Err(std::io::Error::new(std::io::ErrorKind::Other, "source failed"));
        }
        self.inner.read(buf)
    }
}

/// A legal `Write` target with limited room: accepts `cap` bytes in total, then reports an error
/// (mode 0), reports that nothing more can be written (mode 1, Ok(0)), or, in mode 2, first
/// accepts short writes and then fails. `got` is everything the target really received.
pub struct LimitSink {
    pub cap: usize,
    pub mode: u8,
    pub got: Vec<u8>,
    pub flushed: usize,
}
impl LimitSink {
    pub fn new(cap: usize, mode: u8) -> Self {
        LimitSink { cap, mode, got: Vec::new(), flushed: 0 }
    }
}
impl std::io::Write for LimitSink {
    fn write(&mut self, buf: &[u8]) -> std::io::Result<usize> {
        let room = self.cap - self.got.len();
        if buf.is_empty() {
            return Ok(0);
        }
        if room == 0 {
            return match self.mode % 3 {
                1 => Ok(0),
                _ => Err(std::io::Error::new(std::io::ErrorKind::Other, "sink is full")),
            };
        }
        let mut n = buf.len().min(room);
        if self.mode % 3 == 2 {
            n = n.min(1 + self.got.len() % 613);
        }
        self.got.extend_from_slice(&buf[..n]);
        Ok(n)
    }
    fn flush(&mut self) -> std::io::Result<()> {
        self.flushed += 1;
        Ok(())
    }
}

impl BlobSpec {
    pub fn bytes(&self) -> Vec<u8> {
        if self.xmlish {
            let doc = format!(
                "<?xml version=\"1.0\" encoding=\"UTF-8\"?>\n<e57Root type=\"Structure\" xmlns=\"http://www.astm.org/COMMIT/E57/2010-e57-v1.0\">\n<formatName type=\"String\"><![CDATA[ASTM E57 3D Imaging Data File]]></formatName>\n<guid type=\"String\"><![CDATA[{{blob-{}}}]]></guid>\n<versionMajor type=\"Integer\">1</versionMajor>\n<versionMinor type=\"Integer\">0</versionMinor>\n<data3D type=\"Vector\" allowHeterogeneousChildren=\"1\">\n</data3D>\n<images2D type=\"Vector\" allowHeterogeneousChildren=\"1\">\n</images2D>\n</e57Root>\n",
                self.seed
            );
            let mut b = Vec::with_capacity(self.len as usize);
            while b.len() < self.len as usize {
                b.extend_from_slice(doc.as_bytes());
            }
            b.truncate(self.len as usize);
            return b;
        }
        let mut b = crate::kit::fill_bytes(self.seed, self.len as usize);
        // distinct, recognisable prefix
        let tag = self.seed.to_le_bytes();
        for (i, t) in tag.iter().enumerate() {
            if i < b.len() {
                b[i] = *t;
            }
        }
        b
    }
}

pub fn blob_len(s: &mut Src) -> u32 {
    match s.weighted(&[3, 5, 3, 1]) {
        0 => s.below(6) as u32,
        1 => {
            // around multiples of the page payload, shifted by header sizes
            let k = s.below(4) as i64;
            let d = *s.pick(&[-40i64, -33, -32, -31, -20, -17, -16, -15, -8, -5, -4, -3, -2, -1, 0, 1, 2, 3, 4, 5, 8, 15, 16, 17, 31, 32, 33, 48]);
            (k * 1020 + d).max(0) as u32
        }
        2 => s.below(1100) as u32,
        _ => s.below(5200) as u32,
    }
}

pub fn blob_spec(s: &mut Src) -> BlobSpec {
    let xmlish = s.chance(1, 12);
    BlobSpec { len: if xmlish { 400 + s.below(1200) as u32 } else { blob_len(s) }, seed: s.u64() | 1, chunk: if s.chance(1, 4) { *s.pick(&[1u16, 7, 100, 1000, 5000]) } else { 0 }, xmlish }
}

#[derive(Clone, Debug, PartialEq, Serialize, Deserialize)]
pub struct RepSpec {
    pub kind: RepKind,
    pub jpeg: bool,
    pub data: BlobSpec,
    pub mask: Option<BlobSpec>,
    pub width: u32,
    pub height: u32,
    pub props: Vec<F64>,
}

pub fn rep_spec(s: &mut Src, kind: RepKind) -> RepSpec {
    let dim = |s: &mut Src| -> u32 {
        match s.weighted(&[3, 1, 1, 2]) {
            0 => s.below(5000) as u32,
            1 => 0,
            2 => u32::MAX,
            _ => s.u32(),
        }
    };
    RepSpec {
        kind,
        jpeg: s.flag(),
        data: blob_spec(s),
        mask: if s.chance(1, 3) { Some(blob_spec(s)) } else { None },
        width: dim(s),
        height: dim(s),
        props: kind.float_props().iter().map(|_| F64(f64_any(s))).collect(),
    }
}

#[derive(Clone, Debug, PartialEq, Serialize, Deserialize)]
pub struct ImageSpec {
    pub guid: String,
    pub name: Option<String>,
    pub description: Option<String>,
    pub assoc_guid: Option<String>,
    pub sensor_vendor: Option<String>,
    pub sensor_model: Option<String>,
    pub sensor_serial: Option<String>,
    pub acquisition: Option<DT>,
    pub pose: Option<Pose>,
    pub visual: Option<RepSpec>,
    pub projection: Option<RepSpec>,
    pub finalize: bool,
}

pub fn image_spec(s: &mut Src, density: u64) -> ImageSpec {
    let shape = s.weighted(&[3, 5, 2]); // visual only, projection only, both
    let visual = if shape == 0 || shape == 2 { Some(rep_spec(s, RepKind::Visual)) } else { None };
    let projection = if shape >= 1 {
        let k = *s.pick(&[RepKind::Pinhole, RepKind::Spherical, RepKind::Cylindrical]);
        Some(rep_spec(s, k))
    } else {
        None
    };
    let mut im = ImageSpec {
        guid: guid(s),
        name: None,
        description: None,
        assoc_guid: None,
        sensor_vendor: None,
        sensor_model: None,
        sensor_serial: None,
        acquisition: None,
        pose: None,
        visual,
        projection,
        finalize: true,
    };
    macro_rules! opt {
        ($f:ident, $g:expr) => {
            if s.chance(density, 8) {
                im.$f = Some($g);
            }
        };
    }
    opt!(name, xml_string(s));
    opt!(description, xml_string(s));
    opt!(assoc_guid, guid(s));
    opt!(sensor_vendor, xml_string(s));
    opt!(sensor_model, xml_string(s));
    opt!(sensor_serial, xml_string(s));
    opt!(acquisition, dt(s));
    opt!(pose, pose_any(s));
    im
}

pub fn rep_to_scene(r: &RepSpec) -> Rep {
    Rep { kind: r.kind, jpeg: r.jpeg, data: r.data.bytes(), mask: r.mask.as_ref().map(|m| m.bytes()), width: r.width as i64, height: r.height as i64, props: r.props.clone() }
}
pub fn image_to_scene(i: &ImageSpec) -> Image {
    Image {
        guid: Some(i.guid.clone()),
        name: i.name.clone(),
        description: i.description.clone(),
        assoc_guid: i.assoc_guid.clone(),
        sensor_vendor: i.sensor_vendor.clone(),
        sensor_model: i.sensor_model.clone(),
        sensor_serial: i.sensor_serial.clone(),
        acquisition: i.acquisition.clone(),
        pose: i.pose.clone(),
        visual: i.visual.as_ref().map(rep_to_scene),
        projection: i.projection.as_ref().map(rep_to_scene),
    }
}

pub fn extension(s: &mut Src, taken: &[String]) -> (String, String) {
    let mut p = ext_name(s);
    while taken.contains(&p) {
        p.push('q');
    }
    // distinct URI per prefix: two prefixes bound to one URI are the same XML namespace
    let url = if s.chance(1, 4) { ext_url(s, &p) } else { format!("http://example.com/{}/{}", p, s.below(1000)) };
    (p, url)
}

// -------------------------------------------------------------- layouts

/// Legal layout choices for the independent encoder.
pub fn layout(s: &mut Src, scene: &Scene) -> Layout {
    let mut l = Layout::default();
    if s.chance(3, 4) {
        let n = 8 + s.below(56) as usize;
        l.lex = (0..n).map(|_| s.byte()).collect();
    }
    if s.flag() {
        l.order = (0..6).map(|_| s.byte()).collect();
    }
    l.xml_pos = s.byte();
    if s.chance(2, 3) {
        let n = 1 + s.below(4) as usize;
        l.gaps = (0..n)
            .map(|_| match s.weighted(&[3, 3, 2]) {
                0 => 0,
                1 => s.below(8) as u16,
                _ => s.below(300) as u16,
            })
            .collect();
    }
    for c in &scene.clouds {
        l.clouds.push(cloud_layout(s, c));
    }
    l
}

pub fn cloud_layout(s: &mut Src, c: &Cloud) -> CloudLayout {
    let mut cl = CloudLayout::default();
    if s.chance(1, 3) {
        cl.header_gap = s.below(6) as u8;
    }
    cl.publish_index = s.flag();
    cl.tail_chunk = *s.pick(&[0u16, 0, 1, 7, 64, 1000, 40000]);
    if s.chance(1, 3) {
        cl.restart_every = 1 + s.below(3) as u8;
    }
    let widths: Vec<usize> = c.proto.iter().map(|r| r.ty.width() as usize).collect();
    let n = c.points.len();
    let k = s.below(6) as usize;
    for _ in 0..k {
        match s.weighted(&[6, 2, 2]) {
            0 => {
                let style = s.weighted(&[3, 3, 2, 1]);
                let mut want = Vec::new();
                // bytes for `m` whole points per record, or arbitrary bytes
                let m = s.below(n as u64 / 2 + 2) as usize;
                for w in &widths {
                    want.push(match style {
                        0 => ((m * w + 7) / 8) as u16,           // roughly m points each
                        1 => s.below(((n * w + 7) / 8) as u64 + 2).min(60000) as u16, // unequal
                        2 => {
                            if s.flag() {
                                0
                            } else {
                                (((m + 1) * w) / 8) as u16
                            }
                        } // empty streams
                        _ => 1,
                    });
                }
                cl.packets.push(Pk::Data(want));
            }
            1 => cl.packets.push(Pk::Index(s.below(3) as u8)),
            _ => cl.packets.push(Pk::Ignored(s.below(5) as u8)),
        }
    }
    cl
}

// ------------------------------------------------- documented prototype rules

/// Why a prototype breaks the writer's documented rules (None = follows them).
/// `registered`: extension prefixes registered with the writer.
pub fn rule_violation(p: &[Rec], registered: &[String]) -> Option<String> {
    // a prototype is a structure: its children are addressed by name, two records of one name cannot be told apart
    let mut seen = std::collections::HashSet::with_capacity(p.len());
    for a in p {
        if !seen.insert((a.prefix.as_deref(), a.name.as_str())) {
            return Some(format!("record {} listed twice", a.name));
        }
    }
    let has = |n: &str| p.iter().any(|r| r.prefix.is_none() && r.name == n);
    let get = |n: &str| p.iter().find(|r| r.prefix.is_none() && r.name == n);
    let count = |ns: [&str; 3]| ns.iter().filter(|n| has(n)).count();
    let c = count(["cartesianX", "cartesianY", "cartesianZ"]);
    if c != 0 && c != 3 {
        return Some("incomplete Cartesian triple".into());
    }
    let s = count(["sphericalRange", "sphericalAzimuth", "sphericalElevation"]);
    if s != 0 && s != 3 {
        return Some("incomplete spherical triple".into());
    }
    if c == 0 && s == 0 {
        return Some("no coordinates".into());
    }
    let k = count(["colorRed", "colorGreen", "colorBlue"]);
    if k != 0 && k != 3 {
        return Some("incomplete colour triple".into());
    }
    for (state, subject, max) in [
        ("cartesianInvalidState", "cartesianX", 2),
        ("sphericalInvalidState", "sphericalAzimuth", 2),
        ("isColorInvalid", "colorRed", 1),
        ("isIntensityInvalid", "intensity", 1),
        ("isTimeStampInvalid", "timeStamp", 1),
    ] {
        if let Some(r) = get(state) {
            if !has(subject) {
                return Some(format!("{state} without its subject"));
            }
            if r.ty != (RType::Int { min: 0, max }) {
                return Some(format!("{state} is not an integer 0..{max}"));
            }
        }
    }
    for n in ["sphericalAzimuth", "sphericalElevation"] {
        if let Some(r) = get(n) {
            if r.ty.is_integer() {
                return Some(format!("{n} has an integer type"));
            }
        }
    }
    for n in ["rowIndex", "columnIndex", "returnCount", "returnIndex"] {
        if let Some(r) = get(n) {
            if !r.ty.is_integer() {
                return Some(format!("{n} is not an integer"));
            }
        }
    }
    if has("returnCount") != has("returnIndex") {
        return Some("returnCount and returnIndex must come together".into());
    }
    for r in p {
        if let Some(prefix) = &r.prefix {
            let ok_name = |n: &str| !n.is_empty() && !n.to_lowercase().starts_with("xml") && n.chars().all(|c| c.is_ascii_alphanumeric() || c == '_' || c == '-');
            if !ok_name(prefix) || !ok_name(&r.name) {
                return Some("malformed extension name".into());
            }
            if !registered.contains(prefix) {
                return Some("unregistered extension namespace".into());
            }
        }
        if let Some((min, max)) = r.ty.int_range() {
            if min > max {
                return Some("integer minimum above maximum".into());
            }
        }
        // a declared float range that is not ordered (inverted, or a NaN end) and a scale that is not a finite
        // non-zero number describe no values at all: nothing stored under them can be interpreted
        match &r.ty {
            RType::Single { min, max } => {
                let (a, b) = (min.map(|m| m.0 as f64), max.map(|m| m.0 as f64));
                if a.map(|v| v.is_nan()).unwrap_or(false) || b.map(|v| v.is_nan()).unwrap_or(false) || matches!((a, b), (Some(a), Some(b)) if a > b) {
                    return Some("float range not ordered".into());
                }
            }
            RType::Double { min, max } => {
                let (a, b) = (min.map(|m| m.0), max.map(|m| m.0));
                if a.map(|v| v.is_nan()).unwrap_or(false) || b.map(|v| v.is_nan()).unwrap_or(false) || matches!((a, b), (Some(a), Some(b)) if a > b) {
                    return Some("float range not ordered".into());
                }
            }
            RType::Scaled { scale, offset, .. } => {
                if !scale.0.is_finite() || scale.0 == 0.0 || !offset.0.is_finite() {
                    return Some("scale / offset not usable".into());
                }
            }
            _ => {}
        }
    }
    None
}
