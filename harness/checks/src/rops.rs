//! Read operations on an open reader with canonical, comparable results.
use crate::adapt::val_from_e57;
use crate::kit::{hash_str, Src};
use crate::simple_model::Opts;
use e57::{Blob, E57Reader, Projection};
use serde::{Deserialize, Serialize};
use std::io::{Read, Seek};

#[derive(Clone, Debug, PartialEq, Serialize, Deserialize)]
pub enum ReadOp {
    Xml,
    Descriptors,
    /// the file header as the reader reports it
    Header,
    Raw { cloud: u8, take: u32 },
    Simple { cloud: u8, opts: u8, take: u32 },
    /// blob number `which` in the list (image blobs in order, then free blobs)
    Blob { which: u8 },
    /// the same blob extracted into a target with limited room (see `gen::LimitSink`); only used where results
    /// are compared for equality with a fresh reader
    BlobInto { which: u8, room: u16, mode: u8 },
    /// either iterator driven through the standard adaptors skip(skip).step_by(step), at most `take` items
    Stride { cloud: u8, simple: bool, skip: u16, step: u8, take: u16 },
    /// blob number `which` through a descriptor made by the caller (`Blob::new`) that is `extra` bytes longer than the
    /// listed one: whatever the reader answers, it answers the same with and without a history
    BlobLonger { which: u8, extra: u8 },
}

/// Result of one read operation: the Ok items (hashed), whether the
/// operation completed, and the error that ended it.
#[derive(Clone, Debug, PartialEq)]
pub struct OpOut {
    pub items: Vec<u64>,
    pub completed: bool,
    pub err: Option<String>,
    /// Ok items an iterator yields when it is polled again after its first error
    pub after_err: Vec<u64>,
}
impl OpOut {
    fn scalar(r: Result<String, String>) -> Self {
        match r {
            Ok(s) => OpOut { items: vec![hash_str(&s)], completed: true, err: None, after_err: vec![] },
            Err(e) => OpOut { items: vec![], completed: false, err: Some(e), after_err: vec![] },
        }
    }
    /// "either fails or returns exactly what it returns on the unaltered file"
    pub fn err_or_same_as(&self, base: &OpOut) -> Result<(), String> {
        if self.err.is_some() {
            // whatever was delivered before the failure must be baseline data
            if self.items.len() > base.items.len() || self.items[..] != base.items[..self.items.len()] {
                return Err(format!("delivered {} items before failing that are not a prefix of the {} baseline items", self.items.len(), base.items.len()));
            }
            // data handed out when the same iterator is polled again after the failure must be the next baseline items
            let k = self.items.len();
            if self.after_err.len() > base.items.len().saturating_sub(k) || self.after_err[..] != base.items[k..k + self.after_err.len().min(base.items.len().saturating_sub(k))] {
                return Err(format!("polled again after its failure the iterator delivered {} items that are not the next baseline items", self.after_err.len()));
            }
            Ok(())
        } else if self == base || (base.err.is_some() && self.items.len() <= base.items.len() && self.items[..] == base.items[..self.items.len()]) {
            Ok(())
        } else {
            Err(format!("returned a result ({} items, completed={}) that differs from the baseline ({} items, completed={}, err={:?})", self.items.len(), self.completed, base.items.len(), base.completed, base.err))
        }
    }
}

pub fn blob_list<T: Read + Seek>(rd: &E57Reader<T>, free: &[(u64, u64)]) -> Vec<Blob> {
    let mut out = Vec::new();
    for im in rd.images() {
        if let Some(v) = &im.visual_reference {
            out.push(v.blob.data.clone());
            if let Some(m) = &v.mask {
                out.push(m.clone());
            }
        }
        match &im.projection {
            Some(Projection::Pinhole(p)) => {
                out.push(p.blob.data.clone());
                if let Some(m) = &p.mask {
                    out.push(m.clone());
                }
            }
            Some(Projection::Spherical(p)) => {
                out.push(p.blob.data.clone());
                if let Some(m) = &p.mask {
                    out.push(m.clone());
                }
            }
            Some(Projection::Cylindrical(p)) => {
                out.push(p.blob.data.clone());
                if let Some(m) = &p.mask {
                    out.push(m.clone());
                }
            }
            None => {}
        }
    }
    for (o, l) in free {
        out.push(Blob::new(*o, *l));
    }
    out
}

/// Only the setters of options that differ from the documented defaults are called, like a caller
/// would: an iterator with default options calls none, so state left behind by an earlier iterator shows.
fn set_opts<T: Read + Seek>(it: &mut e57::PointCloudReaderSimple<T>, o: Opts) {
    let d = Opts::from_bits(Opts::DEFAULT_BITS);
    if o.s2c != d.s2c {
        it.spherical_to_cartesian(o.s2c);
    }
    if o.c2s != d.c2s {
        it.cartesian_to_spherical(o.c2s);
    }
    if o.i2c != d.i2c {
        it.intensity_to_color(o.i2c);
    }
    if o.ni != d.ni {
        it.normalize_intensity(o.ni);
    }
    if o.nc != d.nc {
        it.normalize_color(o.nc);
    }
    if o.pose != d.pose {
        it.apply_pose(o.pose);
    }
}

pub fn run_op<T: Read + Seek>(rd: &mut E57Reader<T>, op: &ReadOp, free: &[(u64, u64)]) -> OpOut {
    match op {
        ReadOp::Xml => OpOut::scalar(Ok(rd.xml().to_string())),
        ReadOp::Header => OpOut::scalar(Ok(format!("{:?}", rd.header()))),
        ReadOp::Descriptors => OpOut::scalar(Ok(format!(
            "{:?}|{:?}|{:?}|{:?}|{:?}|{:?}|{:?}",
            rd.guid(),
            rd.format_name(),
            rd.creation(),
            rd.coordinate_metadata(),
            rd.extensions(),
            rd.pointclouds(),
            rd.images()
        ))),
        ReadOp::Raw { cloud, take } => {
            let pcs = rd.pointclouds();
            if pcs.is_empty() {
                return OpOut { items: vec![], completed: true, err: None, after_err: vec![] };
            }
            let pc = &pcs[*cloud as usize % pcs.len()];
            let it = match rd.pointcloud_raw(pc) {
                Ok(i) => i,
                Err(e) => return OpOut { items: vec![], completed: false, err: Some(e.to_string()), after_err: vec![] },
            };
            let mut out = OpOut { items: vec![], completed: false, err: None, after_err: vec![] };
            let limit = (*take as u64).min(pc.records.saturating_add(2));
            let mut it = it;
            while let Some(item) = it.next() {
                if out.items.len() as u64 >= limit {
                    return out; // abandoned early
                }
                match item {
                    Ok(p) => out.items.push(hash_str(&format!("{:?}", p.iter().map(val_from_e57).collect::<Vec<_>>()))),
                    Err(e) => {
                        out.err = Some(e.to_string());
                        // a caller may poll again: whatever comes then is recorded too
                        for _ in 0..3 {
                            if let Some(Ok(p)) = it.next() {
                                out.after_err.push(hash_str(&format!("{:?}", p.iter().map(val_from_e57).collect::<Vec<_>>())));
                            }
                        }
                        return out;
                    }
                }
            }
            out.completed = true;
            out
        }
        ReadOp::Simple { cloud, opts, take } => {
            let pcs = rd.pointclouds();
            if pcs.is_empty() {
                return OpOut { items: vec![], completed: true, err: None, after_err: vec![] };
            }
            let pc = &pcs[*cloud as usize % pcs.len()];
            let mut it = match rd.pointcloud_simple(pc) {
                Ok(i) => i,
                Err(e) => return OpOut { items: vec![], completed: false, err: Some(e.to_string()), after_err: vec![] },
            };
            set_opts(&mut it, Opts::from_bits(*opts));
            let mut out = OpOut { items: vec![], completed: false, err: None, after_err: vec![] };
            let limit = (*take as u64).min(pc.records.saturating_add(2));
            while let Some(item) = it.next() {
                if out.items.len() as u64 >= limit {
                    return out;
                }
                match item {
                    Ok(p) => out.items.push(hash_str(&format!("{p:?}"))),
                    Err(e) => {
                        out.err = Some(e.to_string());
                        for _ in 0..3 {
                            if let Some(Ok(p)) = it.next() {
                                out.after_err.push(hash_str(&format!("{p:?}")));
                            }
                        }
                        return out;
                    }
                }
            }
            out.completed = true;
            out
        }
        ReadOp::Blob { which } => {
            let blobs = blob_list(rd, free);
            if blobs.is_empty() {
                return OpOut { items: vec![], completed: true, err: None, after_err: vec![] };
            }
            let b = &blobs[*which as usize % blobs.len()];
            let mut buf = Vec::new();
            match rd.blob(b, &mut buf) {
                Ok(n) => OpOut { items: vec![n, hash_str(&format!("{buf:?}"))], completed: true, err: None, after_err: vec![] },
                Err(e) => OpOut { items: vec![], completed: false, err: Some(e.to_string()), after_err: vec![] },
            }
        }
        ReadOp::BlobLonger { which, extra } => {
            let blobs = blob_list(rd, free);
            if blobs.is_empty() {
                return OpOut { items: vec![], completed: true, err: None, after_err: vec![] };
            }
            let b = &blobs[*which as usize % blobs.len()];
            let longer = Blob::new(b.offset, b.length + *extra as u64);
            let mut buf = Vec::new();
            match rd.blob(&longer, &mut buf) {
                Ok(n) => OpOut { items: vec![n, hash_str(&format!("{buf:?}"))], completed: true, err: None, after_err: vec![] },
                Err(e) => OpOut { items: vec![], completed: false, err: Some(e.to_string()), after_err: vec![] },
            }
        }
        ReadOp::Stride { cloud, simple, skip, step, take } => {
            let pcs = rd.pointclouds();
            if pcs.is_empty() {
                return OpOut { items: vec![], completed: true, err: None, after_err: vec![] };
            }
            let pc = &pcs[*cloud as usize % pcs.len()];
            let mut out = OpOut { items: vec![], completed: false, err: None, after_err: vec![] };
            let limit = (*take as u64).min(pc.records.saturating_add(2));
            let step = (*step as usize).max(1);
            if *simple {
                let it = match rd.pointcloud_simple(pc) {
                    Ok(i) => i,
                    Err(e) => return OpOut { items: vec![], completed: false, err: Some(e.to_string()), after_err: vec![] },
                };
                for item in it.skip(*skip as usize).step_by(step) {
                    if out.items.len() as u64 >= limit {
                        return out;
                    }
                    match item {
                        Ok(p) => out.items.push(hash_str(&format!("{p:?}"))),
                        Err(e) => {
                            out.err = Some(e.to_string());
                            return out;
                        }
                    }
                }
            } else {
                let it = match rd.pointcloud_raw(pc) {
                    Ok(i) => i,
                    Err(e) => return OpOut { items: vec![], completed: false, err: Some(e.to_string()), after_err: vec![] },
                };
                for item in it.skip(*skip as usize).step_by(step) {
                    if out.items.len() as u64 >= limit {
                        return out;
                    }
                    match item {
                        Ok(p) => out.items.push(hash_str(&format!("{:?}", p.iter().map(val_from_e57).collect::<Vec<_>>()))),
                        Err(e) => {
                            out.err = Some(e.to_string());
                            return out;
                        }
                    }
                }
            }
            out.completed = true;
            out
        }
        ReadOp::BlobInto { which, room, mode } => {
            let blobs = blob_list(rd, free);
            if blobs.is_empty() {
                return OpOut { items: vec![], completed: true, err: None, after_err: vec![] };
            }
            let b = &blobs[*which as usize % blobs.len()];
            // room: a fraction of the blob's length (in 1/8 steps) or a small absolute number
            let cap = if *room < 9 { (b.length as u128 * *room as u128 / 8).min(1 << 24) as usize } else { *room as usize };
            let mut sink = crate::gen::LimitSink::new(cap, *mode);
            match rd.blob(b, &mut sink) {
                Ok(n) => OpOut { items: vec![n, sink.got.len() as u64, hash_str(&format!("{:?}", sink.got))], completed: true, err: None, after_err: vec![] },
                Err(e) => OpOut { items: vec![], completed: false, err: Some(e.to_string()), after_err: vec![sink.got.len() as u64, hash_str(&format!("{:?}", sink.got))] },
            }
        }
    }
}

/// Every kind of read operation once, in a fixed order.
pub fn all_ops(clouds: usize, blobs: usize) -> Vec<ReadOp> {
    let mut ops = vec![ReadOp::Xml, ReadOp::Descriptors, ReadOp::Header];
    for c in 0..clouds {
        ops.push(ReadOp::Raw { cloud: c as u8, take: u32::MAX });
        ops.push(ReadOp::Simple { cloud: c as u8, opts: Opts::DEFAULT_BITS, take: u32::MAX });
    }
    for b in 0..blobs {
        ops.push(ReadOp::Blob { which: b as u8 });
    }
    ops
}

pub fn gen_op(s: &mut Src) -> ReadOp {
    let take = |s: &mut Src| match s.weighted(&[3, 3, 2]) {
        0 => u32::MAX,
        1 => s.below(6) as u32,
        _ => s.below(3000) as u32,
    };
    match s.weighted(&[1, 1, 4, 4, 3, 2, 2, 1]) {
        7 => ReadOp::BlobLonger { which: s.byte(), extra: 1 + s.below(16) as u8 },
        0 => ReadOp::Xml,
        1 => ReadOp::Descriptors,
        2 => ReadOp::Raw { cloud: s.byte(), take: take(s) },
        3 => ReadOp::Simple { cloud: s.byte(), opts: if s.chance(1, 3) { Opts::DEFAULT_BITS } else { s.below(64) as u8 }, take: take(s) },
        4 => ReadOp::Blob { which: s.byte() },
        6 => ReadOp::Stride { cloud: s.byte(), simple: s.flag(), skip: s.below(40) as u16, step: 1 + s.below(9) as u8, take: if s.flag() { u16::MAX } else { s.below(30) as u16 } },
        _ => ReadOp::BlobInto { which: s.byte(), room: if s.flag() { s.below(9) as u16 } else { s.below(3000) as u16 }, mode: s.below(3) as u8 },
    }
}
