//! C13 - normalised colour and intensity lie in [0,1], monotone, never NaN.
use crate::dev::MemDev;
use crate::gen;
use crate::kit::{guard, Check, Src, Tier, Verdict};
use crate::prog::write_scene;
use crate::simple_model::{norm_matches, normalise, range_spec, Norm, RangeSpec};
use e57::E57Reader;
use e57ref::encode::{encode, Layout};
use e57ref::fx::{F32, F64};
use e57ref::scene::{Cloud, CloudMeta, LimitVal, RType, Rec, Scene, Val};
use serde::{Deserialize, Serialize};

pub struct C13;

#[derive(Clone, Serialize, Deserialize)]
pub struct Attr {
    pub ty: RType,
    pub limits: (Option<LimitVal>, Option<LimitVal>),
    /// stored values, ascending in their real value
    pub vals: Vec<Val>,
}

#[derive(Clone, Serialize, Deserialize)]
pub struct Case {
    pub intensity: Option<Attr>,
    pub color: Option<Vec<Attr>>,
    /// produce the file with the independent encoder (arbitrary XML) instead of the writer
    pub foreign: bool,
    pub lex: Vec<u8>,
    /// an extension record with the local name of a standard colour / intensity attribute (selector) and another
    /// range, placed in front of the standard records
    #[serde(default)]
    pub shadow: Option<u8>,
}

fn attr_type(s: &mut Src) -> RType {
    match s.weighted(&[2, 2, 3, 3]) {
        0 => match s.weighted(&[2, 2, 1]) {
            0 => RType::Single { min: None, max: None },
            1 => {
                let a = gen::f64_finite(s) as f32;
                let b = gen::f64_finite(s) as f32;
                RType::Single { min: Some(F32(a.min(b))), max: Some(F32(a.max(b))) }
            }
            _ => RType::Single { min: Some(F32(0.0)), max: None },
        },
        1 => match s.weighted(&[2, 2, 1, 1]) {
            0 => RType::Double { min: None, max: None },
            1 => {
                let a = gen::f64_finite(s);
                let b = gen::f64_finite(s);
                RType::Double { min: Some(F64(a.min(b))), max: Some(F64(a.max(b))) }
            }
            2 => RType::Double { min: Some(F64(-f64::MAX)), max: Some(F64(f64::MAX)) },
            _ => RType::Double { min: None, max: Some(F64(1.0)) },
        },
        2 => {
            let (min, max) = gen::int_range(s);
            RType::Int { min, max }
        }
        _ => {
            let (min, max) = gen::int_range(s);
            let (scale, offset) = gen::scale_offset(s);
            RType::Scaled { min, max, scale: F64(scale), offset: F64(offset) }
        }
    }
}

fn limits(s: &mut Src, ty: &RType) -> (Option<LimitVal>, Option<LimitVal>) {
    let (tlo, thi) = crate::simple_model::type_range(ty);
    match s.weighted(&[4, 4, 1, 2, 2, 2, 1, 2]) {
        0 => (None, None),
        7 => {
            // ScaledInteger elements with a scale and offset of their own (another producer's file), ascending
            let scale = *s.pick(&[1.0, 0.5, 0.001, 2.0, -1.0, 1e-6, 256.0]);
            let offset = *s.pick(&[0.0, 0.0, 1.5, -100.25]);
            let (a, b) = (s.range(-1000, 70000), s.range(-1000, 70000));
            let (lo, hi) = if (scale > 0.0) == (a <= b) { (a, b) } else { (b, a) };
            (Some(LimitVal::SX { raw: lo, scale: F64(scale), offset: F64(offset) }), Some(LimitVal::SX { raw: hi, scale: F64(scale), offset: F64(offset) }))
        }
        1 => {
            // complete, same kind, ascending, somewhere around the type range
            let (a, b) = crate::c05::limit_pair(s);
            (Some(a), Some(b))
        }
        2 => (Some(gen::limit_val(s)), None), // partial
        3 => {
            // equal
            let v = *s.pick(&[0i64, 5, 255]);
            match s.weighted(&[3, 3, 1]) {
                0 => (Some(LimitVal::I(v)), Some(LimitVal::I(v))),
                1 => (Some(LimitVal::D(F64(v as f64))), Some(LimitVal::D(F64(v as f64)))),
                _ => {
                    // both limits the same infinity: still a degenerate range, only "a number in [0,1]" is asserted
                    let inf = if s.flag() { f64::INFINITY } else { f64::NEG_INFINITY };
                    (Some(LimitVal::D(F64(inf))), Some(LimitVal::D(F64(inf))))
                }
            }
        }
        4 => {
            // narrower than the type range: stored values fall below and above
            if tlo.is_finite() && thi.is_finite() && thi > tlo {
                let q = thi / 4.0 - tlo / 4.0; // no overflow for the widest type ranges
                (Some(LimitVal::D(F64(tlo + q))), Some(LimitVal::D(F64(thi - q))))
            } else {
                (Some(LimitVal::D(F64(-1.0))), Some(LimitVal::D(F64(1.0))))
            }
        }
        5 => *s.pick(&[
            (Some(LimitVal::D(F64(-f64::MAX))), Some(LimitVal::D(F64(f64::MAX)))),
            (Some(LimitVal::I(i64::MIN)), Some(LimitVal::I(i64::MAX))),
            (Some(LimitVal::D(F64(0.0))), Some(LimitVal::D(F64(f64::MAX)))),
            (Some(LimitVal::S(F32(f32::MIN))), Some(LimitVal::S(F32(f32::MAX)))),
            (Some(LimitVal::D(F64(0.0))), Some(LimitVal::D(F64(5e-324)))),
            (Some(LimitVal::D(F64(1e300))), Some(LimitVal::D(F64(f64::MAX)))),
        ]),
        _ => (Some(LimitVal::SI(0)), Some(LimitVal::SI(1000))),
    }
}

fn values(s: &mut Src, ty: &RType, lim: &(Option<LimitVal>, Option<LimitVal>)) -> Vec<Val> {
    let n = 6 + s.below(8) as usize;
    let mut out: Vec<Val> = Vec::new();
    let (lo, hi) = match range_spec(Some(*lim), ty) {
        RangeSpec::Exact(lo, hi) => (lo, hi),
        RangeSpec::Unspecified => crate::simple_model::type_range(ty),
    };
    match ty {
        RType::Int { min, max } | RType::Scaled { min, max, .. } => {
            let range = (*max as i128 - *min as i128) as u128;
            let mut raws: Vec<i64> = vec![*min, *max, (*min as i128 + (range / 2) as i128) as i64, (*min as i128 + 1.min(range) as i128) as i64, (*max as i128 - 1.min(range) as i128) as i64];
            // raw values whose real value sits at / around the limits
            if let RType::Scaled { scale, offset, .. } = ty {
                for t in [lo, hi] {
                    let r = ((t - offset.0) / scale.0).round();
                    if r.is_finite() && r >= *min as f64 && r <= *max as f64 {
                        raws.push(r as i64);
                    }
                }
            } else {
                for t in [lo, hi] {
                    if t.is_finite() && t >= *min as f64 && t <= *max as f64 {
                        raws.push(t as i64);
                    }
                }
            }
            while raws.len() < n {
                let off = if range == u64::MAX as u128 { s.u64() as u128 } else { (s.u64() as u128 * (range + 1)) >> 64 };
                raws.push((*min as i128 + off as i128) as i64);
            }
            for r in raws.iter_mut() {
                *r = (*r).clamp(*min, *max);
            }
            raws.sort();
            raws.dedup();
            out.extend(raws.into_iter().map(Val::I));
        }
        RType::Single { min, max } => {
            let tmin = min.map(|m| m.0).unwrap_or(f32::MIN);
            let tmax = max.map(|m| m.0).unwrap_or(f32::MAX);
            let mut fs: Vec<f32> = vec![tmin, tmax, 0.0, lo as f32, hi as f32, ((lo + hi) / 2.0) as f32];
            while fs.len() < n {
                fs.push(gen::f64_finite(s) as f32);
            }
            // 1 attribute in 3: the stored floats are not confined to the declared range (the declared minimum / maximum of a
            // float type do not restrict what can be stored; such values normalise to 0 or 1)
            let free = s.chance(1, 3);
            if free {
                fs.push(tmin - (tmax - tmin).abs().max(1.0) / 2.0);
                fs.push(tmax + (tmax - tmin).abs().max(1.0) / 2.0);
            }
            let mut fs: Vec<f32> = fs.into_iter().filter(|v| v.is_finite()).map(|v| if free { v } else { v.clamp(tmin, tmax) }).collect();
            fs.sort_by(|a, b| a.partial_cmp(b).unwrap_or(std::cmp::Ordering::Equal));
            out.extend(fs.into_iter().map(|v| Val::S(F32(v))));
        }
        RType::Double { min, max } => {
            let tmin = min.map(|m| m.0).unwrap_or(f64::MIN);
            let tmax = max.map(|m| m.0).unwrap_or(f64::MAX);
            let mut fs: Vec<f64> = vec![tmin, tmax, 0.0, lo, hi, lo / 2.0 + hi / 2.0];
            while fs.len() < n {
                fs.push(gen::f64_finite(s));
            }
            let free = s.chance(1, 3);
            if free {
                fs.push(tmin - (tmax - tmin).abs().max(1.0) / 2.0);
                fs.push(tmax + (tmax - tmin).abs().max(1.0) / 2.0);
            }
            let mut fs: Vec<f64> = fs.into_iter().filter(|v| v.is_finite()).map(|v| if free { v } else { v.clamp(tmin, tmax) }).collect();
            fs.sort_by(|a, b| a.partial_cmp(b).unwrap_or(std::cmp::Ordering::Equal));
            out.extend(fs.into_iter().map(|v| Val::D(F64(v))));
        }
    }
    out
}

fn attr(s: &mut Src) -> Attr {
    let ty = attr_type(s);
    let limits = limits(s, &ty);
    let vals = values(s, &ty, &limits);
    Attr { ty, limits, vals }
}

fn build(case: &Case) -> Scene {
    let n = case.intensity.iter().map(|a| a.vals.len()).chain(case.color.iter().flat_map(|c| c.iter().map(|a| a.vals.len()))).min().unwrap_or(0);
    let mut proto: Vec<Rec> = ["cartesianX", "cartesianY", "cartesianZ"].iter().map(|n| Rec { prefix: None, name: n.to_string(), ty: RType::Single { min: None, max: None } }).collect();
    let mut cols: Vec<&Attr> = Vec::new();
    let mut meta = CloudMeta { guid: Some("{c13}".into()), ..Default::default() };
    if let Some(a) = &case.intensity {
        proto.push(Rec { prefix: None, name: "intensity".into(), ty: a.ty.clone() });
        cols.push(a);
        if a.limits.0.is_some() || a.limits.1.is_some() {
            meta.intensity_limits = Some([a.limits.0, a.limits.1]);
        }
    }
    if let Some(c) = &case.color {
        for (k, name) in ["colorRed", "colorGreen", "colorBlue"].iter().enumerate() {
            proto.push(Rec { prefix: None, name: name.to_string(), ty: c[k].ty.clone() });
            cols.push(&c[k]);
        }
        if c.iter().any(|a| a.limits.0.is_some() || a.limits.1.is_some()) {
            meta.color_limits = Some([c[0].limits.0, c[0].limits.1, c[1].limits.0, c[1].limits.1, c[2].limits.0, c[2].limits.1]);
        }
    }
    let mut extensions = Vec::new();
    if let Some(k) = case.shadow {
        extensions.push(("shd".to_string(), "urn:verif:shadow".to_string()));
        let name = ["intensity", "colorRed", "colorGreen", "colorBlue"][k as usize % 4];
        proto.insert(0, Rec { prefix: Some("shd".into()), name: name.into(), ty: RType::Int { min: -1000, max: 1000 } });
    }
    let points = (0..n)
        .map(|i| {
            let mut p = vec![Val::S(F32(i as f32)), Val::S(F32(0.0)), Val::S(F32(1.0))];
            if case.shadow.is_some() {
                p.insert(0, Val::I(i as i64 % 7 - 3));
            }
            for a in &cols {
                p.push(a.vals[i]);
            }
            p
        })
        .collect();
    Scene { guid: "{c13-file}".into(), extensions, clouds: vec![Cloud { meta, proto, points }], ..Default::default() }
}

/// What the reader will see as limits: the writer stores limits only when complete.
fn effective_limits(case: &Case, a: &Attr, all: &[&Attr]) -> Option<(Option<LimitVal>, Option<LimitVal>)> {
    if case.foreign {
        // a ScaledInteger element in the units of the attribute it limits (1 and 0 for an attribute that is no scaled
        // integer) is a raw value of that attribute
        let units = match &a.ty {
            RType::Scaled { scale, offset, .. } => (scale.0, offset.0),
            _ => (1.0, 0.0),
        };
        let settle = |l: Option<LimitVal>| match l {
            Some(LimitVal::SX { raw, scale, offset }) if (scale.0, offset.0) == units => Some(LimitVal::SI(raw)),
            other => other,
        };
        return Some((settle(a.limits.0), settle(a.limits.1)));
    }
    // through the writer API: an override exists if any limit was set; it is written only if all members are given
    let any = all.iter().any(|x| x.limits.0.is_some() || x.limits.1.is_some());
    let complete = all.iter().all(|x| x.limits.0.is_some() && x.limits.1.is_some());
    if !any {
        None // writer default: declared range of the type = type range
    } else if complete {
        Some(a.limits)
    } else {
        Some((None, None))
    }
}

fn check_attr(name: &str, a: &Attr, lim: Option<(Option<LimitVal>, Option<LimitVal>)>, got_on: &[f32], got_off: &[f32], v: &mut Verdict) -> Result<(), String> {
    let spec = range_spec(lim, &a.ty);
    if matches!(lim, Some((Some(LimitVal::SX { .. }), Some(LimitVal::SX { .. })))) {
        v.nt("scaled_integer_limits_with_units_of_their_own");
    }
    let mut prev: Option<f32> = None;
    // ascending in the real value (a negative scale reverses the raw order)
    let mut order: Vec<usize> = (0..a.vals.len()).collect();
    order.sort_by(|x, y| a.vals[*x].real(&a.ty).partial_cmp(&a.vals[*y].real(&a.ty)).unwrap_or(std::cmp::Ordering::Equal));
    for i in order {
        let val = &a.vals[i];
        let x = val.real(&a.ty);
        let g = got_on[i];
        let e = match &spec {
            RangeSpec::Exact(lo, hi) => {
                if !(hi > lo) {
                    v.nt("degenerate_range");
                }
                if !(hi - lo).is_finite() || hi.abs() > 1e300 {
                    v.nt("extreme_range");
                }
                if x < *lo || x > *hi {
                    v.nt("value_outside_range");
                }
                if x == *lo && g != 0.0 {
                    return Err(format!("{name}: value {x} equals the minimum {lo} but is delivered as {g:?}, not 0"));
                }
                if x == *hi && hi > lo && (g as f64 - 1.0).abs() > 1e-6 {
                    return Err(format!("{name}: value {x} equals the maximum {hi} but is delivered as {g:?}, not 1"));
                }
                Norm::Value(normalise(x, *lo, *hi))
            }
            RangeSpec::Unspecified => {
                v.label("limits_of_unspecified_kind");
                Norm::UnitOnly
            }
        };
        norm_matches(&e, g).map_err(|m| format!("{name}: stored value {x} (raw {val:?}), type {:?}, limits {lim:?}: {m}", a.ty))?;
        if let Some(p) = prev {
            if g < p {
                return Err(format!("{name}: not monotone: stored value {x} delivered as {g:?} after {p:?} for a smaller stored value"));
            }
        }
        prev = Some(g);
        // normalisation disabled: the stored value as f32
        norm_matches(&Norm::Raw(x as f32), got_off[i]).map_err(|m| format!("{name}: {m}"))?;
    }
    Ok(())
}

impl Check for C13 {
    type Case = Case;
    const ID: &'static str = "C13";
    fn rule() -> String {
        "One cloud with an intensity record and/or colour records of every data type (single/double with none/both/one declared bound incl. \
         +-f64::MAX, integer and scaled integer of every bit width, positive and negative scale), limit settings {absent, complete same-kind pairs, partial, \
         equal, narrower than the type range, extreme (+-f64::MAX, i64 extremes, f32 extremes, subnormal width), scaled-integer kind}, 6..14 stored \
         values per attribute sorted ascending incl. type min/max, limit min/max, midpoints; file written by the crate's writer (limit override API) \
         or by the independent encoder (arbitrary XML limits). Oracle: with normalisation on every delivered component is finite, in [0,1], within \
         2.4e-7 of clamp((v-lo)/(hi-lo)) computed without overflow (0 for a degenerate range), exactly 0 at lo, within 1e-6 of 1 at hi, \
         non-decreasing along the sorted values; with normalisation off it is the stored value as f32 bit for bit. For limits whose real meaning the \
         API leaves open (scaled-integer kind, mixed kinds) only finite/in [0,1]/monotone. Non-trivial: degenerate or extreme range, value outside \
         the range."
            .into()
    }
    fn assumptions() -> Vec<String> {
        vec!["NaN limits / NaN type bounds and inverted limits are outside the stated limit settings (C08 covers 'no panic' for them)".into()]
    }
    fn budget(t: Tier) -> usize {
        t.pick(60_000, 15_000_000)
    }
    fn gen(s: &mut Src, _t: Tier) -> Case {
        let shape = s.weighted(&[3, 2, 2]);
        let intensity = if shape != 1 { Some(attr(s)) } else { None };
        let color = if shape != 0 { Some(vec![attr(s), attr(s), attr(s)]) } else { None };
        let lex = if s.flag() { (0..16).map(|_| s.byte()).collect() } else { vec![] };
        Case { intensity, color, foreign: s.flag(), lex, shadow: if s.chance(1, 5) { Some(s.byte()) } else { None } }
    }
    fn run(case: &Case) -> Verdict {
        let mut v = Verdict::new();
        let scene = build(case);
        let bytes = if case.foreign {
            v.label("file_from_independent_encoder");
            match encode(&scene, &Layout { lex: case.lex.clone(), ..Default::default() }) {
                Ok(e) => e.bytes,
                Err(e) => {
                    v.infra(format!("reference encoder failed: {e}"));
                    return v;
                }
            }
        } else {
            v.label("file_from_writer");
            match guard(|| write_scene(&scene)) {
                Ok(Ok(b)) => b,
                Ok(Err(e)) => {
                    v.fail(format!("writer rejected a valid scene: {e}"));
                    return v;
                }
                Err(p) => {
                    v.fail(format!("writer panicked: {p}"));
                    return v;
                }
            }
        };
        let n = scene.clouds[0].points.len();
        let r = guard(|| -> Result<Vec<Vec<e57::Point>>, String> {
            let mut rd = E57Reader::new(MemDev::with_data(bytes.clone())).map_err(|e| format!("open: {e}"))?;
            let pc = rd.pointclouds().into_iter().next().ok_or("no cloud")?;
            let mut out = Vec::new();
            for on in [true, false] {
                let mut it = rd.pointcloud_simple(&pc).map_err(|e| format!("pointcloud_simple failed: {e}"))?;
                it.normalize_intensity(on);
                it.normalize_color(on);
                it.intensity_to_color(false);
                let pts: Result<Vec<_>, _> = it.collect();
                out.push(pts.map_err(|e| format!("simple iterator failed: {e}"))?);
            }
            Ok(out)
        });
        let runs = match r {
            Err(p) => {
                v.fail(format!("reader panicked: {p}"));
                return v;
            }
            Ok(Err(e)) => {
                v.fail(e);
                return v;
            }
            Ok(Ok(r)) => r,
        };
        if runs[0].len() != n || runs[1].len() != n {
            v.fail(format!("{} / {} points delivered, {n} stored", runs[0].len(), runs[1].len()));
            return v;
        }
        if let Some(a) = &case.intensity {
            let on: Vec<f32> = runs[0].iter().map(|p| p.intensity.unwrap_or(f32::NAN)).collect();
            let off: Vec<f32> = runs[1].iter().map(|p| p.intensity.unwrap_or(f32::NAN)).collect();
            let lim = effective_limits(case, a, &[a]);
            if let Err(e) = check_attr("intensity", &Attr { vals: a.vals[..n].to_vec(), ..a.clone() }, lim, &on, &off, &mut v) {
                v.fail(e);
                return v;
            }
        }
        if let Some(c) = &case.color {
            let all: Vec<&Attr> = c.iter().collect();
            for (k, name) in ["red", "green", "blue"].iter().enumerate() {
                let get = |p: &e57::Point| p.color.as_ref().map(|c| [c.red, c.green, c.blue][k]).unwrap_or(f32::NAN);
                let on: Vec<f32> = runs[0].iter().map(get).collect();
                let off: Vec<f32> = runs[1].iter().map(get).collect();
                let lim = effective_limits(case, &c[k], &all);
                if let Err(e) = check_attr(name, &Attr { vals: c[k].vals[..n].to_vec(), ..c[k].clone() }, lim, &on, &off, &mut v) {
                    v.fail(e);
                    return v;
                }
            }
        }
        v
    }
}
