//! C09 - reading untrusted bytes uses bounded time and memory per call.
use crate::alloc::measure;
use crate::dev::MemDev;
use crate::kit::{guard, Check, Src, Tier, Verdict};
use crate::rops::blob_list;
use crate::untrusted::{gen_script, mutate, Mut, Script};
use e57::E57Reader;
use serde::{Deserialize, Serialize};

pub struct C09;

#[derive(Clone, Serialize, Deserialize)]
pub struct Case {
    pub script: Script,
}

const CONST_BYTES: usize = 64 << 20;

fn check_call(what: &str, n: usize, _p: usize, peak: usize, served: u64) -> Result<(), String> {
    // one packet decodes to at most 8 values per packet byte over all its streams (1-bit records), 16 to 24 bytes each
    let mem_bound = CONST_BYTES + 1024 * n;
    if peak > mem_bound {
        return Err(format!("{what}: one call grew the heap by {peak} bytes; bound is 64 MiB + 1024 x input size {n} = {mem_bound}"));
    }
    let io_bound = 2 * n as u64 + 65536;
    if served > io_bound {
        return Err(format!("{what}: one call read {served} bytes from the device; bound is 2 x input size {n} + 64 KiB"));
    }
    Ok(())
}

fn drive(bytes: &[u8], v: &mut Verdict) -> Result<(), String> {
    let n = bytes.len();
    let dev = MemDev::with_data(bytes.to_vec());
    let h = dev.handle();
    let served = |h: &MemDev| h.st.borrow().bytes_read;
    let churn0 = crate::alloc::total();
    let (r, peak) = measure(|| guard(|| E57Reader::new(dev)));
    let churn = crate::alloc::total() - churn0;
    if std::env::var("E57_C09_CALIBRATE").is_ok() {
        use std::io::Write;
        if let Ok(mut f) = std::fs::OpenOptions::new().append(true).create(true).open(std::env::var("E57_C09_CALIBRATE").unwrap_or_default()) {
            let _ = f.write_all(format!("{n} {churn} {peak}\n").as_bytes());
        }
    }
    check_call("E57Reader::new", n, 0, peak, served(&h))?;
    // all bytes the call asked the allocator for, however short-lived: a deterministic stand-in for the time spent on
    // copying (a parser that joins n pieces of text by copying what it has so far allocates n^2 bytes without ever
    // holding more than 2n). Measured on 100 000 generated inputs: at most 45 x the input size above 100 KB, at most
    // 270 MB in absolute terms.
    if churn > (CONST_BYTES as u64) + 512 * n as u64 {
        return Err(format!("E57Reader::new asked the allocator for {churn} bytes in total; bound for opening is 64 MiB + 512 x input size {n}"));
    }
    // opening parses the XML into a tree: a few dozen bytes per byte of XML at most
    if peak > CONST_BYTES + 64 * n {
        return Err(format!("E57Reader::new grew the heap by {peak} bytes; bound for opening is 64 MiB + 64 x input size {n}"));
    }
    let mut rd = match r {
        Ok(Ok(r)) => r,
        _ => {
            v.label("rejected_at_open");
            return Ok(());
        }
    };
    v.label("passes_open");
    let pcs = match guard(|| rd.pointclouds()) {
        Ok(p) => p,
        Err(_) => return Ok(()),
    };
    for (ci, pc) in pcs.iter().enumerate().take(6) {
        let p = pc.prototype.len();
        // harness work bound: items x prototype length
        let cap = (3_000_000 / p.max(1)).clamp(3, 200_000) as u64;
        for simple in [false, true] {
            let before = served(&h);
            let what = format!("cloud {ci} {} iterator", if simple { "simple" } else { "raw" });
            let mut count: u64 = 0;
            if simple {
                let (it, peak) = measure(|| guard(|| rd.pointcloud_simple(pc)));
                check_call(&format!("{what} creation"), n, p, peak, served(&h) - before)?;
                let Ok(Ok(mut it)) = it else { continue };
                loop {
                    let b = served(&h);
                    let (item, peak) = measure(|| guard(|| it.next()));
                    check_call(&format!("{what} step {count}"), n, p, peak, served(&h) - b)?;
                    match item {
                        Ok(Some(Ok(_))) => count += 1,
                        _ => break,
                    }
                    if count > pc.records {
                        return Err(format!("{what} yielded more than the declared record count {}", pc.records));
                    }
                    if count >= cap {
                        v.label("iteration_capped_by_harness");
                        break;
                    }
                }
            } else {
                let (it, peak) = measure(|| guard(|| rd.pointcloud_raw(pc)));
                check_call(&format!("{what} creation"), n, p, peak, served(&h) - before)?;
                let Ok(Ok(mut it)) = it else { continue };
                loop {
                    let b = served(&h);
                    let (item, peak) = measure(|| guard(|| it.next()));
                    check_call(&format!("{what} step {count}"), n, p, peak, served(&h) - b)?;
                    match item {
                        Ok(Some(Ok(_))) => count += 1,
                        _ => break,
                    }
                    if count > pc.records {
                        return Err(format!("{what} yielded more than the declared record count {}", pc.records));
                    }
                    if count >= cap {
                        v.label("iteration_capped_by_harness");
                        break;
                    }
                }
            }
            if count > 0 {
                v.label("yields_points_after_mutation");
            }
        }
    }
    let blobs = guard(|| blob_list(&rd, &[])).unwrap_or_default();
    for (bi, b) in blobs.iter().enumerate().take(12) {
        let before = served(&h);
        let mut out = Vec::new();
        let (r, peak) = measure(|| guard(|| rd.blob(b, &mut out)));
        // the output buffer itself belongs to the caller
        check_call(&format!("blob {bi}"), n, 0, peak.saturating_sub(out.capacity()), served(&h) - before)?;
        if let Ok(Ok(k)) = r {
            if k != out.len() as u64 {
                return Err(format!("blob {bi}: returned Ok({k}) but wrote {} bytes", out.len()));
            }
            if k != b.length {
                return Err(format!("blob {bi}: returned Ok({k}) for a descriptor of {} bytes", b.length));
            }
            if k > n as u64 {
                return Err(format!("blob {bi}: returned {k} bytes from an input of {n} bytes"));
            }
        }
    }
    Ok(())
}

impl Check for C09 {
    type Case = Case;
    const ID: &'static str = "C09";
    fn isolated() -> bool {
        true
    }
    fn announces_phase() -> bool {
        true
    }
    fn case_timeout_s() -> u64 {
        20
    }
    fn rule() -> String {
        "Same structure-aware mutation scripts as C08, weighted towards the resource-relevant mutations (maximum := minimum on some / all records, \
         emptied prototypes / containers, huge recordCount, huge lengths and offsets in file / section / packet / blob headers, stream lengths, DOCTYPE entity definitions referenced thousands of times, chains of overlapping packet headers whose declared length is smaller than their streams, thousands of added records, deep \
         nesting). Every iterator is driven to its first Err or None (harness cap: 3e6 / prototype length items, at most 200000) and every blob is \
         extracted, in a worker process with an address space limit and a counting allocator. Deterministic oracles per single call (new, iterator \
         creation, each next(), each blob()): peak heap growth <= 64 MiB + 1024 x input size (opening: 64 MiB + 64 x input size, and all bytes ever requested from the allocator during opening <= 64 MiB + 512 x input size - a deterministic stand-in for time spent copying); bytes read from the device \
         <= 2 x input size + 64 KiB; an iterator never yields more than recordCount items; blob() returning Ok(k) wrote exactly k <= input size \
         bytes. Backstop: 20 s watchdog per case, confirmed alone with 60 s (confirmed => violation, unconfirmed => exit 2). Non-trivial: \
         script containing a resource-relevant mutation and passing open."
            .into()
    }
    fn assumptions() -> Vec<String> {
        vec!["the memory bound is linear in the input size: one packet legitimately decodes to up to 8 values per packet byte over all its streams".into()]
    }
    fn budget(t: Tier) -> usize {
        t.pick(100_000, 2_000_000)
    }
    fn fixed(_t: Tier) -> Vec<Case> {
        // spec-conforming files whose prototypes are dominated by constant records (minimum = maximum)
        [(40u16, 20_000u32), (400, 100_000), (1500, 150_000), (3000, 440_000)]
            .iter()
            .map(|(consts, points)| Case { script: Script { seed: crate::untrusted::Seed::ConstHeavy { consts: *consts, points: *points }, muts: vec![], reseal: true } })
            // long prototypes in front of millions of packets without data: the work per skipped packet must not grow with
            // the prototype (the time of one next() call quadratic in the file size; decided by the watchdog, with a margin
            // of two orders of magnitude between a linear and a quadratic reader)
            .chain([(2_000u32, 100_000u32), (20_000, 5_000_000)].iter().map(|(records, packets)| Case { script: Script { seed: crate::untrusted::Seed::TinyPackets { records: *records, packets: *packets }, muts: vec![], reseal: true } }))
            // thousands of namespace declarations in scope of thousands of elements that declare one more (the XML parser
            // copies and compares all of them for each): white space of every kind between the attributes
            .chain((0..4u8).flat_map(|sep| [(2000u16, 20_000u32), (500, 200_000), (300, 100)].into_iter().map(move |(on_root, leaves)| Case { script: Script { seed: crate::untrusted::Seed::ManyNamespaces { on_root, leaves, sep }, muts: vec![], reseal: true } })))
            // hundreds of long namespace names in scope of a prototype with many records of the namespace declared last (a
            // prefix looked up by comparing namespace names for every record costs records x namespaces x length), and a
            // string written as very many pieces of character data (a parser that joins them by copying what it has so far
            // costs pieces^2 x length); both within the reader's documented limits for XML size and namespace count
            .chain([(500u16, 9_000u32, 70_000u32), (500, 200, 150_000), (100, 30_000, 60_000)].iter().map(|(namespaces, uri_len, records)| Case {
                script: Script { seed: crate::untrusted::Seed::LongNamespaceRecords { namespaces: *namespaces, uri_len: *uri_len, records: *records }, muts: vec![], reseal: true },
            }))
            .chain([(20_000u32, 12u16, 0u8), (20_000, 12, 1), (20_000, 12, 2), (40_000, 1, 2), (400_000, 12, 0), (300_000, 12, 1), (60_000, 1, 1), (2_000, 4000, 0)].iter().map(|(pieces, piece_len, kind)| Case {
                script: Script { seed: crate::untrusted::Seed::SplitText { pieces: *pieces, piece_len: *piece_len, kind: *kind }, muts: vec![], reseal: true },
            }))
            .collect()
    }
    fn describe_fixed(_t: Tier) -> Option<String> {
        Some("4 hand-built conforming files: a 1-bit record followed by 40 .. 3000 constant records, one data packet with 20 000 .. 440 000 points; 2 hand-built files with 2 000 / 20 000 records and 100 000 / 5 000 000 minimum-size ignored packets; 12 hand-built files whose root declares 300 / 500 / 2 000 namespaces above 100 / 200 000 / 20 000 elements declaring one more, with space, line feed, tab or carriage return between the attributes; 3 hand-built files whose root declares 100 / 500 namespaces with names of 200 .. 30 000 bytes above a prototype of 60 000 .. 150 000 records in the namespace declared last; 8 hand-built files whose GUID string is written as 2 000 .. 400 000 pieces of character data (CDATA sections and text, or CDATA sections joined by carriage return references as the crate's writer splits strings)".into())
    }
    fn gen(s: &mut Src, _t: Tier) -> Case {
        let mut script = gen_script(s);
        if s.chance(1, 2) {
            let len = 8192u64;
            script.muts.push(match s.weighted(&[3, 3, 2, 2, 2, 1, 2, 2, 2, 2, 2]) {
                0 => Mut::XmlMinEqMax { nth: s.below(8) as u16, all: s.flag() },
                1 => Mut::XmlAttr { name: "recordCount".into(), nth: s.below(3) as u16, value: s.pick(&["18446744073709551615", "4294967296", "1000000", "65536"]).to_string() },
                2 => Mut::Section { nth: s.below(2) as u8, field: 1 + s.below(3) as u8, value: *s.pick(&[u64::MAX, 1 << 40, len, 0]) },
                3 => Mut::Packet { cloud: 0, nth: s.below(3) as u8, field: 2 + s.below(5) as u8, value: *s.pick(&[0u16, 3, 65535, 65531]) },
                4 => Mut::XmlAttr { name: "length".into(), nth: s.below(4) as u16, value: s.pick(&["18446744073709551615", "1099511627776", "0"]).to_string() },
                5 => Mut::XmlAddRecords { count: 3000 },
                6 => Mut::XmlDeleteChildren { nth: s.below(12) as u16 },
                7 => Mut::PacketZeroStreams { cloud: s.below(2) as u8, nth: s.below(3) as u8 },
                8 => Mut::BlobInflate { nth: s.below(4) as u8, length: *s.pick(&[9999u64, 1 << 20, 1 << 40]) },
                9 => Mut::PacketChain { cloud: s.below(2) as u8, nth: s.below(3) as u8, step: s.below(3) as u8 },
                _ => Mut::XmlEntities { size: *s.pick(&[100u16, 30000, 60000]), refs: *s.pick(&[10u16, 255, 4096]), levels: *s.pick(&[0u8, 3, 9]) },
            });
        }
        Case { script }
    }
    fn run(case: &Case) -> Verdict {
        let mut v = Verdict::new();
        let bytes = match mutate(&case.script) {
            Ok(b) => b,
            Err(_) => {
                v.label("seed_unusable");
                return v;
            }
        };
        crate::kit::phase("code-under-test");
        let relevant = case.script.muts.iter().any(|m| {
            matches!(m, Mut::SectionRel { .. } | Mut::XmlEntities { .. } | Mut::PacketChain { .. } | Mut::XmlMinEqMax { .. } | Mut::PacketZeroStreams { .. } | Mut::BlobInflate { .. } | Mut::HeaderRel { .. } | Mut::XmlDeleteChildren { .. } | Mut::XmlAddRecords { .. } | Mut::XmlDeepNest { .. } | Mut::XmlDeepNestHidden { .. } | Mut::Section { .. } | Mut::Packet { .. } | Mut::BlobHeader { .. } | Mut::Header { .. })
                || matches!(m, Mut::XmlAttr { name, .. } if name == "recordCount" || name == "length" || name == "fileOffset")
        });
        match drive(&bytes, &mut v) {
            Ok(()) => {}
            Err(e) => v.fail(e),
        }
        if relevant && v.labels.iter().any(|l| l == "passes_open") {
            v.nt("resource_relevant_mutation_reaching_the_section_parsers");
        }
        v
    }
}
