//! C20 - the bundled command line tools preserve data end to end.
use crate::c15::small_program;
use crate::c17::{damaged, Damage};
use crate::dev::MemDev;
use crate::gen;
use crate::kit::{guard, Check, Src, Tier, Verdict};
use crate::prog::{self, Op, Program, Trace};
use e57ref::scene::Val;
use serde::{Deserialize, Serialize};
use std::path::{Path, PathBuf};
use std::process::Command;
use std::sync::atomic::{AtomicU64, Ordering};

pub struct C20;



#[derive(Clone, Debug, Serialize, Deserialize)]
pub struct Line {
    /// textual coordinates exactly as written to the XYZ file
    pub xyz: [String; 3],
    pub rgb: [u8; 3],
    /// extra columns appended after the colours
    pub extra: Vec<String>,
    /// number of columns kept (fewer than 6 = short line that the converter skips)
    pub keep: u8,
}

#[derive(Clone, Serialize, Deserialize)]
pub enum Case {
    Xyz { lines: Vec<Line>, crlf: bool },
    /// all 256 colour values in one file
    Colors,
    E57 { program: Program, damage: Vec<Damage> },
    /// e57-check-crc on a directory of files; `damaged`: which of them carry a damaged page
    Dir { programs: Vec<Program>, damaged: Vec<bool> },
    /// e57-check-crc on one file of about `pages` pages with a bit flipped in page `first`, `first + step`, ... in turn
    CrcSweep { pages: u32, first: u32, step: u32 },
    /// a plain XYZ file of exactly `n` points (the end of the point data lands at a chosen offset within a page)
    XyzCount { n: u32 },
    /// like XyzCount, with a largest z coordinate whose decimal spelling has 5 + `pad` characters: together with `n`
    /// the end of the XML section lands at (nearly) every offset within a page
    #[serde(rename = "XyzXmlEnd")]
    XyzXmlEnd { n: u32, pad: u8 },
}

fn run_crc_sweep(pages: u32, first: u32, step: u32, v: &mut Verdict) -> Result<(), String> {
    let p = Program {
        guid: "{crc-sweep}".into(),
        ops: vec![Op::Blob(gen::BlobSpec { len: pages.saturating_sub(2) * 1020, seed: 9, chunk: 0, xmlish: false })],
        end: prog::End::Finalize,
    };
    let dev = MemDev::new();
    let h = dev.handle();
    let mut tr = Trace::default();
    if guard(|| prog::exec(&p, dev, &mut tr)).is_err() || tr.error.is_some() || !tr.finalized {
        return Err(format!("writing a file of {pages} pages failed: {:?}", tr.error));
    }
    let good = h.bytes();
    let np = (good.len() / 1024) as u32;
    let sc = Scratch::new().map_err(|e| format!("infra: {e}"))?;
    let file = sc.0.join("big.e57");
    let mut pg = first % np;
    let mut runs = 0u64;
    loop {
        let mut b = good.clone();
        b[pg as usize * 1024 + 100 + (pg as usize % 900)] ^= 0x10;
        std::fs::write(&file, &b).map_err(|e| format!("infra: {e}"))?;
        let o = Command::new(tool("e57-check-crc")).arg(&file).output().map_err(|e| format!("infra: cannot run e57-check-crc: {e}"))?;
        runs += 1;
        if o.status.success() {
            return Err(format!("e57-check-crc exits successfully for a file of {np} pages with a flipped bit in page {pg}"));
        }
        pg += step.max(1);
        if pg >= np {
            break;
        }
    }
    std::fs::write(&file, &good).map_err(|e| format!("infra: {e}"))?;
    let o = Command::new(tool("e57-check-crc")).arg(&file).output().map_err(|e| format!("infra: cannot run e57-check-crc: {e}"))?;
    if !o.status.success() {
        return Err(format!("e57-check-crc fails on an intact file of {np} pages"));
    }
    v.execs = runs + 1;
    Ok(())
}

fn run_dir(programs: &[Program], damaged: &[bool], v: &mut Verdict) -> Result<(), String> {
    let sc = Scratch::new().map_err(|e| format!("infra: {e}"))?;
    let dir = sc.0.join("files");
    std::fs::create_dir_all(&dir).map_err(|e| format!("infra: {e}"))?;
    let mut all_valid = true;
    let mut n = 0;
    for (i, p) in programs.iter().enumerate() {
        let dev = MemDev::new();
        let h = dev.handle();
        let mut tr = Trace::default();
        if guard(|| prog::exec(p, dev, &mut tr)).is_err() || tr.error.is_some() || !tr.finalized {
            continue;
        }
        let mut bytes = h.bytes();
        if damaged.get(i).copied().unwrap_or(false) {
            bytes = crate::c17::damaged(&bytes, &[Damage::Unsealed { page: 1, byte: 77, bit: 3 }]);
        }
        if !e57ref::pages::page_verdicts(&bytes).iter().all(|x| *x) {
            all_valid = false;
        }
        std::fs::write(dir.join(format!("f{i}.e57")), &bytes).map_err(|e| format!("infra: {e}"))?;
        n += 1;
    }
    if n == 0 {
        return Ok(());
    }
    v.nt("directory_of_files");
    let o = Command::new(tool("e57-check-crc")).arg(&dir).output().map_err(|e| format!("infra: cannot run e57-check-crc: {e}"))?;
    if o.status.success() != all_valid {
        return Err(format!("e57-check-crc on a directory of {n} files exits with {:?} although {}", o.status.code(), if all_valid { "every page checksum is valid" } else { "one of the files has an invalid page checksum" }));
    }
    Ok(())
}

static COUNTER: AtomicU64 = AtomicU64::new(0);

struct Scratch(PathBuf);
impl Scratch {
    fn new() -> std::io::Result<Self> {
        let n = COUNTER.fetch_add(1, Ordering::Relaxed);
        let p = crate::kit::verif_root().join("out/c20").join(format!("{}-{}", std::process::id(), n));
        std::fs::create_dir_all(&p)?;
        Ok(Scratch(p))
    }
}
impl Drop for Scratch {
    fn drop(&mut self) {
        let _ = std::fs::remove_dir_all(&self.0);
    }
}

fn tool(name: &str) -> PathBuf {
    crate::kit::verif_root().join("target/tools/release").join(name)
}

/// One of the spellings of zero.
fn zero_text(s: &mut Src) -> String {
    s.pick(&["0", "0.0", "-0", "-0.0", "+0", "0e0", "0.000", "-0e5"]).to_string()
}

fn f32_text(s: &mut Src) -> String {
    let v: f32 = match s.weighted(&[4, 3, 2]) {
        0 => *s.pick(&[0.0f32, -0.0, 1.0, -1.0, 0.1, f32::MIN_POSITIVE, 1e-45, -1e-45, f32::MAX, f32::MIN, 16777216.0, 16777217.0, 1e-10, 123456.79, 3.4028235e38, 1.1754942e-38]),
        1 => (s.range(-1_000_000, 1_000_000) as f32) / *s.pick(&[1.0f32, 8.0, 1000.0, 3.0]),
        _ => {
            let f = f32::from_bits(s.u32());
            if f.is_finite() {
                f
            } else {
                42.5
            }
        }
    };
    match s.weighted(&[4, 2, 1, 1]) {
        0 => format!("{v}"),
        1 => format!("{v:e}"),
        2 => format!("{v:?}"),
        _ => {
            if v >= 0.0 && !(v == 0.0 && v.is_sign_negative()) {
                format!("+{v}")
            } else {
                format!("{v}")
            }
        }
    }
}

fn xyz_text(lines: &[Line], crlf: bool) -> String {
    let mut out = String::new();
    for l in lines {
        let mut cols: Vec<String> = l.xyz.to_vec();
        cols.extend(l.rgb.iter().map(|c| c.to_string()));
        cols.extend(l.extra.iter().cloned());
        // `keep` below 9 cuts the line short; 9 and more keep every column
        if l.keep < 9 {
            cols.truncate(l.keep as usize);
        }
        out.push_str(&cols.join(" "));
        out.push_str(if crlf { "\r\n" } else { "\n" });
    }
    out
}

fn run_xyz(lines: &[Line], crlf: bool, v: &mut Verdict) -> Result<(), String> {
    let sc = Scratch::new().map_err(|e| format!("infra: {e}"))?;
    let input = sc.0.join("in.xyz");
    std::fs::write(&input, xyz_text(lines, crlf)).map_err(|e| format!("infra: {e}"))?;
    let o = Command::new(tool("e57-from-xyz")).arg(&input).output().map_err(|e| format!("infra: cannot run e57-from-xyz: {e}"))?;
    if !o.status.success() {
        return Err(format!("e57-from-xyz failed on a well-formed XYZ file: {}", String::from_utf8_lossy(&o.stderr)));
    }
    let e57 = sc.0.join("in.xyz.e57");
    // where the XML section ends within its page (from the file header; classification only)
    if let Ok(b) = std::fs::read(&e57) {
        if b.len() >= 48 {
            let off = u64::from_le_bytes(b[24..32].try_into().unwrap());
            let len = u64::from_le_bytes(b[32..40].try_into().unwrap());
            let log_end = off / 1024 * 1020 + off % 1024 + len;
            match log_end % 1020 {
                0 => v.nt("xml_ends_with_the_payload_of_a_page"),
                1..=3 => v.nt("xml_ends_within_3_bytes_behind_a_page_boundary"),
                1017..=1019 => v.nt("xml_ends_within_3_bytes_before_a_page_boundary"),
                _ => {}
            }
        }
    }
    let o = Command::new(tool("e57-to-xyz")).arg(&e57).output().map_err(|e| format!("infra: cannot run e57-to-xyz: {e}"))?;
    if !o.status.success() {
        return Err(format!("e57-to-xyz failed on the converter's own output: {}", String::from_utf8_lossy(&o.stderr)));
    }
    let back = std::fs::read_to_string(sc.0.join("in.xyz.e57.xyz")).map_err(|e| format!("e57-to-xyz wrote no output file: {e}"))?;
    let expected: Vec<&Line> = lines.iter().filter(|l| l.keep >= 6).collect();
    let got: Vec<&str> = back.lines().collect();
    if expected.len() > 4334 {
        v.nt("more_than_one_packet_of_points");
    }
    if got.len() != expected.len() {
        return Err(format!("{} points came back, {} lines with at least 6 columns went in", got.len(), expected.len()));
    }
    for (i, (e, g)) in expected.iter().zip(got.iter()).enumerate() {
        let cols: Vec<&str> = g.split(' ').collect();
        if cols.len() != 6 {
            return Err(format!("line {i}: '{g}' does not have 6 columns"));
        }
        for k in 0..3 {
            let want: f32 = e.xyz[k].parse().map_err(|_| format!("infra: generated coordinate '{}' does not parse", e.xyz[k]))?;
            let have: f64 = cols[k].parse().map_err(|_| format!("line {i}: coordinate '{}' is not a number", cols[k]))?;
            if have != want as f64 {
                return Err(format!("line {i}: coordinate {k} went in as '{}' (f32 {want:?}) and came back as '{}'", e.xyz[k], cols[k]));
            }
        }
        for k in 0..3 {
            let have: u8 = cols[3 + k].parse().map_err(|_| format!("line {i}: colour '{}' is not an 8-bit number", cols[3 + k]))?;
            if have != e.rgb[k] {
                return Err(format!("line {i}: colour component {k} went in as {} and came back as {have}", e.rgb[k]));
            }
        }
    }
    Ok(())
}

fn run_e57(p: &Program, damage: &[Damage], v: &mut Verdict) -> Result<(), String> {
    let dev = MemDev::new();
    let h = dev.handle();
    let mut tr = Trace::default();
    if guard(|| prog::exec(p, dev, &mut tr)).is_err() || tr.error.is_some() || !tr.finalized {
        v.label("writer_error_out_of_scope");
        return Ok(());
    }
    let good = h.bytes();
    let sc = Scratch::new().map_err(|e| format!("infra: {e}"))?;
    // checksum tool: exit status 0 <=> every page valid
    let file = sc.0.join("f.e57");
    let bytes = damaged(&good, damage);
    std::fs::write(&file, &bytes).map_err(|e| format!("infra: {e}"))?;
    let all_valid = e57ref::pages::page_verdicts(&bytes).iter().all(|x| *x);
    if !all_valid {
        v.nt("file_with_damaged_page");
    }
    let o = Command::new(tool("e57-check-crc")).arg(&file).output().map_err(|e| format!("infra: cannot run e57-check-crc: {e}"))?;
    if o.status.success() != all_valid {
        return Err(format!("e57-check-crc exits with {:?} although {}", o.status.code(), if all_valid { "every page checksum is valid" } else { "a page checksum is invalid" }));
    }
    // the remaining tools are compared with the library on the intact file
    std::fs::write(&file, &good).map_err(|e| format!("infra: {e}"))?;
    let o = Command::new(tool("e57-extract-xml")).arg(&file).output().map_err(|e| format!("infra: cannot run e57-extract-xml: {e}"))?;
    if !o.status.success() {
        return Err(format!("e57-extract-xml failed: {}", String::from_utf8_lossy(&o.stderr)));
    }
    let lib_xml = e57::E57Reader::raw_xml(MemDev::with_data(good.clone())).map_err(|e| format!("raw_xml failed: {e}"))?;
    let ref_xml = e57ref::decode::decode(&good).map_err(|e| format!("infra: reference decoder: {e}"))?.xml;
    if o.stdout != lib_xml || lib_xml != ref_xml {
        return Err("e57-extract-xml output, E57Reader::raw_xml and the independently extracted XML section are not identical".into());
    }
    let o = Command::new(tool("e57-unpack")).arg(&file).output().map_err(|e| format!("infra: cannot run e57-unpack: {e}"))?;
    if !o.status.success() {
        return Err(format!("e57-unpack failed: {}", String::from_utf8_lossy(&o.stderr)));
    }
    let dir = sc.0.join("f.e57_unpacked");
    let meta = std::fs::read(dir.join("metadata.xml")).map_err(|e| format!("e57-unpack wrote no metadata.xml: {e}"))?;
    if meta != lib_xml {
        return Err("metadata.xml written by e57-unpack differs from the library's XML".into());
    }
    let exp = prog::expected_scene(p);
    if exp.clouds.len() >= 2 {
        v.nt("several_clouds");
    }
    for (ci, c) in exp.clouds.iter().enumerate() {
        let csv = std::fs::read_to_string(dir.join(format!("pc_{ci}.csv"))).map_err(|e| format!("e57-unpack wrote no pc_{ci}.csv: {e}"))?;
        let rows: Vec<&str> = csv.lines().skip(1).collect();
        if rows.len() != c.points.len() {
            return Err(format!("pc_{ci}.csv has {} data rows, the cloud has {} points", rows.len(), c.points.len()));
        }
        for (i, (row, pt)) in rows.iter().zip(c.points.iter()).enumerate() {
            let want: Vec<String> = pt
                .iter()
                .map(|v| match v {
                    Val::S(f) => f.0.to_string(),
                    Val::D(f) => f.0.to_string(),
                    Val::I(i) => i.to_string(),
                })
                .collect();
            if *row != want.join(";") {
                return Err(format!("pc_{ci}.csv row {i} is '{row}', the raw values are '{}'", want.join(";")));
            }
        }
    }
    for (ii, im) in exp.images.iter().enumerate() {
        v.nt("file_with_images");
        for r in [&im.visual, &im.projection].into_iter().flatten() {
            let kind = match r.kind {
                e57ref::scene::RepKind::Visual => "preview",
                e57ref::scene::RepKind::Pinhole => "pinhole",
                e57ref::scene::RepKind::Spherical => "spherical",
                e57ref::scene::RepKind::Cylindrical => "cylindrical",
            };
            let ext = if r.jpeg { "jpeg" } else { "png" };
            let data = std::fs::read(dir.join(format!("image_{ii}_{kind}.{ext}"))).map_err(|e| format!("e57-unpack wrote no image_{ii}_{kind}.{ext}: {e}"))?;
            if data != r.data {
                return Err(format!("image_{ii}_{kind}.{ext} differs from the blob bytes"));
            }
            if let Some(m) = &r.mask {
                let data = std::fs::read(dir.join(format!("image_{ii}_{kind}_mask.png"))).map_err(|e| format!("e57-unpack wrote no mask for image {ii} {kind}: {e}"))?;
                if &data != m {
                    return Err(format!("image_{ii}_{kind}_mask.png differs from the mask bytes"));
                }
            }
        }
    }
    Ok(())
}

impl Check for C20 {
    type Case = Case;
    const ID: &'static str = "C20";
    fn rule() -> String {
        "XYZ files: 0..400 lines (one enumerated file with 9000 lines, more than one packet), finite f32 coordinates from a special pool (+-0, \
         subnormals, +-MAX, 2^24 neighbours; 1 line in 7 is a point at the origin in some spelling of zero) and random bit patterns in shortest / exponent / debug / explicit-plus notation, colours 0..255 \
         (one enumerated file holds all 256 values in every channel), extra columns, short lines, LF or CRLF, single-space separated; converted by \
         e57-from-xyz then e57-to-xyz (real processes): same number of lines as input lines with >= 6 columns, in order, each coordinate parses to \
         an f64 equal to the input f32, colours equal. E57 files from the writer generator (1 in 4 with its XML turned into a single-line document by the finalize transformer), intact and with damaged pages (bit flips anywhere, the 48-byte file header included): e57-check-crc exits 0 \
         iff every page is valid by e57ref (single files and directories of 2..4 files); e57-extract-xml stdout = E57Reader::raw_xml = e57ref's XML bytes; e57-unpack: metadata.xml = XML, each \
         CSV row = Display of the raw values, each image file = the blob bytes. Non-trivial: XYZ file with > 1 packet of points or a special \
         float, E57 file with a damaged page, several clouds or images."
            .into()
    }
    fn assumptions() -> Vec<String> {
        vec!["XYZ input is single-space separated as the tool's header comment states".into(), "tools are built from /repo's workspace by bin/check C20 into /verif/target/tools".into()]
    }
    fn budget(t: Tier) -> usize {
        t.pick(1500, 100_000)
    }
    fn preflight() -> Result<(), String> {
        for t in ["e57-from-xyz", "e57-to-xyz", "e57-check-crc", "e57-extract-xml", "e57-unpack"] {
            if !tool(t).exists() {
                return Err(format!("tool binary {} is missing (bin/check C20 builds it)", tool(t).display()));
            }
        }
        Ok(())
    }
    fn fixed(_t: Tier) -> Vec<Case> {
        let mut big = Vec::new();
        for i in 0..9000u32 {
            big.push(Line { xyz: [format!("{}", i as f32 * 0.25), format!("{}", -(i as f32)), "1.5".into()], rgb: [(i % 256) as u8, (i / 7 % 256) as u8, 255 - (i % 256) as u8], extra: vec![], keep: 6 });
        }
        let mut out = vec![Case::Colors, Case::Xyz { lines: big, crlf: false }];
        // lines of 2 KiB .. 40 KiB (thousands of extra columns that look like colour values)
        for cols in [1000usize, 2040, 3000, 20_000] {
            let long: Vec<Line> = (0..3u32)
                .map(|i| Line { xyz: [format!("{}", i as f32 + 0.5), "2".into(), "-3.25".into()], rgb: [i as u8, 7, 200], extra: if i == 1 { vec!["7".to_string(); cols] } else { vec![] }, keep: 9 })
                .collect();
            out.push(Case::Xyz { lines: long, crlf: cols == 3000 });
        }
        // every page of a 300-page file damaged in turn; the pages around multiples of 255 / 256 of a bigger one
        out.push(Case::CrcSweep { pages: 300, first: 0, step: 1 });
        out.push(Case::CrcSweep { pages: 1100, first: 254, step: 255 });
        out.push(Case::CrcSweep { pages: 1100, first: 255, step: 256 });
        // point counts sweeping the end of the point data through every offset within a page (15 bytes per point,
        // 68 points per page payload), with one, two and three data packets
        for base in [60u32, 4380, 8680] {
            for k in 0..68 {
                out.push(Case::XyzCount { n: base + k });
            }
        }
        // the same for the end of the XML section: 15 consecutive lengths of one number in the XML x 68 consecutive n
        for pad in 0..15u8 {
            for k in 0..68 {
                out.push(Case::XyzXmlEnd { n: 60 + k, pad });
            }
        }
        out
    }
    fn describe_fixed(_t: Tier) -> Option<String> {
        Some("one file with all 256 values in each colour channel; one file with 9000 points (more than one data packet); 4 files with one line of 2 to 40 KiB; e57-check-crc on a 300-page file with every page damaged in turn and on a 1100-page file at the multiples of 255 and 256; XYZ files of n points for 3 x 68 consecutive n (end of the point data at every offset within a page, 1 to 3 data packets); 15 x 68 XYZ files whose point count and longest number move the end of the XML section over every offset within a page".into())
    }
    fn gen(s: &mut Src, _t: Tier) -> Case {
        if s.chance(1, 10) {
            let k = 2 + s.below(3) as usize;
            let programs = (0..k).map(|_| small_program(s)).collect();
            let damaged = (0..k).map(|_| s.chance(1, 3)).collect();
            return Case::Dir { programs, damaged };
        }
        if s.chance(3, 5) {
            let n = match s.weighted(&[1, 4, 2]) {
                0 => 0,
                1 => s.below(12) as usize,
                _ => s.below(400) as usize,
            };
            let lines = (0..n)
                .map(|_| Line {
                    xyz: if s.chance(1, 7) { [zero_text(s), zero_text(s), zero_text(s)] } else { [f32_text(s), f32_text(s), f32_text(s)] },
                    rgb: if s.chance(1, 3) {
                        [*s.pick(&[0u8, 1, 2, 254, 255]), *s.pick(&[0u8, 1, 2, 254, 255]), *s.pick(&[0u8, 1])]
                    } else {
                        [s.byte(), s.byte(), *s.pick(&[0u8, 1, 127, 128, 254, 255])]
                    },
                    // rarely a line of several thousand bytes (thousands of extra columns)
                    extra: if s.chance(1, 80) { (0..1000 + s.below(2500)).map(|k| ["7", "255", "x"][k as usize % 3].to_string()).collect() } else { (0..s.weighted(&[4, 1, 1])).map(|_| gen::ext_name(s)).collect() },
                    keep: if s.chance(1, 8) { s.below(6) as u8 } else { 9 },
                })
                .collect();
            Case::Xyz { lines, crlf: s.chance(1, 4) }
        } else {
            let mut program = small_program(s);
            if s.chance(1, 4) {
                // a single-line XML document (hundreds of bytes after its last line break)
                program.end = prog::End::FinalizeMinified { keep_first: s.flag() };
            }
            let nd = s.weighted(&[2, 2, 1]);
            let damage = (0..nd).map(|_| if s.chance(1, 4) { Damage::HeaderBit { byte: s.byte(), bit: s.byte() } } else { Damage::Unsealed { page: s.byte(), byte: s.u16(), bit: s.byte() } }).collect();
            Case::E57 { program, damage }
        }
    }
    fn run(case: &Case) -> Verdict {
        let mut v = Verdict::new();
        let r = match case {
            Case::Colors => {
                v.nt("all_256_colour_values");
                let lines: Vec<Line> = (0..=255u32).map(|c| Line { xyz: ["1".into(), "2".into(), "3".into()], rgb: [c as u8, (255 - c) as u8, ((c * 7) % 256) as u8], extra: vec![], keep: 6 }).collect();
                run_xyz(&lines, false, &mut v)
            }
            Case::Xyz { lines, crlf } => {
                if lines.iter().any(|l| l.keep >= 6 && l.xyz.iter().all(|t| t.parse::<f32>().map(|f| f == 0.0).unwrap_or(false))) {
                    v.nt("point_at_the_origin");
                }
                if lines.iter().any(|l| l.xyz.iter().any(|t| t.contains('e') || t.starts_with('+') || t.len() > 12)) {
                    v.nt("special_float_notation_or_value");
                }
                run_xyz(lines, *crlf, &mut v)
            }
            Case::Dir { programs, damaged } => run_dir(programs, damaged, &mut v),
            Case::CrcSweep { pages, first, step } => {
                v.nt("checksum_tool_on_a_big_file_page_by_page");
                run_crc_sweep(*pages, *first, *step, &mut v)
            }
            Case::XyzCount { n } => {
                v.nt("point_count_sweep");
                let lines: Vec<Line> = (0..*n)
                    .map(|i| Line { xyz: [format!("{}", i as f32 * 0.5), format!("{}", -(i as f32) * 0.25), format!("{}", (i % 97) as f32)], rgb: [(i % 256) as u8, (i / 3 % 256) as u8, (i / 11 % 256) as u8], extra: vec![], keep: 6 })
                    .collect();
                run_xyz(&lines, false, &mut v)
            }
            Case::XyzXmlEnd { n, pad } => {
                v.nt("xml_end_sweep");
                let mut lines: Vec<Line> = (0..*n)
                    .map(|i| Line { xyz: [format!("{}", i as f32 * 0.5), format!("{}", -(i as f32) * 0.25), format!("{}", (i % 97) as f32)], rgb: [(i % 256) as u8, (i / 3 % 256) as u8, (i / 11 % 256) as u8], extra: vec![], keep: 6 })
                    .collect();
                // 100.5, 100.25, 100.125, ...: exact in 32 bits, one more decimal each
                lines[0].xyz[2] = format!("{}", 100.0f32 + 0.5f32.powi(*pad as i32 + 1));
                run_xyz(&lines, false, &mut v)
            }
            Case::E57 { program, damage } => {
                if matches!(program.end, prog::End::FinalizeMinified { .. }) {
                    v.nt("single_line_xml_document");
                }
                if program.ops.iter().filter(|o| matches!(o, Op::Cloud(_))).count() >= 2 {
                    v.label("program_with_several_clouds");
                }
                run_e57(program, damage, &mut v)
            }
        };
        match r {
            Ok(()) => {}
            Err(e) if e.starts_with("infra:") => v.infra(e),
            Err(e) => v.fail(e),
        }
        v
    }
}
