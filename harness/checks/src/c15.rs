//! C15 - an interrupted write is never mistaken for a complete file.
use crate::dev::{MemDev, OpKind};
use crate::kit::{guard, Check, Level, Src, Tier, Verdict};
use crate::prog::{self, End, GenOpts, Program, Trace};
use crate::rops::{all_ops, blob_list, run_op, OpOut, ReadOp};
use e57::E57Reader;
use serde::{Deserialize, Serialize};

pub struct C15;

#[derive(Clone, Serialize, Deserialize)]
pub struct Case {
    pub program: Program,
    /// every cut position inside every write (else a dense sample)
    pub all_cuts: bool,
    /// the device is not fresh: it still holds the complete file of this older program (cursor at 0)
    #[serde(default)]
    pub old: Option<Program>,
}

pub fn small_program(s: &mut Src) -> Program {
    let o = GenOpts { max_ops: 3, max_values: 400, density: 1, fat_chance: (0, 1), ..GenOpts::default() };
    let mut p = prog::valid_program(s, &o);
    // keep the files at a few pages
    for op in &mut p.ops {
        if let prog::Op::Blob(b) = op {
            b.len %= 2300;
        }
        if let prog::Op::Image(i) = op {
            for r in [&mut i.visual, &mut i.projection].into_iter().flatten() {
                r.data.len %= 1500;
                if let Some(m) = &mut r.mask {
                    m.len %= 700;
                }
            }
        }
    }
    p
}

struct Baseline {
    ops: Vec<ReadOp>,
    outs: Vec<OpOut>,
    header: String,
}

fn results(bytes: &[u8], free: &[(u64, u64)], ops: Option<&[ReadOp]>) -> Result<(Vec<ReadOp>, Vec<OpOut>, String), String> {
    let mut rd = E57Reader::new(MemDev::with_data(bytes.to_vec())).map_err(|e| e.to_string())?;
    let hd = rd.header();
    let header = format!("signature {:?} version {}.{} physical length {} XML at {} length {} page size {}", hd.signature, hd.major, hd.minor, hd.phys_length, hd.phys_xml_offset, hd.xml_length, hd.page_size);
    let ops: Vec<ReadOp> = match ops {
        Some(o) => o.to_vec(),
        None => {
            let nb = blob_list(&rd, free).len();
            all_ops(rd.pointclouds().len(), nb)
        }
    };
    let outs = ops.iter().map(|op| run_op(&mut rd, op, free)).collect();
    Ok((ops, outs, header))
}

fn cuts(len: usize, all: bool) -> Vec<usize> {
    if all {
        return (0..len).collect();
    }
    let mut c: Vec<usize> = (0..len.min(64)).collect();
    c.extend((64..len).step_by(4));
    c.extend(len.saturating_sub(8)..len);
    c.sort();
    c.dedup();
    c
}

impl Check for C15 {
    type Case = Case;
    const ID: &'static str = "C15";
    fn level() -> Level {
        Level::FaultEnumeration
    }
    fn rule() -> String {
        "Small writer programs (C01 generator, files of a few pages, incl. programs that drop the writer without the top-level finalize) run on a \
         recording device; the crash images enumerated are ALL prefixes of the sequence of device write operations x cut positions inside the cut \
         operation (all of bytes 0..64, the last 8 bytes, every 4th byte elsewhere; thorough: every byte). For each image accepted by \
         E57Reader::new: it must stem from after the entry into the top-level finalize, list the same point clouds and images as the completed file, \
         report the completed file's header fields, and every read operation (XML, descriptors, raw and simple iteration of every cloud, every blob) must fail or return exactly the completed \
         file's result. 1 program in 8 keeps calling the writer after the top-level finalize (finalize again, further add_* calls, finalize once more); 1 in 6 programs runs on a reused device that still holds an older complete file (cursor at 0): the writer either refuses \
         the device without touching it or every image (old content overlaid with the new writes) obeys the same rule. `evaluations` counts programs, `executions_of_code_under_test` counts crash images. Non-trivial: program whose image set \
         contains a cut inside the final header-patch write, or an accepted incomplete image, or a reused device."
            .into()
    }
    fn assumptions() -> Vec<String> {
        vec!["writes reach the device in issue order; a torn write persists a prefix of the operation".into()]
    }
    fn budget(t: Tier) -> usize {
        t.pick(600, 15_000)
    }
    fn fixed(t: Tier) -> Vec<Case> {
        // the end of the XML section swept through every residue modulo the page payload (file GUID padded by k characters)
        let mut s = Src::from_seed(0xC15);
        let base = loop {
            let p = small_program(&mut s);
            if p.end == End::Finalize && p.ops.iter().any(|o| matches!(o, prog::Op::Cloud(_))) && p.ops.len() <= 3 {
                break p;
            }
        };
        (0..1020usize)
            .map(|k| {
                let mut p = base.clone();
                p.guid = format!("{{sweep-{}}}", "g".repeat(k));
                Case { program: p, all_cuts: t == Tier::Thorough, old: None }
            })
            .collect()
    }
    fn describe_fixed(_t: Tier) -> Option<String> {
        Some("one small program with its file GUID padded by 0..1019 characters: the XML section ends at every offset within a page".into())
    }
    fn gen(s: &mut Src, t: Tier) -> Case {
        let mut program = small_program(s);
        if s.chance(1, 5) {
            program.end = End::Drop;
            // sub-writers finalized or abandoned
            for op in &mut program.ops {
                match op {
                    prog::Op::Cloud(c) => c.finalize = s.flag(),
                    prog::Op::Image(i) => i.finalize = s.flag(),
                    _ => {}
                }
            }
        }
        if program.end == End::Finalize && s.chance(1, 8) {
            // a caller that keeps using the finished writer: whatever those calls do, no image may be accepted that is not
            // the file as it stands at the end
            let more = small_program(s).ops.into_iter().filter(|o| !matches!(o, prog::Op::Ext { .. })).take(2).collect();
            program.end = End::FinalizeThenMore { more, customized: s.flag() };
        }
        let old = if s.chance(1, 6) { Some(small_program(s)) } else { None };
        Case { program, all_cuts: t == Tier::Thorough, old }
    }
    fn run(case: &Case) -> Verdict {
        let mut v = Verdict::new();
        let p = &case.program;
        // a reused device: the complete file of an older program is still on it
        let mut old_bytes: Vec<u8> = Vec::new();
        if let Some(op) = &case.old {
            let d = MemDev::new();
            let hd = d.handle();
            let mut t = Trace::default();
            if guard(|| prog::exec(op, d, &mut t)).is_ok() && t.error.is_none() && t.finalized {
                old_bytes = hd.bytes();
            }
        }
        let dev = MemDev::with_data(old_bytes.clone());
        dev.st.borrow_mut().record = true;
        let h = dev.handle();
        let mut tr = Trace { add_after_failed_finalize: true, ..Trace::default() };
        if let Err(panic) = guard(|| prog::exec(p, dev, &mut tr)) {
            v.fail(format!("writer panicked in {}: {panic}", tr.current));
            return v;
        }
        if !old_bytes.is_empty() {
            if let Some((call, _)) = &tr.error {
                if call == "E57Writer::new" {
                    // the writer refuses a device that is not empty: nothing of the new file exists, nothing can be mistaken
                    if h.bytes() != old_bytes {
                        v.fail("E57Writer::new refused a non-empty device but changed its content");
                    }
                    v.nt("nonempty_device_refused");
                    return v;
                }
            }
            v.nt("nonempty_device_accepted");
        }
        // a top-level finalize that fails without any device fault, answered by a caller who adds more data: there is no
        // completed file, but if the reader accepts what the device holds in the end, every image it accepted on the
        // way must agree with that
        let failed_finalize_then_more = tr.error.is_some() && tr.added_after_failed_finalize;
        if tr.error.is_some() && !failed_finalize_then_more {
            v.label("writer_error_out_of_scope");
            return v;
        }
        if failed_finalize_then_more {
            v.nt("finalize_failed_and_the_caller_added_more");
        }
        if tr.finalized_after_adding_more {
            v.nt("finalize_failed_then_succeeded_after_adding_more");
        }
        let st = h.st.borrow();
        let writes: Vec<(u64, &[u8], usize)> = st.log.iter().enumerate().filter(|(_, o)| o.kind == OpKind::Write).map(|(i, o)| (o.offset, &o.data[..], i)).collect();
        let fin_log_idx = st.marks.iter().find(|(n, _)| n == "finalize").map(|(_, i)| *i);
        let free = tr.blobs.clone();
        let mut images = 0u64;
        if p.end == End::Drop {
            v.nt("dropped_without_finalize");
            let fin = st.data.clone();
            images += 1;
            if guard(|| E57Reader::new(MemDev::with_data(fin.clone())).is_ok()).unwrap_or(true) {
                v.fail("a file whose writer was dropped without the top-level finalize is accepted by the reader");
            }
            // and every prefix of it
        }
        let completed = st.data.clone();
        let baseline = if tr.finalized || failed_finalize_then_more {
            match guard(|| results(&completed, &free, None)) {
                Ok(Ok((ops, outs, header))) => Some(Baseline { ops, outs, header }),
                // (no finalize call succeeded: nothing says that the device must hold an acceptable file)
                Ok(Err(_)) if !tr.finalized => None,
                Ok(Err(e)) => {
                    v.fail(format!("the completed file is rejected by the reader: {e}"));
                    return v;
                }
                Err(pn) => {
                    v.fail(format!("reader panicked on the completed file: {pn}"));
                    return v;
                }
            }
        } else {
            None
        };
        let mut image: Vec<u8> = old_bytes.clone();
        let apply = |img: &mut Vec<u8>, off: u64, data: &[u8]| {
            let end = off as usize + data.len();
            if img.len() < end {
                img.resize(end, 0);
            }
            img[off as usize..end].copy_from_slice(data);
        };
        let nw = writes.len();
        for (k, (off, data, log_idx)) in writes.iter().enumerate() {
            let before_finalize = fin_log_idx.map(|f| *log_idx < f).unwrap_or(true);
            let last = k + 1 == nw && tr.finalized;
            if last {
                v.nt("cut_inside_final_header_patch");
            }
            for c in cuts(data.len(), case.all_cuts) {
                let mut img = image.clone();
                apply(&mut img, *off, &data[..c]);
                images += 1;
                let accepted = guard(|| results(&img, &free, baseline.as_ref().map(|b| &b.ops[..])));
                match accepted {
                    Err(pn) => {
                        v.fail(format!("reader panicked on the crash image (write {k} of {nw} cut after {c} bytes): {pn}"));
                        v.execs = images;
                        return v;
                    }
                    Ok(Err(_)) => {}
                    Ok(Ok((_, outs, header))) => {
                        if before_finalize {
                            v.fail(format!("crash image from before the top-level finalize call (write {k} of {nw} cut after {c} bytes) is accepted by the reader"));
                            v.execs = images;
                            return v;
                        }
                        v.nt("incomplete_image_accepted");
                        if let Some(b) = &baseline {
                            if header != b.header {
                                v.fail(format!("accepted crash image (write {k} of {nw} cut after {c} bytes) reports the file header [{header}], the completed file has [{}]", b.header));
                                v.execs = images;
                                return v;
                            }
                            for (i, (o, bo)) in outs.iter().zip(b.outs.iter()).enumerate() {
                                let r = if i < 2 {
                                    // XML and descriptor lists must be those of the completed file
                                    if o == bo {
                                        Ok(())
                                    } else {
                                        Err("differs from the completed file".to_string())
                                    }
                                } else {
                                    o.err_or_same_as(bo)
                                };
                                if let Err(m) = r {
                                    v.fail(format!("accepted crash image (write {k} of {nw} cut after {c} bytes): {:?} {m}", b.ops[i]));
                                    v.execs = images;
                                    return v;
                                }
                            }
                        }
                    }
                }
            }
            apply(&mut image, *off, data);
        }
        v.execs = images.max(1);
        if tr.finalized && image != completed && old_bytes.is_empty() {
            v.infra("replaying the recorded writes does not reproduce the device content");
        }
        v
    }
}
